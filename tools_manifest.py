#!/usr/bin/env python3
"""maintenance: (re)generate MANIFEST.json from the table below; validates against the schema."""
import json, os

BASE = "cd /repo && /venv/bin/python -m pytest -ra -q -p no:cacheprovider --timeout=900 --continue-on-collection-errors"
PYVC_TB = ("pyvc (our VC generator; python-semantics assumptions DESIGN §3.6), z3 5.1 (cvc5 on z3's unknown), sidecar contracts incl. "
           "assumed contracts listed per obligation in the evidence; termination not proved")
BOUNDED_TB = "pandas 3.0.5 / polars 1.44 / sqlite3 3.40 as installed; reference oracles written from the property statement and documentation; scope sizes in the evidence"

P = {}
def add(pid, cat, text, note, technique, design):
    P[pid] = dict(cat=cat, text=text, note=note, technique=technique, design=design)

add("C01", "exploration", "bounded stand-in only: the contract `read_query(to_sql(ops)) ≡ ops.eval(data)` is stated on the real DBHandle.read_query and checked at run time over an enumerated corpus (all operator pairs, tables ≤3 rows; triples in thorough). Nothing is proved: the meaning lives in SQLite and pandas.",
    BOUNDED_TB, "run-time contract on the real function over an exhaustively enumerated small scope (bounded stand-in, not proved)", "§5 C01")
add("C03", "exploration", "bounded stand-in only: contract `not raises ⇒ frames_equiv(polars result, pandas result)` on the real Polars executor for eager/lazy inputs and both lazy-eval modes, over the enumerated corpus. Nothing is proved.",
    BOUNDED_TB, "run-time contract on the real function over an enumerated small scope (bounded stand-in, not proved)", "§5 C03")
add("C06", "proof", "the merge obligation `ext(merged,T) = ext(ops2, ext(ops1,T))` for all assignment maps and tables is discharged by z3 from the real body of try_to_merge_ops (6 paths), with finite-scope refutation + native replay when it fails; builder forwarding / collapsing obligations as listed in the evidence.",
    PYVC_TB + "; ghost semantics: simultaneous-assignment extend, ev(e,T) depends only on cols(e) ∪ window columns (frame axiom)", "contract-based deductive verification: VCs generated from the real AST, discharged by z3/cvc5; counter-models replayed natively", "§5 C06")
add("C08", "exploration", "bounded stand-in only: contract `set(result.columns) = set(op.column_names)` (and order after select_columns) on every _X_step of both executors and on read_query, at every node of every enumerated pipeline.",
    BOUNDED_TB, "run-time contract on the real functions over an enumerated small scope (bounded stand-in, not proved)", "§5 C08")
add("C18", "other", "bounded: permutation / re-indexing invariance and order_rows sortedness+limit checked at run time on the real executors over the enumerated corpus (all permutations of ≤4 rows). Glue obligations (sort/limit arguments) are listed as not yet proved.",
    BOUNDED_TB, "run-time contract over an enumerated small scope (bounded stand-in); no obligation proved for this property", "§5 C18")
add("C19", "other", "bounded: deep snapshots of caller frames (values, dtypes, columns, index) before/after eval/transform/ex/>> on Pandas and Polars over the enumerated corpus; repeatability. Ownership obligations not yet proved.",
    BOUNDED_TB, "run-time contract over an enumerated small scope (bounded stand-in); no obligation proved for this property", "§5 C19")
add("C23", "proof", "every ensures clause and both loop invariants of connected_components are discharged by z3 for all edge lists (unbounded): the blocks are an equivalence containing every edge, finer than ANY equivalence containing the edges, each edge is labelled with the least vertex of its block, equal labels ⇔ same block. A bounded run against a BFS reference rides along.",
    PYVC_TB + "; vertices as mathematical integers; 'finest equivalence containing the edges = connected components' is a paper argument", "contract-based deductive verification: loop invariants + ghost equivalence, VCs from the real AST, z3", "§5 C23")
add("C24", "proof", "16 targets of OrderedSet.py (constructor, add, discard, update, copy, len, contains, iter, <=, >=, ordered_union/intersect/diff) proved against the abstraction (member set, injective insertion stamps): 130 obligations incl. loop invariants with the ghost first-occurrence map. Inherited MutableSet mixins and __lt__/__gt__/union are only in the bounded ride-along (all op sequences ≤3/4).",
    PYVC_TB + "; OrderedDict iteration = insertion order; update proved for 0,1,2 iterables", "contract-based deductive verification: representation invariant + loop invariants, VCs from the real AST, z3", "§5 C24")

NA = [("C02", "no PostgreSQL server or formal PostgreSQL semantics in the sandbox: no contract within reach can be discharged or even checked boundedly; dialect text paths are exercised under C04/C16 on SQLite as a labelled surrogate, which does not decide C02")]

def main():
    props = [json.loads(l)["id"] for l in open("properties.jsonl")]
    checks = []
    for pid in props:
        if pid not in P or not os.path.exists("props/%s.py" % pid):
            continue
        m = P[pid]
        checks.append({
            "property_id": pid,
            "quick_cmd": "./check %s --tier quick" % pid,
            "thorough_cmd": "./check %s --tier thorough" % pid,
            "evidence_file": "evidence/%s.json" % pid,
            "replay_cmd_template": "./check %s --replay {path}" % pid,
            "engine": "pyvc+cbc" if m["cat"] in ("proof", "other") else "cbc",
            "level_claimed": {"category": m["cat"], "text": m["text"], "design_ref": m["design"]},
            "level_note": m["note"],
            "technique": m["technique"],
        })
    claimed = {c["property_id"] for c in checks}
    na = [{"property_id": p, "reason": r} for p, r in NA]
    for pid in props:
        if pid not in claimed and pid not in dict(NA):
            na.append({"property_id": pid, "reason": "check not built yet in this round (work in progress; see DESIGN.md §5 for the plan)"})
    man = {
        "version": 1,
        "setup_cmd": "./setup.sh",
        "hooks": {"guard": "DATA_ALGEBRA_VERIF", "enable": "no source hooks in /repo: contracts are sidecars under /verif/contracts, attached in-process by the checks (./check exports DATA_ALGEBRA_VERIF=1); /repo only carries unguarded `fix:` commits",
                  "baseline_off_cmd": BASE, "source_commits": [], "add_only": True},
        "engines": [
            {"name": "pyvc", "path": "pyvc/", "serves_properties": sorted(p for p in claimed if P[p]["cat"] in ("proof", "other")), "kind_free_text": "verification-condition generator over the real /repo AST (symbolic executor, sidecar contracts, loop invariants), z3 + cvc5, finite-scope refutation with native replay"},
            {"name": "cbc", "path": "cbc/", "serves_properties": sorted(claimed), "kind_free_text": "contracts checked at run time on the real functions over exhaustively enumerated small scopes (bounded stand-in, never counted as proved)"},
        ],
        "checks": checks,
        "not_applicable": na,
        "notes": "exit 0 held (KNOWN-FINDING lines allowed), 1 VIOLATION, 3 checker error. known_findings.json lists genuine defects of the pinned tree; obligations.lock.json lists obligations discharged on it.",
    }
    json.dump(man, open("MANIFEST.json", "w"), indent=1)
    import jsonschema
    jsonschema.validate(man, json.load(open("/root/.vp/MANIFEST.schema.json")))
    print("MANIFEST ok:", len(checks), "checks;", len(na), "not applicable")

main()
