#!/usr/bin/env python3
"""maintenance: (re)generate MANIFEST.json from the table below; validates against the schema."""
import json, os

BASE = "cd /repo && /venv/bin/python -m pytest -ra -q -p no:cacheprovider --timeout=900 --continue-on-collection-errors"
PYVC_TB = ("pyvc (our VC generator; python-semantics assumptions DESIGN §3.6), z3 5.1 (cvc5 on z3's unknown), sidecar contracts incl. "
           "assumed contracts listed per obligation in the evidence; termination not proved")
BOUNDED_TB = "pandas 3.0.5 / polars 1.44 / sqlite3 3.40 as installed; reference oracles written from the property statement and documentation; scope sizes in the evidence"

P = {}
HYB = "hybrid: "
def add(pid, cat, text, note, technique, design):
    P[pid] = dict(cat=cat, text=text, note=note, technique=technique, design=design)

add("C01", "other", HYB + "PROVED: the SQL text pieces of seven operator translations (select_rows, rename, map_columns, project GROUP BY, order_rows ORDER BY/DESC/LIMIT, extend OVER clause + term dependencies, SQLite right-join emulation), the term layout routine and identifier quoting -- which pieces are written where, for all nodes and requested column sets. BOUNDED (the meaning lives in SQLite and pandas): the contract `read_query(to_sql(ops)) ≡ ops.eval(data)` is stated on the real DBHandle.read_query and checked at run time over an enumerated corpus (all operator pairs, tables ≤3 rows; triples in thorough).",
    PYVC_TB + "; " + BOUNDED_TB, "contract-based deductive verification of the SQL text generation glue (VCs from the real AST, z3) + run-time contract on the real function over an exhaustively enumerated small scope (bounded stand-in) for the semantics", "§5 C01")
add("C03", "other", HYB + "PROVED: for table / order_rows / select_columns / rename_columns / select_rows steps both executors hand their frame library the node's own arguments (declared columns in order; sort keys with ascending flags from `reverse`; limit). BOUNDED (the meaning lives in polars and pandas): contract `not raises ⇒ frames_equiv(polars result, pandas result)` on the real Polars executor for eager/lazy inputs and both lazy-eval modes, over the enumerated corpus.",
    PYVC_TB + "; frame-library calls under assumed contracts; " + BOUNDED_TB, "contract-based deductive verification of the executors' step glue (VCs from the real AST, z3) + run-time contract on the real function over an enumerated small scope (bounded stand-in) for the semantics", "§5 C03")
add("C06", "proof", "the merge obligation `ext(merged,T) = ext(ops2, ext(ops1,T))` for all assignment maps and tables is discharged by z3 from the real body of try_to_merge_ops (6 paths), with finite-scope refutation + native replay when it fails; the merge DECISION of extend_parsed_ (region contract on the real statements: merged only for equal partition, order list, reverse and windowed-ness); builder forwarding / collapsing obligations (10 builders, every argument through an eliminated order_rows) as listed in the evidence.",
    PYVC_TB + "; ghost semantics: simultaneous-assignment extend, ev(e,T) depends only on cols(e) ∪ window columns (frame axiom)", "contract-based deductive verification: VCs generated from the real AST, discharged by z3/cvc5; counter-models replayed natively", "§5 C06")
add("C08", "other", HYB + "PROVED for all inputs: Pandas and Polars _table_step always narrow/order the input to the declared columns (eager or lazy, extra or permuted input columns), _select_columns_step and _rename_columns_step hand the library exactly the node's arguments; the SQL terms written by select_rows / select_columns / rename / map_columns translations are exactly the requested, renamed or untouched columns (a '*' sub-query stays '*'). BOUNDED: declared columns = returned columns at every node of every enumerated pipeline on Pandas, Polars (both evaluation modes, wide inputs), SQLite.",
    PYVC_TB + "; frame-library calls under assumed contracts; " + BOUNDED_TB, "contract-based deductive verification of the column-shaping glue (VCs from the real AST, z3) + run-time contracts over an enumerated scope", "§5 C08")
add("C18", "other", HYB + "PROVED: SQL ORDER BY/DESC/LIMIT text (limit=0 included) from SQLModel.order_to_near_sql and the arguments the Pandas and Polars order_rows steps hand to sort/head. BOUNDED: permutation / re-indexing invariance and order_rows sortedness+limit checked at run time on the real executors over the enumerated corpus (all permutations of ≤4 rows).",
    PYVC_TB + "; sort_values / sort / head / iloc under assumed library contracts; " + BOUNDED_TB, "contract-based deductive verification of the glue / text-generation obligations (VCs from the real AST, z3) + run-time contracts over an enumerated scope for the engine-dependent part", "§5 C18")
add("C19", "other", HYB + "PROVED: Pandas _table_step returns an owned copy on every path; cdata.RecordMap.transform never hands the caller's frame to anything that may modify it and returns a frame the caller did not supply; no replace_leaves modifies the node it rebuilds (10 classes). BOUNDED: deep snapshots of caller frames (values, dtypes, columns, index) before/after eval/transform/ex/>> on Pandas and Polars over the enumerated corpus; repeatability.",
    PYVC_TB + "; pandas reset_index / loc under assumed library contracts; " + BOUNDED_TB, "contract-based deductive verification of the glue / text-generation obligations (VCs from the real AST, z3) + run-time contracts over an enumerated scope for the engine-dependent part", "§5 C19")
add("C23", "proof", "every ensures clause and both loop invariants of connected_components are discharged by z3 for all edge lists (unbounded): the blocks are an equivalence containing every edge, finer than ANY equivalence containing the edges, each edge is labelled with the least vertex of its block, equal labels ⇔ same block. A bounded run against a BFS reference rides along.",
    PYVC_TB + "; vertices as mathematical integers; 'finest equivalence containing the edges = connected components' is a paper argument", "contract-based deductive verification: loop invariants + ghost equivalence, VCs from the real AST, z3", "§5 C23")
add("C24", "proof", "16 targets of OrderedSet.py (constructor, add, discard, update, copy, len, contains, iter, <=, >=, ordered_union/intersect/diff) proved against the abstraction (member set, injective insertion stamps): 130 obligations incl. loop invariants with the ghost first-occurrence map. Inherited MutableSet mixins and __lt__/__gt__/union are only in the bounded ride-along (all op sequences ≤3/4).",
    PYVC_TB + "; OrderedDict iteration = insertion order; update proved for 0,1,2 iterables", "contract-based deductive verification: representation invariant + loop invariants, VCs from the real AST, z3", "§5 C24")

add("C04", "other", HYB + "PROVED: SQLModel._indent_and_sep_terms lays out exactly one line per term, in order, with indent / comma decoration only, for every option setting; the key under which CTE elimination may share a step's query identifies the node together with its sources (select_rows / project / rename / map_columns / order_rows translations). BOUNDED: every SQL formatting/optimisation option combination (2^4 x 3 indents x extend-merge on/off on SQLite; PostgreSQL text with CTE elimination on the sqlite3 surrogate) must return the same table as the default options, on the enumerated corpus plus DAGs that share a sub-pipeline.",
    PYVC_TB + "; " + BOUNDED_TB + "; PostgreSQL dialect text executed on sqlite3 as a labelled surrogate", "contract-based deductive verification of the term layout routine (VCs from the real AST, z3) + run-time contracts over an enumerated scope for the option combinations", "§5 C04")
add("C05", "other", "bounded: every catalogued (method, backend) pair marked supported (Pandas, SQLite; Polars when it returns) against doc_meaning reference functions written from the Term docstrings, over an operand grid incl. nulls. The 3VL proofs of the SQL formatters are not built yet.",
    BOUNDED_TB + "; PostgreSQL column of the catalogue not executed", "run-time contract over an enumerated operand grid (bounded stand-in); no obligation proved", "§5 C05")
add("C07", "other", HYB + "PROVED for all inputs: every replace_leaves (10 node classes) rebuilds its node from the replaced sources and every stored constructor argument, binding the builders' real signatures; BOUNDED: the four composition routes, associativity (by result) and dom/cod on the real code over enumerated pairs/triples.",
    PYVC_TB + "; " + BOUNDED_TB, "contract-based deductive verification of the rebuild obligations (VCs from the real AST, z3) + run-time contracts over an enumerated scope for the engine-dependent part", "§5 C07")
add("C09", "other", HYB + "PROVED: SQLModel.project_to_near_sql names ALL group keys of the node in GROUP BY (quoted, in order, whatever later steps still use), every group key is a selected term, and there is no GROUP BY exactly without group keys; the builder merges a windowed extend into the previous extend only for the same partition / order / reverse / windowed-ness (region contract on extend_parsed_, counterexamples replayed natively); Pandas _select_rows_step returns a fresh index-free copy. BOUNDED: row counts of project / windowed extend against distinct key tuples of the materialised input (null = a key of its own, empty inputs, outputs overwritten or dropped later) on Pandas, Polars (lazy and eager evaluation), SQLite.",
    PYVC_TB + "; " + BOUNDED_TB, "contract-based deductive verification of the glue / text-generation obligations (VCs from the real AST, z3) + run-time contracts over an enumerated scope for the engine-dependent part", "§5 C09")
add("C10", "proof", "for each of the 13 node classes: need_i(N,U) ⊆ columns_used_from_sources(U)[i] ⊆ columns(source_i) and one entry per source (incl. two accumulation-loop invariants); the recursion step columns_used_implementation_ is proved against the contract of its own recursive calls (records only grow, the node records the request, every source is re-asked with what the node needs given its FULL record). The induction over the DAG and the top-level columns_used() wrapper are a paper argument / bounded (perturb every unreported column in three ways; narrow the descriptions).",
    PYVC_TB + "; need_i is a spec function from the operator documentation; constructor facts as preconditions", "contract-based deductive verification (VCs from the real AST, z3) with a bounded perturbation ride-along", "§5 C10")
add("C11", "proof", "IFF characterisation of all 13 _equiv_nodes, of ViewRepresentation.__eq__ (loop + recursion through its own contract), RecordMap.__eq__, RecordSpecification.__eq__ against the reviewed semantic field sets (41 obligations); TableDescription.__eq__ and constant/order comparisons are recorded findings with native witnesses. Bounded all-pairs search for equal-but-different pipelines rides along.",
    PYVC_TB + "; Term.is_equal decides an equivalence on expressions (its own defects only in the bounded run); F(C) reviewed lists", "contract-based deductive verification (VCs from the real AST, z3) + bounded all-pairs search", "§5 C11")
add("C12", "other", "bounded: all expression trees up to the stated depth in every operator position and every node kind: eval_da_ops(printed) == ops, same printed form, same Pandas result, pickle round trip. Precedence-level proofs of to_python are not built.",
    BOUNDED_TB + "; lark grammar; black", "run-time contract over an enumerated small scope (bounded stand-in); no obligation proved", "§5 C12")
add("C13", "other", "bounded: all expression texts up to the stated operator count: value through the real Pandas executor vs Python's eval, tree shape vs ast.parse, print/parse round trip.",
    BOUNDED_TB + "; lark LALR + vendored grammar", "run-time contract over an enumerated small scope (bounded stand-in); no obligation proved", "§5 C13")
add("C14", "other", HYB + "PROVED: SQLModel.quote_identifier rejects exactly the identifiers that contain the identifier quote and otherwise carries the identifier verbatim between two quotes (strings uninterpreted). BOUNDED: all strings up to the stated length over a special-character alphabet as literal, column, table, concat label, control-table entry and annotation: executed and read back on SQLite (PostgreSQL text on the surrogate), tokenised by a dialect lexer for MySQL / Spark / BigQuery. quote_string's doubling/undoubling lemma needs string induction and is not proved.",
    PYVC_TB + "; " + BOUNDED_TB + "; dialect lexers written from the vendors' lexical documentation", "contract-based deductive verification of quote_identifier (VCs from the real AST, z3) + run-time contracts over an enumerated scope for literals and dialects", "§5 C14")
add("C15", "exploration", "bounded stand-in only: renaming one column/table at a time to every internal name harvested from the current source, over the operator-pair corpus on Pandas, Polars, SQLite.",
    BOUNDED_TB, "run-time contract over an enumerated small scope (bounded stand-in, not proved)", "§5 C15")
add("C16", "other", HYB + "PROVED: the SQLite right-join emulation hands the generic translator a LEFT join with sources AND keys swapped, left_is_first=False, caller's node untouched. BOUNDED: join type x key specification x all small table pairs (null and duplicate keys) on Pandas, Polars, SQLiteModel (emulated right/full) and native RIGHT/FULL text, against a reference join and a hand-written native SQL join. The key-swap obligation of the SQLite right-join emulation is not built as a proof (the defect itself was fixed).",
    PYVC_TB + "; " + BOUNDED_TB, "contract-based deductive verification of the glue / text-generation obligations (VCs from the real AST, z3) + run-time contracts over an enumerated scope for the engine-dependent part", "§5 C16")
add("C17", "other", HYB + "PROVED: RecordMap.__init__ (normalisation of row-record specifications, at least one side, columns_needed / columns_produced, writes only the new object), RecordMap.inverse (swaps the sides: needs what this map produces and produces what it needs), map_to_rows / map_from_rows, and the order of the two conversions in RecordMap.transform. BOUNDED: inverse / compose / >> laws and Pandas≡Polars for all small strict control tables and conforming data tables (the conversion routines themselves are not under contract).",
    PYVC_TB + "; " + BOUNDED_TB, "contract-based deductive verification of the record-map constructor / inverse / transform glue (VCs from the real AST, z3) + run-time contracts over an enumerated scope for the conversions", "§5 C17")
add("C20", "proof", "13 public methods of DataModelSpace and DBSpace proved against the keyed-store abstraction with postconditions over the WHOLE view, also on raising paths (96 obligations); DBSpace.execute onto an existing key is a recorded finding (region split: the residual obligation is discharged). All histories up to length 3/4 on both real spaces ride along.",
    PYVC_TB + "; database handle under ASSUMED keyed-store contracts; eval / CREATE TABLE AS as functions of the store contents", "contract-based deductive verification (whole-view postconditions, VCs from the real AST, z3) + bounded histories", "§5 C20")
add("C21", "exploration", "bounded stand-in only: rank_to_average, last_observed_carried_forward, replicate_rows_query, def_multi_column_map against independent reference computations on all small tables, Pandas and SQLite.",
    BOUNDED_TB, "run-time contract over an enumerated small scope (bounded stand-in, not proved)", "§5 C21")
add("C27", "other", HYB + "PROVED (region contracts on the real SQLModel.extend_to_near_sql and extend_parsed_): the OVER clause lists ALL partition columns and ALL order columns in the declared order with DESC exactly on the reversed ones and is absent exactly for row-wise extends; every computed term is sql(expression)+clause and declares the window columns as dependencies; two extends are merged only when partition, order list, reverse and windowed-ness coincide. BOUNDED: each window function x partition/order/reverse specification x all small tables with total orders against a reference window evaluator, and consecutive extends with permuted order priority; backends per the live catalogue, Polars when it returns. The Pandas / Polars window code is not under contract.",
    PYVC_TB + "; string + and join uninterpreted; " + BOUNDED_TB, "contract-based deductive verification of the glue / text-generation obligations (VCs from the real AST, z3) + run-time contracts over an enumerated scope for the engine-dependent part", "§5 C27")

add("C22", "other", HYB + "PROVED (two loop invariants): check_args raises TypeError exactly when the switch is on, specifications are declared and a declared argument is missing or violates its specification (positional matched by parameter name, keyword by name); check_return exactly when the return value violates the return specification; `_check_spec` abstracted as None iff conforms(spec, value). BOUNDED: all specifications of depth <= 2 x argument/return values (scalars, pandas and polars frames with right/wrong/missing/extra/null columns): raises TypeError <=> the oracle conforms() says violated; switch off => never raises; result returned unchanged.",
    PYVC_TB + "; " + BOUNDED_TB, "contract-based deductive verification of check_args / check_return (loop invariants, VCs from the real AST, z3) + run-time contracts over an enumerated scope for the conformance test and the decorator wiring", "§5 C22")
add("C25", "other", HYB + "PROVED for all inputs: ResultCache.get hits only for a stored key, returns a new object equal to the stored result and changes nothing; ResultCache.store leaves an equal result alone, else stores a private copy under exactly that key (frames as heap objects, so aliasing is visible); BOUNDED: make_cache_key / hash_data_frame separation of tables differing in a value, column name, shape or row order, and store/get histories.",
    PYVC_TB + "; make_cache_key assumed a function of (model, sql, names and contents); pandas copy/equals contracts; " + BOUNDED_TB, "contract-based deductive verification of get/store (VCs from the real AST, z3) + run-time contracts over an enumerated scope for the hashing", "§5 C25")
add("C26", "other", HYB + "PROVED for all inputs: the 10 builders forward every argument (join-key check flag included) through an eliminated order_rows and to the constructors, select_columns validates against its own step also when collapsing; BOUNDED: the constructors' rule checks on every enumerated prefix x violating/conforming step per rule, and no accepted pipeline raises a rule error at evaluation.",
    PYVC_TB + "; constructors' rule checks not under contract; " + BOUNDED_TB, "contract-based deductive verification of the forwarding obligations (VCs from the real AST, z3) + run-time contracts over an enumerated scope for the rule checks", "§5 C26")

PROOF_PROPS = {"C01", "C03", "C04", "C06", "C07", "C08", "C09", "C10", "C11", "C14", "C16", "C17", "C18", "C19", "C20", "C22", "C23", "C24", "C25", "C26", "C27"}  # properties with discharged obligations
NA = [("C02", "no PostgreSQL server or formal PostgreSQL semantics in the sandbox: no contract within reach can be discharged or even checked boundedly; dialect text paths are exercised under C04/C16 on SQLite as a labelled surrogate, which does not decide C02")]

def main():
    props = [json.loads(l)["id"] for l in open("properties.jsonl")]
    checks = []
    for pid in props:
        if pid not in P or not os.path.exists("props/%s.py" % pid):
            continue
        m = P[pid]
        checks.append({
            "property_id": pid,
            "quick_cmd": "./check %s --tier quick" % pid,
            "thorough_cmd": "./check %s --tier thorough" % pid,
            "evidence_file": "evidence/%s.json" % pid,
            "replay_cmd_template": "./check %s --replay {path}" % pid,
            "engine": "pyvc+cbc" if pid in PROOF_PROPS else "cbc",
            "level_claimed": {"category": m["cat"], "text": m["text"], "design_ref": m["design"]},
            "level_note": m["note"],
            "technique": m["technique"],
        })
    claimed = {c["property_id"] for c in checks}
    na = [{"property_id": p, "reason": r} for p, r in NA]
    for pid in props:
        if pid not in claimed and pid not in dict(NA):
            na.append({"property_id": pid, "reason": "check not built yet in this round (work in progress; see DESIGN.md §5 for the plan)"})
    man = {
        "version": 1,
        "setup_cmd": "./setup.sh",
        "hooks": {"guard": "DATA_ALGEBRA_VERIF", "enable": "no source hooks in /repo: contracts are sidecars under /verif/contracts, attached in-process by the checks (./check exports DATA_ALGEBRA_VERIF=1); /repo only carries unguarded `fix:` commits",
                  "baseline_off_cmd": BASE, "source_commits": [], "add_only": True},
        "engines": [
            {"name": "pyvc", "path": "pyvc/", "serves_properties": sorted(p for p in claimed if p in PROOF_PROPS), "kind_free_text": "verification-condition generator over the real /repo AST (symbolic executor, sidecar contracts, loop invariants), z3 + cvc5, finite-scope refutation with native replay"},
            {"name": "cbc", "path": "cbc/", "serves_properties": sorted(claimed), "kind_free_text": "contracts checked at run time on the real functions over exhaustively enumerated small scopes (bounded stand-in, never counted as proved)"},
        ],
        "checks": checks,
        "not_applicable": na,
        "notes": "exit 0 held (KNOWN-FINDING lines allowed), 1 VIOLATION, 2 UNDECIDED (obligations discharged on the pinned tree can no longer be generated: body left the translatable subset or wall limit; no VIOLATION line), 3 checker error. known_findings.json lists genuine defects of the pinned tree; obligations.lock.json lists obligations discharged on it.",
    }
    json.dump(man, open("MANIFEST.json", "w"), indent=1)
    import jsonschema
    jsonschema.validate(man, json.load(open("/root/.vp/MANIFEST.schema.json")))
    print("MANIFEST ok:", len(checks), "checks;", len(na), "not applicable")

main()
