#!/bin/bash
# maintenance: confirm one seeded change and run our check against it.
# usage: tools_seeded.sh <dir with patch.diff demo.py meta.json> <property id> <seeded id> [suite]
# writes /verif/seeded/<seeded id>/{patch.diff,demo.py,meta.json,result.txt}
set -u
SRC=$(readlink -f "$1"); P=$2; ID=$3; SUITE=${4:-}
cd /verif
OUT=/verif/seeded/$ID; mkdir -p $OUT
cp $SRC/patch.diff $OUT/patch.diff; cp $SRC/demo.py $OUT/demo.py; cp $SRC/meta.json $OUT/meta.src.json 2>/dev/null
SCR=$(mktemp -d /tmp/verif-seeded-XXXXXX); trap 'rm -rf "$SCR"' EXIT
rsync -a --exclude .git --exclude build --exclude dist --exclude docs --exclude Examples --exclude '*.egg-info' /repo/ "$SCR/repo/"
R=$OUT/result.txt; : > $R
( cd $SCR/repo && PYTHONPATH=$SCR/repo timeout 600 /venv/bin/python $OUT/demo.py > $SCR/demo0.log 2>&1 ); echo "demo_pristine_exit=$?" >> $R
( cd $SCR/repo && patch -p1 --quiet < $OUT/patch.diff ) || { echo "patch_applies=no" >> $R; cat $R; exit 0; }
echo "patch_applies=yes" >> $R
( cd $SCR/repo && PYTHONPATH=$SCR/repo timeout 600 /venv/bin/python $OUT/demo.py > $SCR/demo1.log 2>&1 ); echo "demo_patched_exit=$?" >> $R
tail -3 $SCR/demo1.log | cut -c1-300 | sed 's/^/demo_patched_output: /' >> $R
s=$(date +%s)
out=$(VERIF_EVIDENCE_DIR=$SCR/ev VERIF_REPLAY_DIR=$SCR/rp VERIF_REPO=$SCR/repo PYTHONPATH=$SCR/repo ./check $P --tier quick 2>&1); code=$?
echo "check=$P check_exit=$code check_seconds=$(( $(date +%s) - s ))" >> $R
echo "$out" | grep -E "^VIOLATION|^CHECKER" | head -6 | cut -c1-300 >> $R
echo "$out" | grep -E "^  what:" | head -3 | cut -c1-400 >> $R
if [ -n "$SUITE" ]; then
  ( cd $SCR/repo && env -u DATA_ALGEBRA_VERIF PYTHONPATH=$SCR/repo /venv/bin/python -m pytest -q -p no:cacheprovider --timeout=900 --continue-on-collection-errors --junitxml=$SCR/j.xml > $SCR/suite.log 2>&1 )
  /venv/bin/python - $SCR/j.xml >> $R <<'PY'
import json, sys, xml.etree.ElementTree as ET
base=set(json.load(open('/root/.vp/BASELINE.json'))['stable_pass'])
passed=set()
for tc in ET.parse(sys.argv[1]).getroot().iter('testcase'):
    if not any(ch.tag in ('failure','error','skipped') for ch in tc):
        passed.add(tc.get('classname')+'::'+tc.get('name'))
print('suite_baseline_missing=%d %s' % (len(base-passed), sorted(base-passed)[:5]))
PY
fi
cat $R
