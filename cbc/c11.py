"""C11 bounded ride-along: search for pipelines that compare equal but behave differently.

Contract on the real ViewRepresentation.__eq__:  a == b  =>  same SQL text in every dialect and same Pandas result;
a == a; (a == b) == (b == a).  Scope: a hand-enumerated family of pipelines in which every operator appears with every
argument varied one at a time (record maps, join types/keys, orderings, limits, expressions, constants of different type),
all ordered pairs.  bounded: ~150 pipelines, all pairs.
"""
import itertools
from vlib.core import Report, Violation


def family():
    """-> list of (label, builder) ; builder() returns a pipeline"""
    import data_algebra
    import data_algebra.cdata as cd
    import pandas
    from data_algebra.data_ops import TableDescription

    def d(cols=("g", "k", "x", "y"), name="d"):
        return TableDescription(table_name=name, column_names=list(cols))

    def e():
        return TableDescription(table_name="e", column_names=["k", "z"])

    fam = []
    add = lambda label, fn: fam.append((label, fn))
    add("d", lambda: d())
    add("d[gkx]", lambda: d(("g", "k", "x")))
    add("d2", lambda: d(name="d2"))
    for ex in ("x + 1", "x + 1.0", "x + True", "x + 2", "x - 1", "1 + x", "x * y", "x.maximum(y)", "x.minimum(y)", "(x > 1).if_else(x, y)", "(x > 1).if_else(y, x)",
               "x.is_null()", "x.coalesce(0)", "x.coalesce(1)", "x.is_in([1, 2])", "x.is_in([2, 1])", "x.is_in([1.0, 2])", "x.is_in([1])", "x.is_in([1, 2, 3])", "x.is_in([1, 2, 2])", "x.mapv({1: 2, 2: 3}, 0)", "x.mapv({1: 2}, 1)", "x.mapv({2: 2}, 0)",
               "x.round()", "x.floor()", "x + y", "y + x", "x + y + 1", "(x + y) * 2", "x + y * 2", "-x", "x.sign()", "g.is_in(['a'])", "g.is_in(['a', 'b'])", "g.is_in(['b', 'a'])", "g == 'a'", "g == 'b'", "x.mapv({1: 2}, 0)", "x.mapv({1: 3}, 0)", "'a'", "'b'", "1", "True", "1.0"):
        add("extend n=%s" % ex, lambda ex=ex: d().extend({"n": ex}))
    add("extend a,b", lambda: d().extend({"a": "x + 1", "b": "y + 1"}))
    add("extend b,a", lambda: d().extend({"b": "y + 1", "a": "x + 1"}))
    add("extend x,y swap order 1", lambda: d().extend({"x": "k + 1", "y": "k + 2"}))
    add("extend x,y swap order 2", lambda: d().extend({"y": "k + 2", "x": "k + 1"}))
    for fn in ("sum", "mean", "min", "max", "count"):
        add("project %s" % fn, lambda fn=fn: d().project({"s": "x.%s()" % fn}, group_by=["g"]))
        add("wextend %s" % fn, lambda fn=fn: d().extend({"s": "x.%s()" % fn}, partition_by=["g"]))
    add("project sum by k", lambda: d().project({"s": "x.sum()"}, group_by=["k"]))
    add("project sum by g,k", lambda: d().project({"s": "x.sum()"}, group_by=["g", "k"]))
    add("project sum by k,g", lambda: d().project({"s": "x.sum()"}, group_by=["k", "g"]))
    add("project sum none", lambda: d().project({"s": "x.sum()"}))
    add("project sum y", lambda: d().project({"s": "y.sum()"}, group_by=["g"]))
    for (pb, ob, rev) in ((["g"], ["x"], []), (["g"], ["x"], ["x"]), (["g"], ["y"], []), (["k"], ["x"], []), (["g"], ["x", "y"], []), (["g"], ["y", "x"], []), (["g"], ["x", "y"], ["y"]), (1, ["x"], [])):
        add("cumsum pb=%s ob=%s rev=%s" % (pb, ob, rev), lambda pb=pb, ob=ob, rev=rev: d().extend({"c": "y.cumsum()"}, partition_by=pb, order_by=ob, reverse=rev))
    for ex in ("x > 1", "x > 2", "x >= 1", "(x > 1) and (y > 1)", "(x > 1) or (y > 1)", "x == 1", "x == 1.0", "x == True"):
        add("select_rows %s" % ex, lambda ex=ex: d().select_rows(ex))
    for cols in (["x"], ["x", "y"], ["y", "x"], ["g", "x"]):
        add("select_columns %s" % cols, lambda cols=cols: d().select_columns(cols))
        add("drop_columns %s" % cols, lambda cols=cols: d().drop_columns(cols))
    for (cols, rev, lim) in ((["x"], None, None), (["y"], None, None), (["x", "y"], None, None), (["y", "x"], None, None), (["x"], ["x"], None), (["x", "y"], ["y"], None), (["x"], None, 1), (["x"], None, 2), (["x"], ["x"], 2), (["x"], None, 0), ([], None, 2), ([], None, 0)):
        add("order_rows %s rev=%s lim=%s" % (cols, rev, lim), lambda cols=cols, rev=rev, lim=lim: d().order_rows(cols, reverse=rev, limit=lim))
    for m in ({"x": "a"}, {"x": "b"}, {"y": "a"}, {"x": "a", "y": "b"}, {"x": "a", "y": None}, {"x": "a", "g": None}):
        add("map_columns %s" % m, lambda m=m: d().map_columns(m))
    for m in ({"a": "x"}, {"b": "x"}, {"a": "y"}, {"a": "x", "b": "y"}):
        add("rename_columns %s" % m, lambda m=m: d().rename_columns(m))
    for jt in ("inner", "left", "right", "full"):
        add("join %s on k" % jt, lambda jt=jt: d().natural_join(b=e(), on=["k"], jointype=jt))
    add("join inner on k (by)", lambda: d().natural_join(b=e(), by=["k"], jointype="inner"))
    add("join cross", lambda: d(("g", "x")).natural_join(b=e(), on=[], jointype="cross"))
    add("join inner k=k2", lambda: d().natural_join(b=TableDescription(table_name="h", column_names=["k2", "z"]), on=[("k", "k2")], jointype="inner"))
    add("join left k=k2", lambda: d().natural_join(b=TableDescription(table_name="h", column_names=["k2", "z"]), on=[("k", "k2")], jointype="left"))
    for (idc, an, bn) in (("src", "a", "b"), ("src", "a", "c"), ("src", "c", "b"), ("src2", "a", "b"), (None, "a", "b")):
        add("concat id=%s %s/%s" % (idc, an, bn), lambda idc=idc, an=an, bn=bn: d().concat_rows(b=d(name="f"), id_column=idc, a_name=an, b_name=bn))
    def rm(kind, vals=("x", "y"), names=("a", "b"), keycol="nk", valcol="nv"):
        ct = pandas.DataFrame({keycol: list(names), valcol: list(vals)})
        spec = cd.RecordSpecification(ct, record_keys=["k"], control_table_keys=[keycol])
        return spec.map_from_rows() if kind == "unpivot" else spec.map_to_rows()
    add("unpivot x,y", lambda: d(("k", "x", "y")).convert_records(rm("unpivot")))
    add("unpivot y,x", lambda: d(("k", "x", "y")).convert_records(rm("unpivot", vals=("y", "x"))))
    add("unpivot names c,d", lambda: d(("k", "x", "y")).convert_records(rm("unpivot", names=("c", "dd"))))
    add("unpivot valcol nw", lambda: d(("k", "x", "y")).convert_records(rm("unpivot", valcol="nw")))
    add("pivot x,y", lambda: TableDescription(table_name="b", column_names=["k", "nk", "nv"]).convert_records(rm("pivot")))
    add("pivot y,x", lambda: TableDescription(table_name="b", column_names=["k", "nk", "nv"]).convert_records(rm("pivot", vals=("y", "x"))))
    add("pivot names", lambda: TableDescription(table_name="b", column_names=["k", "nk", "nv"]).convert_records(rm("pivot", names=("c", "dd"))))
    return fam


def data():
    import pandas
    return {
        "d": pandas.DataFrame({"g": ["a", "a", "b"], "k": [1, 2, 1], "x": [1.0, 2.0, 3.0], "y": [2.0, 1.0, 5.0]}),
        "d2": pandas.DataFrame({"g": ["a", "a", "b"], "k": [1, 2, 1], "x": [1.0, 2.0, 3.0], "y": [2.0, 1.0, 5.0]}),
        "f": pandas.DataFrame({"g": ["c"], "k": [3], "x": [7.0], "y": [8.0]}),
        "e": pandas.DataFrame({"k": [1, 3], "z": [10.0, 30.0]}),
        "h": pandas.DataFrame({"k2": [1, 3], "z": [10.0, 30.0]}),
        "b": pandas.DataFrame({"k": [1, 1, 2, 2], "nk": ["a", "b", "a", "b"], "nv": [1.0, 2.0, 3.0, 4.0]}),
    }


def behaviour(ops):
    """SQL text in five dialects + Pandas result (canonical rows), or the exception text."""
    import data_algebra.SQLite, data_algebra.PostgreSQL, data_algebra.MySQL, data_algebra.SparkSQL, data_algebra.BigQuery
    from cbc import common as C
    out = {}
    for name, mk in (("SQLite", data_algebra.SQLite.SQLiteModel), ("PostgreSQL", data_algebra.PostgreSQL.PostgreSQLModel), ("MySQL", data_algebra.MySQL.MySQLModel),
                     ("Spark", data_algebra.SparkSQL.SparkSQLModel), ("BigQuery", data_algebra.BigQuery.BigQueryModel)):
        try:
            out["sql:" + name] = ops.to_sql(mk())
        except Exception as ex:
            out["sql:" + name] = "raises " + type(ex).__name__
    dm = data()
    try:
        tabs = {k: dm[k] for k in ops.get_tables().keys()}
        cols, rows = C.canon_rows(ops.eval(tabs))
        out["pandas"] = (tuple(cols), tuple(sorted(map(repr, rows))))
    except Exception as ex:
        out["pandas"] = "raises " + type(ex).__name__
    return out


def classify(la, lb, diffs):
    if la.startswith("d") and lb.startswith("d") and "[" in la + lb and "extend" not in la + lb:
        return "C11:view_representations.TableDescription.__eq__:same-name-different-columns"
    both = la + " | " + lb
    if any(t in both for t in ("1.0", "True")) and any(la.startswith(p) and lb.startswith(p) for p in ("extend n=", "select_rows ")):
        return "C11:expr_rep.Value.is_equal:constants-of-different-type-compare-equal"
    if la.startswith("extend") and lb.startswith("extend") and ("a,b" in both and "b,a" in both or "swap order" in both):
        return "C11:view_representations.ExtendNode._equiv_nodes:assignment-order-not-compared"
    return None


def bounded(rep: Report, tier: str, seed: int) -> None:
    import hashlib
    fam = family()
    built = []
    for label, fn in fam:
        try:
            built.append((label, fn(), None))
        except Exception as ex:
            rep.errors.append("harness: could not build %s: %r" % (label, ex))
    beh = {}
    for label, ops, _ in built:
        beh[label] = behaviour(ops)
    for (la, a, _), (lb, b, _) in itertools.product(built, repeat=2):
        try:
            eq_ab = bool(a == b)
            eq_ba = bool(b == a)
        except Exception as ex:
            rep.violations.append(Violation(key="C11:unclassified:eq-raises", what="%s == %s raised %r" % (la, lb, ex), replay={"module": "cbc.c11", "case": {"a": la, "b": lb}}))
            continue
        rep.case((la, lb), nontrivial=la != lb)
        problems = []
        if la == lb and not eq_ab:
            problems.append("not reflexive")
        if eq_ab != eq_ba:
            problems.append("not symmetric (a==b is %s, b==a is %s)" % (eq_ab, eq_ba))
        if eq_ab and la != lb:
            diffs = [k for k in beh[la] if beh[la][k] != beh[lb][k]]
            if diffs:
                problems.append("compare equal but differ in %s" % diffs)
        if problems:
            key = classify(la, lb, problems) or "C11:unclassified:%s" % hashlib.sha1((la + "|" + lb).encode()).hexdigest()[:8]
            rep.violations.append(Violation(key=key, what="[%s] vs [%s]: %s" % (la, lb, "; ".join(problems)), replay={"module": "cbc.c11", "case": {"a": la, "b": lb}}))
    rep.add_sample({"a": fam[5][0], "b": fam[6][0]})
    rep.add_sample({"a": "unpivot x,y", "b": "unpivot y,x"})
    rep.extra["pipelines_in_family"] = len(built)
    rep.exhaustive = True


def replay_case(case) -> bool:
    fam = dict(family())
    a, b = fam[case["a"]](), fam[case["b"]]()
    ba, bb = behaviour(a), behaviour(b)
    diffs = [k for k in ba if ba[k] != bb[k]]
    print("a == b:", a == b, " b == a:", b == a, " behaviours differ in:", diffs)
    return bool((a == b) and diffs) or (a == b) != (b == a)


def witness_table_eq():
    from data_algebra.data_ops import TableDescription
    a = TableDescription(table_name="d", column_names=["x"])
    b = TableDescription(table_name="d", column_names=["x", "y"])
    fails = bool(a == b) and a.to_sql() != b.to_sql()
    return {"fails": fails, "observed": "TableDescription('d',['x']) == TableDescription('d',['x','y']) is %s; SQL differs: %s" % (a == b, a.to_sql() != b.to_sql())}
