"""C25 bounded check: the evaluation result cache (data_algebra.eval_cache) is transparent.

Three groups of cases, all run on the real hash_data_frame / make_cache_key / ResultCache:

pair      all frames with <= 2 rows x <= 2 columns over small per-type domains, each paired with every frame that differs
          from it in exactly one value / one column name / its shape (a row or a column more or less) / its column order /
          its row order / the dtype of one column with equal values, and with a rebuilt equal frame (same content, other
          object).  Expected: equal tables -> equal keys; tables differing in a value / name / shape / order -> different keys.
datamap   key construction over whole data maps: independent of the dict insertion order; differs for another table
          name, swapped frames, an extra table, another dialect, another SQL text; equal for a second model instance of
          the same dialect.
history   all store/get histories up to a length bound over 2 keys x 2 results against a dict model, with mutation of
          returned copies and of the caller's frames (stored result and data-map frame) after store(); after every
          step the whole view (both keys) must equal the model.

"Equal data tables" (keys must be equal) is pandas a.equals(b).  "Differ" (keys must differ) is the property's list: a
value, a column name, the shape or the row order (`same_values` is False).  Two tables that hold pairwise ==-equal values
under different column dtypes (int64 [1, 0] vs bool [True, False], 0 vs 0.0, str vs object, empty columns) differ in
none of these: nothing is demanded of their keys; those that share a key are counted as information only.
"""
from __future__ import annotations

import hashlib
import itertools
import json
import os
import warnings
import zlib
from typing import Any, Dict, Iterator, List, Optional, Tuple

from vlib.core import Report, Violation

warnings.filterwarnings("ignore")

MAX_UNCLASSIFIED_WITNESSES = 40  # replay files written for unclassified failures per run (all failures are counted in the evidence)

MAX_WORKERS = 4

FUNCTIONS_UNDER_CONTRACT = [
    {"function": "data_algebra.eval_cache.hash_data_frame", "contract": "a.equals(b) => same hash; tables differing in a value / column name / shape / row order => different hash (dtype-only differences: no demand)"},
    {"function": "data_algebra.eval_cache.make_cache_key", "contract": "same dialect name, SQL text, table names and equal tables => equal key; any of these differing (tables: value / column name / shape / row order) => different key; independent of dict order"},
    {"function": "data_algebra.eval_cache.ResultCache.store / get", "contract": "histories agree with a dict model; get returns an equal copy; mutating returned copies or the caller's frames never changes the cache"},
]

NAN = "__nan__"

# ---------------------------------------------------------------------------------------------------------------
# frames as plain data
# ---------------------------------------------------------------------------------------------------------------

#: kind -> (pandas dtype, domain)
KINDS: Dict[str, Tuple[str, List[Any]]] = {
    "int": ("int64", [0, 1, 2]),
    "float": ("float64", [0.0, 0.5, NAN]),
    "str": ("str", ["a", "b", None]),
    "bool": ("bool", [False, True]),
    "obj": ("object", [1, "1", "a"]),  # an object column holding Python values of mixed type
}

#: dtype-with-equal-values partners: dtype -> dtypes the same Python values can be stored in
RECAST: Dict[str, List[str]] = {
    "int64": ["int32", "uint64", "Int64", "float64", "bool", "object"],
    "float64": ["float32", "object"],
    "str": ["object"],
    "bool": ["int64", "object"],
    "object": [],
}


def _cell(v: Any) -> Any:
    return float("nan") if v == NAN else v


def build_frame(desc: Dict[str, Any]):
    """{"n": rows, "cols": [[name, dtype, values], ...], "index": optional list} -> pandas frame (always a fresh object)."""
    import pandas

    idx = desc.get("index")
    index = pandas.Index(idx) if idx is not None else pandas.RangeIndex(desc["n"])
    data = {}
    names = []
    for name, dtype, vals in desc["cols"]:
        data[len(names)] = pandas.Series([_cell(v) for v in vals], dtype=dtype, index=index)
        names.append(name)
    fr = pandas.DataFrame(data, index=index)
    fr.columns = names
    return fr


def fdesc(n: int, cols: List[List[Any]]) -> Dict[str, Any]:
    return {"n": n, "cols": [[c[0], c[1], list(c[2])] for c in cols]}


def base_frames(tier: str) -> Iterator[Dict[str, Any]]:
    """every frame with 0..2 rows and 1..2 columns ('x', 'y') whose columns range over the KINDS domains.
    quick: in two-column two-row frames the second column is restricted to the int kind."""
    kinds = list(KINDS)
    for n in (0, 1, 2):
        for k1 in kinds:
            dt1, dom1 = KINDS[k1]
            for v1 in itertools.product(dom1, repeat=n):
                yield fdesc(n, [["x", dt1, v1]])
                for k2 in kinds:
                    if tier == "quick" and n == 2 and k2 != "int":
                        continue
                    dt2, dom2 = KINDS[k2]
                    for v2 in itertools.product(dom2, repeat=n):
                        yield fdesc(n, [["x", dt1, v1], ["y", dt2, v2]])


def _kind_of(dtype: str) -> str:
    for k, (dt, _) in KINDS.items():
        if dt == dtype:
            return k
    raise KeyError(dtype)


def _castable(vals: List[Any], to: str) -> bool:
    """can exactly these Python values be stored as dtype `to` with equal values?"""
    if to == "bool":
        return all(v in (0, 1) for v in vals)
    if to in ("float32",):
        return all(v == NAN or float(v) == 0.5 or float(v) == 0.0 for v in vals)
    return True


def neighbours(a: Dict[str, Any]) -> Iterator[Tuple[str, Dict[str, Any]]]:
    """(relation, frame) for every frame that differs from `a` in exactly one respect, plus the rebuilt equal frame."""
    n, cols = a["n"], a["cols"]
    yield "rebuilt-equal", fdesc(n, cols)
    # exactly one value
    for j, (name, dtype, vals) in enumerate(cols):
        dom = KINDS[_kind_of(dtype)][1]
        for i in range(n):
            for w in dom:
                if w == vals[i]:
                    continue
                nv = list(vals)
                nv[i] = w
                yield "one-value", fdesc(n, cols[:j] + [[name, dtype, nv]] + cols[j + 1 :])
    # exactly one column name
    for j, (name, dtype, vals) in enumerate(cols):
        yield "one-column-name", fdesc(n, cols[:j] + [["z", dtype, vals]] + cols[j + 1 :])
    # shape: a row less / a (duplicated last) row more / a column less / a column more
    if n >= 1:
        yield "shape", fdesc(n - 1, [[c[0], c[1], c[2][:-1]] for c in cols])
        yield "shape", fdesc(n + 1, [[c[0], c[1], list(c[2]) + [c[2][-1]]] for c in cols])
    else:
        yield "shape", fdesc(1, [[c[0], c[1], [KINDS[_kind_of(c[1])][1][0]]] for c in cols])
    if len(cols) == 2:
        yield "shape", fdesc(n, cols[:1])
        yield "shape", fdesc(n, cols[1:])
    else:
        yield "shape", fdesc(n, cols + [["y", cols[0][1], cols[0][2]]])
    # column order
    if len(cols) == 2:
        yield "column-order", fdesc(n, [cols[1], cols[0]])
    # row order
    if n == 2:
        yield "row-order", fdesc(n, [[c[0], c[1], list(reversed(c[2]))] for c in cols])
    # dtype of one column, equal values
    for j, (name, dtype, vals) in enumerate(cols):
        for to in RECAST[dtype]:
            if to in ("int32", "uint64", "Int64", "float64", "bool", "float32") and any(v is None for v in vals):
                continue
            if not _castable(list(vals), to):
                continue
            yield "dtype-equal-values", fdesc(n, cols[:j] + [[name, to, vals]] + cols[j + 1 :])


# ---------------------------------------------------------------------------------------------------------------
# pair cases
# ---------------------------------------------------------------------------------------------------------------

_MODELS: Dict[str, Any] = {}


def model(name: str, fresh: bool = False):
    import data_algebra.SQLite
    import data_algebra.PostgreSQL

    if fresh or name not in _MODELS:
        m = data_algebra.SQLite.SQLiteModel() if name == "sqlite" else data_algebra.PostgreSQL.PostgreSQLModel()
        if fresh:
            return m
        _MODELS[name] = m
    return _MODELS[name]


_A_MEMO: Dict[str, Any] = {}


def _frame_and_key(fd: Dict[str, Any], memo: bool = False):
    """(frame, hash_data_frame(frame), make_cache_key(...{'d': frame})) -- the base frame of consecutive cases is memoised"""
    import data_algebra.eval_cache as ec

    k = json.dumps(fd) if memo else None
    if memo and _A_MEMO.get("k") == k:
        return _A_MEMO["v"]
    fr = build_frame(fd)
    key = ec.make_cache_key(db_model=model("sqlite"), sql="SELECT 1", data_map={"d": fr})
    h = ec.hash_data_frame(fr) if memo else key.dat_map_list[0][1]  # the key carries hash_data_frame's string; call it directly for the base frames
    v = (fr, h, key)
    if memo:
        _A_MEMO["k"], _A_MEMO["v"] = k, v
    return v


def _null(v: Any) -> bool:
    import pandas

    return v is None or v is pandas.NA or v is pandas.NaT or (isinstance(v, float) and v != v)


def same_values(fa, fb) -> bool:
    """do the two tables hold the same values in the property's sense?  same shape, same column names in the same order,
    same row labels, and every pair of cells is == (null matches null).  The column dtypes are NOT compared: int64 [1, 0] and
    bool [True, False], 0 and 0.0, 'a' stored as str or as object, and empty columns of any dtype hold the same values."""
    if fa.shape != fb.shape or list(fa.columns) != list(fb.columns) or list(fa.index) != list(fb.index):
        return False
    for j in range(fa.shape[1]):
        for x, y in zip(fa.iloc[:, j].tolist(), fb.iloc[:, j].tolist()):
            if _null(x) or _null(y):
                if not (_null(x) and _null(y)):
                    return False
            elif not bool(x == y):
                return False
    return True


def run_pair(case: Dict[str, Any]) -> Tuple[Optional[str], Dict[str, Any]]:
    """Oracle (property statement: data maps that differ in any value, column name, shape or row order never share a key; a
    lookup succeeds for equal data tables):
      a.equals(b)                      -> the keys must be equal
      not same_values(a, b)            -> the keys must differ
      same values, only a dtype differs -> nothing is demanded (the statement does not list the dtype); pairs of this kind
                                          that share a key are counted as information (obs['dtype_only_shares_key'])"""
    fa, ha, ka = _frame_and_key(case["a"], memo=True)
    fb, hb, kb = _frame_and_key(case["b"])
    equal = bool(fa.equals(fb)) and [str(c) for c in fa.columns] == [str(c) for c in fb.columns]
    same = equal or same_values(fa, fb)
    obs = {"frames_equal": equal, "same_values": same, "hash_equal": ha == hb, "key_equal": ka == kb, "hash_a": ha[:60], "hash_b": hb[:60]}
    obs["dtype_only_shares_key"] = bool(same and not equal and ka == kb)
    if (ha == hb) != (ka == kb):
        return "hash_data_frame and make_cache_key disagree on this pair (hash equal %r, key equal %r)" % (ha == hb, ka == kb), obs
    if case["relation"] == "rebuilt-equal" and not equal:
        raise RuntimeError("harness: rebuilt frame is not .equals its original: %r" % (case["a"],))
    if equal and ka != kb:
        return "equal data tables (a.equals(b)) get different keys", obs
    if (not same) and ka == kb:
        return "data tables that differ in a value / column name / shape / row order (%s) share a key" % case["relation"], obs
    return None, obs


def classify_pair(case: Dict[str, Any], obs: Dict[str, Any]) -> str:
    """narrow classifier for the recorded key collision (a property of pandas.util.hash_pandas_object that hash_data_frame
    does not compensate for)."""
    a, b = case["a"], case["b"]
    if (not obs["same_values"]) and obs["key_equal"] and a["n"] == b["n"] and len(a["cols"]) == len(b["cols"]):
        if all(ca[0] == cb[0] and ca[1] == cb[1] for ca, cb in zip(a["cols"], b["cols"])):
            diff_vals = [(ca, cb) for ca, cb in zip(a["cols"], b["cols"]) if ca[2] != cb[2]]
            cells = [(ca[1], x, y) for ca, cb in diff_vals for x, y in zip(ca[2], cb[2]) if x != y]
            if cells and all(dt == "object" and type(x) is not type(y) and str(x) == str(y) for dt, x, y in cells):
                # object column holding a non-string value: pandas falls back to hashing str(value), so 1 and '1' collide
                return "C25:hash_data_frame:object-column-value-hashed-as-str"
    return "C25:unclassified:" + case_hash(case)


# ---------------------------------------------------------------------------------------------------------------
# data-map cases
# ---------------------------------------------------------------------------------------------------------------

F1 = fdesc(2, [["x", "int64", [1, 2]], ["y", "str", ["a", "b"]]])
F2 = fdesc(2, [["x", "int64", [1, 3]], ["y", "str", ["a", "b"]]])
F3 = fdesc(1, [["k", "float64", [0.5]]])


def datamap_cases() -> List[Dict[str, Any]]:
    def side(dialect, sql, tables, fresh=False):
        return {"dialect": dialect, "sql": sql, "map": tables, "fresh_model": fresh}

    base = side("sqlite", "SELECT * FROM d", [["d", F1], ["e", F3]])
    out = []

    def add(name, b, expect):
        out.append({"kind": "datamap", "name": name, "a": base, "b": b, "expect": expect})

    add("same-again", side("sqlite", "SELECT * FROM d", [["d", F1], ["e", F3]]), "equal")
    add("dict-insertion-order", side("sqlite", "SELECT * FROM d", [["e", F3], ["d", F1]]), "equal")
    add("second-model-instance-of-the-dialect", side("sqlite", "SELECT * FROM d", [["d", F1], ["e", F3]], fresh=True), "equal")
    add("other-dialect", side("postgres", "SELECT * FROM d", [["d", F1], ["e", F3]]), "differ")
    add("other-sql", side("sqlite", "SELECT * FROM d ", [["d", F1], ["e", F3]]), "differ")
    add("other-sql-case", side("sqlite", "select * FROM d", [["d", F1], ["e", F3]]), "differ")
    add("one-table-value", side("sqlite", "SELECT * FROM d", [["d", F2], ["e", F3]]), "differ")
    add("table-name", side("sqlite", "SELECT * FROM d", [["d", F1], ["f", F3]]), "differ")
    add("extra-table", side("sqlite", "SELECT * FROM d", [["d", F1], ["e", F3], ["g", F3]]), "differ")
    add("table-missing", side("sqlite", "SELECT * FROM d", [["d", F1]]), "differ")
    add("frames-swapped-between-names", side("sqlite", "SELECT * FROM d", [["d", F3], ["e", F1]]), "differ")
    # every permutation of a three-table map gives the same key
    three = [["d", F1], ["e", F3], ["g", F2]]
    for perm in itertools.permutations(three):
        out.append({"kind": "datamap", "name": "permutation", "a": side("sqlite", "q", three), "b": side("sqlite", "q", [list(p) for p in perm]), "expect": "equal"})
    return out


def _key_of(side: Dict[str, Any]):
    import data_algebra.eval_cache as ec

    dm = {}
    for name, fd in side["map"]:
        dm[name] = build_frame(fd)
    return ec.make_cache_key(db_model=model(side["dialect"], fresh=side.get("fresh_model", False)), sql=side["sql"], data_map=dm)


def run_datamap(case: Dict[str, Any]) -> Tuple[Optional[str], Dict[str, Any]]:
    ka, kb = _key_of(case["a"]), _key_of(case["b"])
    obs = {"key_equal": ka == kb, "hash_equal": hash(ka) == hash(kb)}
    if case["expect"] == "equal" and (ka != kb or hash(ka) != hash(kb)):
        return "keys differ although dialect, SQL text, table names and tables are the same (%s)" % case["name"], obs
    if case["expect"] == "differ" and ka == kb:
        return "keys are equal although the lookups differ (%s)" % case["name"], obs
    return None, obs


# ---------------------------------------------------------------------------------------------------------------
# histories
# ---------------------------------------------------------------------------------------------------------------

R = [fdesc(2, [["r", "int64", [1, 2]]]), fdesc(2, [["r", "int64", [1, 3]]])]

#: how the second key differs from the first (exactly one component)
KEY_VARIANTS = {
    "sql": (("sqlite", "SELECT 1", F1), ("sqlite", "SELECT 2", F1)),
    "dialect": (("sqlite", "SELECT 1", F1), ("postgres", "SELECT 1", F1)),
    "data-value": (("sqlite", "SELECT 1", F1), ("sqlite", "SELECT 1", F2)),
    "data-row-order": (("sqlite", "SELECT 1", F1), ("sqlite", "SELECT 1", fdesc(2, [["x", "int64", [2, 1]], ["y", "str", ["b", "a"]]]))),
}


def history_alphabet() -> List[List[Any]]:
    ops: List[List[Any]] = []
    for k in (0, 1):
        for r in (0, 1):
            for mut in (False, True):
                ops.append(["store", k, r, mut])
        for mut in (False, True):
            ops.append(["get", k, mut])
    return ops


def _mutate(fr) -> None:
    """change a frame in place: overwrite its first cell, then add a column."""
    if fr.shape[0] > 0:
        fr.iloc[0, 0] = 99
    fr["__added__"] = 7


def _same(a, b) -> bool:
    return list(a.columns) == list(b.columns) and bool(a.equals(b))


def run_history(case: Dict[str, Any]) -> Tuple[Optional[str], Dict[str, Any]]:
    """returns (None | first disagreement with the dict model, observation)."""
    import data_algebra.eval_cache as ec

    keys = KEY_VARIANTS[case["variant"]]
    cache = ec.ResultCache()
    mdl: Dict[int, Dict[str, Any]] = {}

    shared = {k: build_frame(keys[k][2]) for k in (0, 1)}  # lookup frames that are never mutated
    wants = [build_frame(r) for r in R]  # expected results, never handed to the cache

    def lookup_args(k, fresh=False):
        dialect, sql, fd = keys[k]
        return {"db_model": model(dialect), "sql": sql, "data_map": {"d": build_frame(fd) if fresh else shared[k]}}

    def view(step, op) -> Optional[str]:
        for k in (0, 1):
            try:
                got = cache.get(**lookup_args(k))
                exc = None
            except KeyError:
                got, exc = None, "KeyError"
            if k in mdl:
                if exc is not None:
                    return "step %d %r: lookup of key %d fails, the model holds result %d" % (step, op, k, mdl[k]["r"])
                want = wants[mdl[k]["r"]]
                if not _same(got, want):
                    return "step %d %r: key %d holds %r, the model holds %r" % (step, op, k, got.to_dict("list"), want.to_dict("list"))
            elif exc is None:
                return "step %d %r: lookup of key %d succeeds (%r) although nothing was stored under it" % (step, op, k, got.to_dict("list"))
        return None

    for i, op in enumerate(case["ops"]):
        if op[0] == "store":
            _, k, r, mut = op
            args = lookup_args(k, fresh=True)
            res = build_frame(R[r])
            cache.store(res=res, **args)
            mdl[k] = {"r": r}
            if mut:  # the caller goes on to change the frames it handed over
                _mutate(res)
                _mutate(args["data_map"]["d"])
        else:
            _, k, mut = op
            try:
                got = cache.get(**lookup_args(k))
                exc = None
            except KeyError:
                got, exc = None, "KeyError"
            if (k in mdl) != (exc is None):
                return "step %d %r: get raised=%r, model has the key=%r" % (i, op, exc, k in mdl), {"step": i}
            if exc is None:
                want = wants[mdl[k]["r"]]
                if not _same(got, want):
                    return "step %d %r: get returned %r, stored was %r" % (i, op, got.to_dict("list"), want.to_dict("list")), {"step": i}
                if mut:
                    _mutate(got)
        bad = view(i, op)
        if bad:
            return bad, {"step": i}
    return None, {"step": None}


def history_cases(tier: str, seed: int) -> Iterator[Dict[str, Any]]:
    alpha = history_alphabet()
    maxlen = 3 if tier == "quick" else 4
    for variant in KEY_VARIANTS:
        for n in range(1, maxlen + 1):
            if n == 4 and variant not in ("sql", "data-value"):
                continue  # length 4 (thorough) for the key pairs differing in the SQL text and in one data value; the others stop at 3
            for hist in itertools.product(alpha, repeat=n):
                if tier == "quick" and n == 3 and variant != "sql":
                    # quick: length-3 histories in full for the 'sql' key pair, every 4th (rotated by the seed) for the others
                    if (zlib.crc32(json.dumps(hist).encode()) + seed) % 4 != 0:
                        continue
                yield {"kind": "history", "variant": variant, "ops": [list(o) for o in hist]}


# ---------------------------------------------------------------------------------------------------------------
# driver
# ---------------------------------------------------------------------------------------------------------------


def case_hash(case: Dict[str, Any]) -> str:
    return hashlib.sha256(json.dumps(case, sort_keys=True, default=repr).encode()).hexdigest()[:8]


def run_case(case: Dict[str, Any]) -> Tuple[Optional[str], Dict[str, Any], str]:
    if case["kind"] == "pair":
        msg, obs = run_pair(case)
        return msg, obs, (classify_pair(case, obs) if msg else "")
    if case["kind"] == "datamap":
        msg, obs = run_datamap(case)
    else:
        msg, obs = run_history(case)
    return msg, obs, ("C25:unclassified:" + case_hash(case) if msg else "")


def _fshort(fd: Dict[str, Any]) -> str:
    return "DataFrame({%s})" % ", ".join("%r: %s%r" % (c[0], c[1] + " ", c[2]) for c in fd["cols"])


def short(case: Dict[str, Any]) -> str:
    if case["kind"] == "pair":
        return "%s: %s vs %s" % (case["relation"], _fshort(case["a"]), _fshort(case["b"]))
    if case["kind"] == "datamap":
        return "data map / lookup pair '%s'" % case["name"]
    return "history (second key differs in %s): %r" % (case["variant"], case["ops"])


def _work(chunk: List[Dict[str, Any]]) -> List[Tuple[Any, ...]]:
    """worker: run a chunk of cases, return compact results (hash, failing message, observation, key)."""
    out = []
    for case in chunk:
        try:
            msg, obs, key = run_case(case)
            out.append((case_hash(case), msg, obs if msg else None, key, None, bool(obs.get("dtype_only_shares_key"))))
        except Exception as e:
            out.append((case_hash(case), None, None, "", "c25 harness error on %s: %r" % (short(case), e), False))
    return out


def _run_all(cases: List[Dict[str, Any]], parallel: bool) -> List[Tuple[Any, ...]]:
    if not parallel or os.environ.get("VERIF_SERIAL") == "1" or len(cases) < 2000:
        return _work(cases)
    import concurrent.futures
    import multiprocessing

    chunks = [cases[i : i + 400] for i in range(0, len(cases), 400)]
    ctx = multiprocessing.get_context("spawn")
    res: List[Tuple[Any, ...]] = []
    with concurrent.futures.ProcessPoolExecutor(max_workers=MAX_WORKERS, mp_context=ctx) as ex:
        for part in ex.map(_work, chunks):
            res += part
    return res


def pair_cases(tier: str) -> Iterator[Dict[str, Any]]:
    for a in base_frames(tier):
        for rel, b in neighbours(a):
            yield {"kind": "pair", "relation": rel, "a": a, "b": b}


def scope_sizes(tier: str) -> Dict[str, int]:
    return {
        "base_frames": sum(1 for _ in base_frames(tier)),
        "history_max_len": 3 if tier == "quick" else 4,
        "history_alphabet": len(history_alphabet()),
        "key_variants": len(KEY_VARIANTS),
    }


def bounded(rep: Report, tier: str, seed: int) -> None:
    per_key: Dict[str, int] = {}
    n_unclassified = 0
    groups: Dict[str, int] = {}
    relations: Dict[str, int] = {}
    tagged = [("pair", c) for c in pair_cases(tier)] + [("datamap", c) for c in datamap_cases()] + [("history", c) for c in history_cases(tier, seed)]
    results = _run_all([c for _, c in tagged], parallel=True)  # one pool for everything
    dtype_only = {"pairs_with_equal_values_differing_only_in_a_dtype": 0, "of_these_sharing_a_key": 0}
    for (group, case), (h, msg, obs, key, err, info) in zip(tagged, results):
        if err:
            rep.errors.append(err)
            continue
        groups[group] = groups.get(group, 0) + 1
        if group == "pair":
            relations[case["relation"]] = relations.get(case["relation"], 0) + 1
            if case["relation"] == "dtype-equal-values":
                dtype_only["pairs_with_equal_values_differing_only_in_a_dtype"] += 1
            if info:
                dtype_only["of_these_sharing_a_key"] += 1
        # non-trivial = keys / views compared; a history of length 1 that only looks up an empty cache is trivial
        trivial = group == "history" and all(o[0] == "get" for o in case["ops"])
        rep.case((group, h), nontrivial=not trivial)
        if groups[group] in (5, 900) and len(rep.samples) < 8:
            rep.add_sample(short(case))
        if msg:
            per_key[key] = per_key.get(key, 0) + 1
            n_unclassified += ":unclassified:" in key
            # every failing case is counted (rep.extra); at most 2 witnesses per classified key and MAX_UNCLASSIFIED_WITNESSES unclassified ones are stored
            if per_key[key] <= 2 and not (":unclassified:" in key and n_unclassified > MAX_UNCLASSIFIED_WITNESSES):
                rep.violations.append(Violation(key=key, what="%s: %s" % (short(case), msg), replay={"module": "cbc.c25", "case": case}))
    rep.extra["c25_cases_by_group"] = groups
    rep.extra["c25_pairs_by_relation"] = relations
    rep.extra["c25_failing_cases_by_key"] = dict(sorted(per_key.items()))
    rep.extra["c25_scope"] = scope_sizes(tier)
    rep.extra["dtype_only_pairs_sharing_a_key"] = dtype_only  # information: not demanded by the property either way
    rep.violations.sort(key=lambda v: (v.key, len(json.dumps(v.replay["case"], default=repr))))


def replay_case(case: Dict[str, Any]) -> bool:
    msg, obs, key = run_case(case)
    print("case:", short(case))
    print("observed:", obs)
    print(msg or "case passes on this tree")
    return bool(msg)
