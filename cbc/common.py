"""cbc.common -- shared helpers for the bounded contract checks (C01 C03 C08 C18 C19 and others).

Contents
--------
* canonical rows / frame comparison      canon_value, canon_rows, values_equiv, frames_equiv,
                                         order-and-limit checking (check_order_limit, key_sequence)
* back-end runners                       run_pandas, run_polars, run_sqlite
* table enumerators                      gen_tables, table_grid, to_pandas, to_polars, data_pool
* typed pipeline enumerator              gen_pipelines(depth, tier, two_table), build(spec), describe(spec)
* catalog restriction (read LIVE)        catalog_methods(backends), catalog_supported(ops, backends)
* per-case helpers                       pandas_frames / polars_frames, PrefixCache (real evaluation of pipeline
                                         prefixes per back end), data_preconditions (window order total?, limit
                                         cut determined?, convert_records keying, convention region), pick_data
* small utilities                        spec_hash, case_hash, run_parallel, shard, sort_violations

Companion modules: cbc.wrap (run-time contract wrapper), cbc.sem (model of the back ends with one switch per
known divergence; used only to NAME the divergences behind a failing case, never to pass one).

Nothing in here uses data_algebra.test_util (nor its pickled result cache).  data_algebra is imported
normally, so `PYTHONPATH=/some/copy VERIF_REPO=/some/copy` redirects every check to a scratch copy.

Pipeline specs are plain JSON-able data:

    {"table": "d", "steps": [[op_name, params], ...]}

`op_name` is one of the 12 public operators (windowed extend is op_name "extend" with partition_by /
order_by / reverse parameters).  Two-table operators carry the right hand side in params["b"]:
{"table": "e"} (a plain table), {"prefix_on": "f"} (the same steps that precede this one, applied to
table f, which has the schema of d) or "self" (the left hand side itself: a shared sub-DAG).
"""
from __future__ import annotations

import collections
import hashlib
import itertools
import json
import math
import os
import random
import warnings
from typing import Any, Callable, Dict, Iterable, Iterator, List, Optional, Sequence, Tuple

import numpy
import pandas

warnings.filterwarnings("ignore")

# --------------------------------------------------------------------------------------------------
# canonical rows and comparison
# --------------------------------------------------------------------------------------------------


def canon_value(v: Any, keep_nan: bool = False) -> Any:
    """None/NaN/NaT/pandas.NA -> None; numpy scalars -> Python scalars; everything else unchanged.
    keep_nan=True keeps a float NaN as NaN (Polars distinguishes NaN from null; used for classification)."""
    if v is None:
        return None
    if isinstance(v, (bool, int, str)):
        return v
    if isinstance(v, float):
        return (v if keep_nan else None) if v != v else v
    if isinstance(v, numpy.generic):
        try:
            if isinstance(v, (numpy.datetime64, numpy.timedelta64)) and numpy.isnat(v):
                return None
        except TypeError:
            pass
        return canon_value(v.item())
    try:
        if v is pandas.NA or v is pandas.NaT:
            return None
    except Exception:
        pass
    try:
        if pandas.isna(v) is True:
            return None
    except Exception:
        pass
    return v


def _is_polars(frame: Any) -> bool:
    return type(frame).__module__.split(".")[0] == "polars"


def canon_rows(frame: Any, keep_nan: bool = False) -> Tuple[List[str], List[Tuple[Any, ...]]]:
    """pandas / polars (eager or lazy) frame -> (column names, list of row tuples).
    keep_nan (Polars frames only): keep float NaN values distinct from null.

    Nulls of every flavour are None, numpy scalars are Python scalars.  bool stays bool and int stays
    int in the representation; values_equiv() compares bool/int/float numerically (True == 1)."""
    if _is_polars(frame):
        if hasattr(frame, "collect") and not hasattr(frame, "rows"):
            frame = frame.collect()
        cols = [str(c) for c in frame.columns]
        rows = [tuple(canon_value(v, keep_nan) for v in r) for r in frame.rows()]
        return cols, rows
    if isinstance(frame, pandas.DataFrame):
        cols = [c for c in frame.columns]
        data = [frame.iloc[:, j].tolist() for j in range(frame.shape[1])]
        n = frame.shape[0]
        rows = [tuple(canon_value(data[j][i]) for j in range(len(cols))) for i in range(n)]
        return cols, rows
    raise TypeError("canon_rows: not a pandas/polars frame: %r" % (type(frame),))


def _is_num(v: Any) -> bool:
    return isinstance(v, (bool, int, float))


def values_equiv(a: Any, b: Any, tol: float = 1e-8) -> bool:
    """null == null; numbers (bool/int/float) compared numerically with abs+rel tolerance; else ==."""
    if a is None or b is None:
        return a is None and b is None
    if _is_num(a) and _is_num(b):
        fa, fb = float(a), float(b)
        if fa == fb:
            return True
        if fa != fa or fb != fb:  # NaN only survives canon_rows(keep_nan=True): NaN == NaN
            return fa != fa and fb != fb
        if math.isinf(fa) or math.isinf(fb):
            return False
        return abs(fa - fb) <= tol + tol * max(abs(fa), abs(fb))
    if _is_num(a) != _is_num(b):
        return False
    return a == b


def _cell_key(v: Any) -> Tuple:
    if v is None:
        return (0, 0.0, "")
    if _is_num(v):
        f = float(v)
        if f != f:
            return (1, float("inf"), "nan")
        return (1, round(f, 6) + 0.0, "")  # +0.0 folds -0.0 into 0.0
    if isinstance(v, str):
        return (2, 0.0, v)
    return (3, 0.0, repr(v))


def row_sort_key(row: Sequence[Any]) -> Tuple:
    """Null-safe, type-safe total order on rows."""
    return tuple(_cell_key(v) for v in row)


def _rows_equiv(ra, rb, tol, extra) -> bool:
    for j, (a, b) in enumerate(zip(ra, rb)):
        if not values_equiv(a, b, tol):
            if extra is None or not extra(j, a, b):
                return False
    return True


def _match_multisets(rows_a, rows_b, tol, extra) -> Optional[Tuple[int, int]]:
    """Exact multiset comparison modulo tolerance: sorted pairwise first, then maximum bipartite
    matching (augmenting paths) if the sort orders disagree.  Returns None when the multisets agree,
    otherwise (index of an unmatched row of a, -1)."""
    sa = sorted(range(len(rows_a)), key=lambda i: row_sort_key(rows_a[i]))
    sb = sorted(range(len(rows_b)), key=lambda i: row_sort_key(rows_b[i]))
    if all(_rows_equiv(rows_a[i], rows_b[j], tol, extra) for i, j in zip(sa, sb)):
        return None
    n = len(rows_a)
    adj = [[j for j in range(n) if _rows_equiv(rows_a[i], rows_b[j], tol, extra)] for i in range(n)]
    match_b = [-1] * n

    def try_aug(i, seen):
        for j in adj[i]:
            if j in seen:
                continue
            seen.add(j)
            if match_b[j] < 0 or try_aug(match_b[j], seen):
                match_b[j] = i
                return True
        return False

    for i in range(n):
        if not try_aug(i, set()):
            return (i, -1)
    return None


def frames_equiv(
    a: Any,
    b: Any,
    *,
    ordered: bool = False,
    tol: float = 1e-8,
    check_column_order: bool = False,
    ignore_columns: Iterable[str] = (),
    extra_cell_equiv: Optional[Callable[[str, Any, Any], bool]] = None,
) -> Tuple[bool, str]:
    """Our own frame comparison (not data_algebra.test_util).

    Same column SET (same column ORDER when check_column_order), no duplicate column names, same
    MULTISET of rows (same SEQUENCE when ordered); float tolerance `tol` (absolute + relative),
    null == NaN == None, bool/int/float compared numerically.
    `a`/`b` are frames or already canonical (columns, rows) pairs.
    ignore_columns: cells of these columns are not compared (the columns must still exist on both sides).
    extra_cell_equiv(col, va, vb): additional accepted cell pairs, consulted only when the standard
    comparison of a cell fails (used for the documented C01 conventions only)."""
    ca, ra = a if isinstance(a, tuple) else canon_rows(a)
    cb, rb = b if isinstance(b, tuple) else canon_rows(b)
    ca = list(ca)
    cb = list(cb)
    if len(set(ca)) != len(ca):
        return False, "duplicate column names in first frame: %r" % (ca,)
    if len(set(cb)) != len(cb):
        return False, "duplicate column names in second frame: %r" % (cb,)
    if set(ca) != set(cb):
        return False, "column sets differ: %r vs %r" % (ca, cb)
    if check_column_order and ca != cb:
        return False, "column order differs: %r vs %r" % (ca, cb)
    if len(ra) != len(rb):
        return False, "row counts differ: %d vs %d" % (len(ra), len(rb))
    ign = set(ignore_columns)
    cols = [c for c in ca if c not in ign]
    ia = [ca.index(c) for c in cols]
    ib = [cb.index(c) for c in cols]
    pa = [tuple(r[i] for i in ia) for r in ra]
    pb = [tuple(r[i] for i in ib) for r in rb]
    extra = None
    if extra_cell_equiv is not None:
        extra = lambda j, x, y: extra_cell_equiv(cols[j], x, y)  # noqa: E731
    if ordered:
        for i, (x, y) in enumerate(zip(pa, pb)):
            if not _rows_equiv(x, y, tol, extra):
                return False, "row %d differs: %r vs %r (columns %r)" % (i, x, y, cols)
        return True, ""
    bad = _match_multisets(pa, pb, tol, extra)
    if bad is not None:
        return False, "row multisets differ, e.g. unmatched row %r of first frame (columns %r); first=%r second=%r" % (
            pa[bad[0]],
            cols,
            sorted(pa, key=row_sort_key)[:6],
            sorted(pb, key=row_sort_key)[:6],
        )
    return True, ""


# ---- order_rows checking ---------------------------------------------------------------------------


def key_sequence(cols: Sequence[str], rows: Sequence[Sequence[Any]], order_cols: Sequence[str]) -> List[Tuple]:
    idx = [list(cols).index(c) for c in order_cols]
    return [tuple(r[i] for i in idx) for r in rows]


def _cmp_cell(a, b, desc: bool, nulls_first: bool) -> int:
    """-1/0/1 position comparison of two key cells under (desc, nulls placement)."""
    if a is None or b is None:
        if a is None and b is None:
            return 0
        if a is None:
            return -1 if nulls_first else 1
        return 1 if nulls_first else -1
    if _is_num(a) and _is_num(b):
        fa, fb = float(a), float(b)
        if fa != fa or fb != fb:  # NaN (only in models of back ends that keep NaN as a value): greatest
            c = 0 if (fa != fa and fb != fb) else (1 if fa != fa else -1)
            return -c if desc else c
        if values_equiv(a, b):
            return 0
        c = -1 if fa < fb else 1
    else:
        sa, sb = (a, b) if (isinstance(a, str) and isinstance(b, str)) else (repr(a), repr(b))
        c = 0 if sa == sb else (-1 if sa < sb else 1)
    return -c if desc else c


def cmp_keys(ka, kb, descs: Sequence[bool], nulls_first: Sequence[bool]) -> int:
    for a, b, d, nf in zip(ka, kb, descs, nulls_first):
        c = _cmp_cell(a, b, d, nf)
        if c != 0:
            return c
    return 0


def sorted_under_some_null_policy(keys: Sequence[Tuple], descs: Sequence[bool]) -> Optional[Tuple[bool, ...]]:
    """Return a per-column nulls_first assignment under which `keys` is non-decreasing, else None.
    (Accepts nulls-first or nulls-last, but consistently within a column.)"""
    n = len(descs)
    for pol in itertools.product([False, True], repeat=n):
        if all(cmp_keys(keys[i], keys[i + 1], descs, pol) <= 0 for i in range(len(keys) - 1)):
            return pol
    return None


def check_order_limit(
    cols: Sequence[str],
    rows: Sequence[Sequence[Any]],
    full_cols: Sequence[str],
    full_rows: Sequence[Sequence[Any]],
    order_cols: Sequence[str],
    reverse: Sequence[str],
    limit: Optional[int],
) -> Tuple[bool, str]:
    """Is `rows` a correctly ordered (and limited) version of the unordered, unlimited `full_rows`?

    * rows are sorted by order_cols with the given reversals under SOME consistent per-column null
      placement (ties free);
    * without limit: same multiset as full_rows;
    * with limit n: exactly min(n, len(full)) rows, a sub-multiset of full_rows, and no omitted row
      sorts strictly before the last returned row (ties crossing the cut: any choice is valid)."""
    descs = [c in set(reverse) for c in order_cols]
    keys = key_sequence(cols, rows, order_cols)
    pol = sorted_under_some_null_policy(keys, descs)
    if pol is None:
        return False, "rows not sorted by %r (reverse %r): key sequence %r" % (list(order_cols), list(reverse), keys)
    fidx = [list(full_cols).index(c) for c in cols]
    frows = [tuple(r[i] for i in fidx) for r in full_rows]
    if limit is None:
        ok, why = frames_equiv((list(cols), list(rows)), (list(cols), frows))
        return (ok, "" if ok else "ordered result is not a permutation of the unordered result: " + why)
    want = min(limit, len(frows))
    if len(rows) != want:
        return False, "limit=%r: expected %d rows, got %d" % (limit, want, len(rows))
    # sub-multiset: match every returned row to a distinct full row
    remaining = list(frows)
    for r in rows:
        hit = None
        for i, fr in enumerate(remaining):
            if _rows_equiv(r, fr, 1e-8, None):
                hit = i
                break
        if hit is None:
            return False, "limit=%r: returned row %r is not a row of the unlimited result" % (limit, r)
        remaining.pop(hit)
    if rows and remaining:
        last = keys[-1]
        rem_keys = key_sequence(cols, remaining, order_cols)
        # the null policy is only pinned down by the rows we saw; accept any policy that sorts them
        okpol = False
        for p in itertools.product([False, True], repeat=len(descs)):
            if not all(cmp_keys(keys[i], keys[i + 1], descs, p) <= 0 for i in range(len(keys) - 1)):
                continue
            if all(cmp_keys(k, last, descs, p) >= 0 for k in rem_keys):
                okpol = True
                break
        if not okpol:
            return False, "limit=%r: an omitted row sorts before the last returned row (returned keys %r, omitted keys %r)" % (
                limit,
                keys,
                rem_keys,
            )
    return True, ""


# --------------------------------------------------------------------------------------------------
# tables
# --------------------------------------------------------------------------------------------------

DOMAINS: Dict[str, List[Any]] = {
    "int": [None, -1, 0, 1, 2],
    "float": [None, -1.5, 0.0, 0.5, 2.0],
    "str": [None, "", "a", "b"],
    "bool": [None, False, True],
}

#: the fixed working schemas of the pipeline enumerator
SCHEMAS: Dict[str, Dict[str, str]] = {
    "d": {"g": "str", "k": "int", "x": "float", "y": "float"},
    "f": {"y": "float", "g": "str", "x": "float", "k": "int"},  # concat partner of d: same columns in ANOTHER physical order (UNION ALL is positional)
    "e": {"k": "int", "z": "float"},  # join partner, same-named key
    "h": {"k2": "int", "z": "float"},  # join partner, differently named key
    "c": {"k": "int", "x": "float"},  # join partner with an overlapping non-key column
}


def gen_tables(schema: Dict[str, str], max_rows: int) -> Iterator[Dict[str, List[Any]]]:
    """ALL tables (dict column -> list) with 0..max_rows rows over the per-type DOMAINS, rows in
    every order (so duplicates, ties and permutations are all present).  Huge: use table_grid()."""
    cols = list(schema.keys())
    doms = [DOMAINS[schema[c]] for c in cols]
    all_rows = list(itertools.product(*doms))
    for n in range(0, max_rows + 1):
        for rows in itertools.product(all_rows, repeat=n):
            yield {c: [r[j] for r in rows] for j, c in enumerate(cols)}


def _table_from_rows(cols, rows):
    return {c: [r[j] for r in rows] for j, c in enumerate(cols)}


def table_grid(schema: Dict[str, str], max_rows: int, seed: int = 0, cap: int = 64) -> List[Dict[str, List[Any]]]:
    """Deterministic, well-spread subset (at most `cap` tables) of gen_tables(schema, max_rows).

    Always first: the empty table, an all-null single row, two all-null rows, a duplicated row, rows
    tied on the first column but differing elsewhere, a null-key row next to non-null keys, and a table
    without any null.  The remainder is drawn with a seeded PRNG (random.Random(seed)) from the full
    space so that every domain value of every column occurs."""
    cols = list(schema.keys())
    doms = [DOMAINS[schema[c]] for c in cols]
    nn = [[v for v in d if v is not None] for d in doms]
    out: List[Dict[str, List[Any]]] = []
    seen = set()

    def add(rows):
        rows = [tuple(r) for r in rows][:max_rows] if max_rows >= 0 else []
        t = _table_from_rows(cols, rows)
        k = json.dumps(t, sort_keys=True)
        if k not in seen and len(out) < cap:
            seen.add(k)
            out.append(t)

    add([])
    null_row = tuple(None for _ in cols)
    add([null_row])
    add([null_row, null_row])
    r0 = tuple(d[0] for d in nn)
    r1 = tuple(d[min(1, len(d) - 1)] for d in nn)
    r2 = tuple(d[-1] for d in nn)
    add([r0])
    add([r1, r1])  # duplicate rows
    add([r0, r1, r2])  # no nulls
    add([r0, (r0[0],) + r2[1:], (r0[0],) + r1[1:]])  # ties on first column
    add([(None,) + r1[1:], r1, (None,) + r2[1:]])  # null key rows
    add([r1, tuple(None if j == len(cols) - 1 else v for j, v in enumerate(r1)), r2])  # null in last column
    add([r2, r1, r0, r1])  # needs max_rows >= 4 for the duplicate
    rng = random.Random(1000003 * (seed + 1) + len(cols))
    guard = 0
    while len(out) < cap and guard < 50 * cap:
        guard += 1
        n = rng.randint(1, max(1, max_rows))
        rows = []
        for _ in range(n):
            if rows and rng.random() < 0.25:
                base = list(rng.choice(rows))  # near-duplicate / tie
                j = rng.randrange(len(cols))
                base[j] = rng.choice(doms[j])
                rows.append(tuple(base))
            else:
                rows.append(tuple(rng.choice(d) for d in doms))
        add(rows)
    return out


_PANDAS_DTYPE = {"float": "float64"}


def to_pandas(table: Dict[str, List[Any]], schema: Dict[str, str]) -> pandas.DataFrame:
    """Table dict -> pandas frame with the dtypes pandas itself infers from Python lists with None:

    * int column without None -> int64; with a None -> float64 with NaN (pandas' natural promotion);
    * float -> float64 with NaN; str -> pandas' default string dtype (`str` in pandas 3) with NaN;
    * bool without None -> bool, with None -> object.
    Empty and all-None columns (where inference has nothing to go on and would give `object`) are
    typed from the schema instead: float64 for int/float, the string dtype for str, object for bool."""
    cols = {}
    for c, t in schema.items():
        vals = list(table[c])
        has_none = any(v is None for v in vals)
        all_none = all(v is None for v in vals)
        if t == "int":
            if len(vals) == 0:
                cols[c] = pandas.Series(vals, dtype="int64")
            elif has_none:
                cols[c] = pandas.Series([numpy.nan if v is None else float(v) for v in vals], dtype="float64")
            else:
                cols[c] = pandas.Series(vals, dtype="int64")
        elif t == "float":
            cols[c] = pandas.Series([numpy.nan if v is None else float(v) for v in vals], dtype="float64")
        elif t == "str":
            cols[c] = pandas.Series(vals, dtype="str")
        elif t == "bool":
            cols[c] = pandas.Series(vals, dtype=("object" if (has_none or all_none) else "bool"))
        else:
            raise ValueError("unknown type " + t)
    return pandas.DataFrame(cols, columns=list(schema.keys()))


def to_polars(table: Dict[str, List[Any]], schema: Dict[str, str], lazy: bool = False):
    """Table dict -> polars frame (None -> null; int Int64, float Float64, str String, bool Boolean)."""
    import polars as pl

    tmap = {"int": pl.Int64, "float": pl.Float64, "str": pl.String, "bool": pl.Boolean}
    df = pl.DataFrame({c: list(table[c]) for c in schema}, schema={c: tmap[t] for c, t in schema.items()})
    return df.lazy() if lazy else df


def data_pool(max_rows: int, seed: int, cap: int) -> List[Dict[str, Dict[str, List[Any]]]]:
    """A deterministic pool of data sets; a data set binds every table name of SCHEMAS to a table.
    Element i combines the i-th table of each per-table grid (grids are rotated against each other so
    that e.g. "d empty, e non-empty" and "both empty" both occur)."""
    grids = {name: table_grid(sch, max_rows, seed=seed + 17 * j, cap=cap) for j, (name, sch) in enumerate(SCHEMAS.items())}
    pool = []
    # 0: everything empty
    pool.append({name: grids[name][0] for name in SCHEMAS})
    for i in range(1, cap):
        ds = {}
        for j, name in enumerate(SCHEMAS):
            g = grids[name]
            if name in ("d", "f"):
                ds[name] = g[(i + (3 if name == "f" else 0)) % len(g)]
            else:
                ds[name] = g[(i * (j + 2) + j) % len(g)]
        pool.append(ds)
    # complete block records for convert_records(blocks -> rowrecs): every k has exactly one 'a' and one 'b'
    blk = {"g": ["a", "b", "a", "b"], "k": [1, 1, 2, 2], "x": [0.5, None, 2.0, -1.5], "y": [0.0, 2.0, 0.5, 0.5]}
    blk1 = {"g": ["b", "a"], "k": [0, 0], "x": [2.0, 0.5], "y": [None, 0.0]}
    for b in (blk, blk1):
        ds = dict(pool[min(5, len(pool) - 1)])
        ds["d"] = b
        ds["f"] = {c: list(reversed(v)) for c, v in b.items()}
        pool.append(ds)
    return pool


# --------------------------------------------------------------------------------------------------
# runners
# --------------------------------------------------------------------------------------------------


def _outcome_raise(e: BaseException) -> Tuple[str, str, str]:
    if type(e).__name__ == "HarnessError":
        raise e  # a bug of the harness (contract wrapper) is never reported as a back end raising
    return ("raise", type(e).__name__, str(e)[:300])


def run_pandas(ops, tables: Dict[str, pandas.DataFrame]):
    """ops.eval on pandas frames -> ("ok", frame) | ("raise", exception type name, message)."""
    try:
        with warnings.catch_warnings():
            warnings.simplefilter("ignore")
            return ("ok", ops.eval(dict(tables)))
    except Exception as e:  # reported to the caller, never swallowed
        return _outcome_raise(e)


def run_polars(ops, tables: Dict[str, Any], lazy: bool = False, use_lazy_eval: Optional[bool] = None):
    """ops.eval on polars frames (lazy: pass LazyFrames).  `tables` may hold pandas frames (converted
    via polars.from_pandas is NOT used: pass table dicts through to_polars yourself) or polars frames.
    use_lazy_eval: if not None, temporarily set PolarsModel.use_lazy_eval on the live model instance."""
    import polars as pl
    import data_algebra.data_model
    import data_algebra.polars_model  # noqa: F401

    model = data_algebra.data_model.lookup_data_model_for_key("default_Polars_model")
    tabs = {}
    for k, v in tables.items():
        if isinstance(v, pl.DataFrame):
            tabs[k] = v.lazy() if lazy else v
        elif isinstance(v, pl.LazyFrame):
            tabs[k] = v if lazy else v.collect()
        else:
            raise TypeError("run_polars wants polars frames (use to_polars)")
    old = model.use_lazy_eval
    try:
        if use_lazy_eval is not None:
            model.use_lazy_eval = bool(use_lazy_eval)
        with warnings.catch_warnings():
            warnings.simplefilter("ignore")
            res = ops.eval(tabs)
            if isinstance(res, pl.LazyFrame):
                res = res.collect()
        return ("ok", res)
    except Exception as e:
        return _outcome_raise(e)
    except BaseException as e:  # polars PanicException derives from BaseException
        if type(e).__name__ == "PanicException":
            return _outcome_raise(e)
        raise
    finally:
        model.use_lazy_eval = old


def run_sqlite(ops, tables: Dict[str, pandas.DataFrame], *, sql_format_options=None, via_ops: bool = False):
    """Fresh in-memory SQLite handle (data_algebra.SQLite.example_handle()), insert the tables,
    handle.read_query(ops.to_sql(handle.db_model, sql_format_options=...)) (or read_query(ops) when
    via_ops), close.  Real execution every time."""
    import data_algebra.SQLite

    handle = data_algebra.SQLite.example_handle()
    try:
        with warnings.catch_warnings():
            warnings.simplefilter("ignore")
            for k, v in tables.items():
                handle.insert_table(v, table_name=k, allow_overwrite=True)
            try:
                if via_ops and sql_format_options is None:
                    res = handle.read_query(ops)
                else:
                    sql = ops.to_sql(handle.db_model, sql_format_options=sql_format_options)
                    res = handle.read_query(sql)
            except Exception as e:
                return _outcome_raise(e)
        return ("ok", res)
    finally:
        handle.close()


# --------------------------------------------------------------------------------------------------
# catalog (read live)
# --------------------------------------------------------------------------------------------------


def _method_use(op: str, op_class: str):
    from data_algebra.data_ops_types import MethodUse

    if op_class in ("p", "up"):
        return MethodUse(op, is_project=True, is_windowed=False, is_ordered=False)
    if op_class == "g":
        return MethodUse(op, is_project=False, is_windowed=True, is_ordered=False)
    if op_class == "w":
        return MethodUse(op, is_project=False, is_windowed=True, is_ordered=True)
    return MethodUse(op, is_project=False, is_windowed=False, is_ordered=False)


_CATALOG_CACHE: Dict[Tuple[str, ...], Any] = {}


def catalog_methods(backends: Sequence[str]) -> set:
    """Set of MethodUse (op, context) that data_algebra.op_catalog.methods_table -- read live --
    marks 'y' for every back end column named in `backends` (e.g. ('Pandas', 'SQLiteModel'))."""
    key = tuple(backends)
    if key in _CATALOG_CACHE:
        return _CATALOG_CACHE[key]
    import data_algebra.op_catalog

    mt = data_algebra.op_catalog.methods_table
    good = set()
    for i in range(mt.shape[0]):
        row = mt.iloc[i]
        if all((b in mt.columns) and (row[b] == "y") for b in backends):
            good.add(_method_use(str(row["op"]), str(row["op_class"])))
    _CATALOG_CACHE[key] = good
    return good


def catalog_supported(ops, backends: Sequence[str]) -> Tuple[bool, List[Any]]:
    """(every method use of `ops` is marked 'y' for all `backends`, list of offending uses)."""
    good = catalog_methods(backends)
    bad = sorted(m for m in ops.methods_used() if m not in good)
    return (len(bad) == 0, bad)


def _cat_ok(pairs: Sequence[Tuple[str, str]], backends: Sequence[str]) -> bool:
    good = catalog_methods(backends)
    return all(_method_use(op, cls) in good for op, cls in pairs)


# --------------------------------------------------------------------------------------------------
# typed pipeline enumerator
# --------------------------------------------------------------------------------------------------

OPERATORS = (
    "extend",
    "extend_windowed",
    "project",
    "select_rows",
    "select_columns",
    "drop_columns",
    "rename_columns",
    "map_columns",
    "order_rows",
    "natural_join",
    "concat_rows",
    "convert_records",
)

#: aggregate family covered by the documented "sum/count over a group without non-null values" convention
AGG_FAMILY = {"sum", "count", "size", "_size", "_count"}

_TAINT_RANK = {"": 0, "agg0": 1, "aggd": 2, "div": 3}


def _tjoin(*ts: str) -> str:
    return max(ts, key=lambda t: _TAINT_RANK[t]) if ts else ""


def _derived(t: str) -> str:
    return "aggd" if t == "agg0" else t


class _State:
    """Static facts about a chain prefix: column types, convention taints, row-level taints."""

    def __init__(self, schema, rows_div=False, rows_agg=False, agg_steps=(), fresh_cols=None):
        self.schema = collections.OrderedDict(schema)  # name -> (type, taint)
        self.rows_div = rows_div
        self.rows_agg = rows_agg
        self.agg_steps = tuple(agg_steps)
        # columns assigned by the immediately preceding extend: name -> 'new' | 'over' (overwritten)
        self.fresh_cols = collections.OrderedDict(fresh_cols or {})

    def cols(self):
        return list(self.schema.keys())

    def typ(self, c):
        return self.schema[c][0]

    def taint(self, c):
        return self.schema[c][1]

    def roles(self):
        cs = self.cols()
        floats = [c for c in cs if self.typ(c) == "float"]
        ints = [c for c in cs if self.typ(c) == "int"]
        strs = [c for c in cs if self.typ(c) == "str"]
        nums = floats + ints
        r = {
            "A": nums[0] if nums else None,
            "B": nums[1] if len(nums) > 1 else (nums[0] if nums else None),
            "K": ints[0] if ints else None,
            "G": strs[0] if strs else None,
            "F": floats[0] if floats else None,
            "F2": floats[1] if len(floats) > 1 else None,
        }
        r["P"] = r["G"] if r["G"] is not None else r["K"]
        return r

    def fresh(self, n):
        out = []
        i = 1
        while len(out) < n:
            nm = "n%d" % i
            if nm not in self.schema:
                out.append(nm)
            i += 1
        return out

    def use_rows(self, cols) -> Tuple[bool, bool]:
        rd, ra = self.rows_div, self.rows_agg
        for c in cols:
            t = self.taint(c)
            if t == "div":
                rd = True
            elif t in ("agg0", "aggd"):
                ra = True
        return rd, ra


def _num_type(st: _State, cols) -> str:
    return "float" if any(st.typ(c) == "float" for c in cols) else "int"


def _variants(
    st: _State,
    pos: int,
    two_table: bool,
    backends: Sequence[str],
    override: Optional[Dict[str, Any]] = None,
    suffix: str = "",
) -> List[Dict[str, Any]]:
    """All operator variants applicable to a chain prefix with static state `st`.
    Each variant: {"id", "op" (one of OPERATORS), "step" [op_name, params], "state" (new _State), "r" (in reduced grid)}."""
    R = st.roles()
    if override:
        R.update(override)
    A, B, K, G, P, F, F2 = R["A"], R["B"], R["K"], R["G"], R["P"], R["F"], R["F2"]
    cols = st.cols()
    out: List[Dict[str, Any]] = []

    def emit(vid, op, step, schema, rows_cols=(), reduced=False, agg=False, methods=()):
        if not _cat_ok(methods, backends):
            return
        rd, ra = st.use_rows(rows_cols)
        agg_steps = st.agg_steps + ((pos,) if agg else ())
        touched = None
        if op in ("extend", "extend_windowed"):
            touched = collections.OrderedDict((k, "over" if k in st.schema else "new") for k in step[1]["ops"])
        out.append(
            {
                "id": vid + suffix,
                "op": op,
                "step": step,
                "state": _State(schema, rd, ra, agg_steps, fresh_cols=touched),
                "r": reduced,
            }
        )

    def ext_schema(assign: Dict[str, Tuple[str, str]]):
        s = collections.OrderedDict(st.schema)
        for c, tt in assign.items():
            s[c] = tt
        return s

    def tj(*cs):
        return _derived(_tjoin(*[st.taint(c) for c in cs if c is not None]))

    n1, n2, n3 = st.fresh(3)
    # ---------------- extend (row-wise) ----------------
    if A is not None:
        nt = _num_type(st, [A, B])
        emit("x_add", "extend", ["extend", {"ops": {n1: "%s + %s" % (A, B)}}], ext_schema({n1: (nt, tj(A, B))}), reduced=True, methods=[("+", "e")])
        emit(
            "x_submul",
            "extend",
            ["extend", {"ops": {n1: "%s - %s" % (A, B), n2: "%s * %s" % (A, B)}}],
            ext_schema({n1: (nt, tj(A, B)), n2: (nt, tj(A, B))}),
            methods=[("-", "e"), ("*", "e")],
        )
        div_t = "div" if nt == "int" else tj(A, B)
        emit("x_div_over", "extend", ["extend", {"ops": {A: "%s / %s" % (A, B)}}], ext_schema({A: ("float" if nt == "float" else "int", _tjoin(div_t, tj(A, B)))}), reduced=True, methods=[("/", "e")])
        emit(
            "x_ifelse",
            "extend",
            ["extend", {"ops": {n1: "(%s > %s).if_else(%s, %s)" % (A, B, A, B)}}],
            ext_schema({n1: (nt, tj(A, B))}),
            reduced=True,
            methods=[(">", "e"), ("if_else", "e")],
        )
        emit("x_isnull", "extend", ["extend", {"ops": {n1: "%s.is_null()" % A}}], ext_schema({n1: ("bool", tj(A))}), methods=[("is_null", "e")])
        emit("x_coalesce", "extend", ["extend", {"ops": {n1: "%s.coalesce(0)" % A}}], ext_schema({n1: (st.typ(A), tj(A))}), reduced=True, methods=[("coalesce", "e")])
        emit(
            "x_maxmin",
            "extend",
            ["extend", {"ops": {n1: "%s.maximum(%s)" % (A, B), n2: "%s.minimum(%s)" % (A, B)}}],
            ext_schema({n1: (nt, tj(A, B)), n2: (nt, tj(A, B))}),
            methods=[("maximum", "e"), ("minimum", "e")],
        )
        emit(
            "x_cmp",
            "extend",
            ["extend", {"ops": {n1: "%s == %s" % (A, B), n2: "%s <= 0.5" % A}}],
            ext_schema({n1: ("bool", tj(A, B)), n2: ("bool", tj(A))}),
            methods=[("==", "e"), ("<=", "e")],
        )
        emit("x_neg", "extend", ["extend", {"ops": {n1: "-%s" % A}}], ext_schema({n1: (st.typ(A), tj(A))}), methods=[("-", "e")])
    if A is not None:
        # right-nested / left-nested / mixed applications of non-associative inline operators
        T = K if K is not None else "1"
        nt3 = "float" if (nt == "float" or K is None) else "int"
        emit(
            "x_nest_right",
            "extend",
            ["extend", {"ops": {n1: "%s - (%s - %s)" % (A, B, T), n2: "%s - (%s - (%s - 1))" % (A, B, T)}}],
            ext_schema({n1: (nt3, tj(A, B, K)), n2: (nt3, tj(A, B, K))}),
            reduced=True,
            methods=[("-", "e")],
        )
        emit(
            "x_nest_left_mixed",
            "extend",
            ["extend", {"ops": {n1: "(%s - %s) - %s" % (A, B, T), n2: "%s - (%s * (%s - %s))" % (A, B, A, T), n3: "%s * (%s - %s)" % (A, B, T)}}],
            ext_schema({n1: (nt3, tj(A, B, K)), n2: (nt3, tj(A, B, K)), n3: (nt3, tj(A, B, K))}),
            methods=[("-", "e"), ("*", "e")],
        )
        if st.typ(A) == "float" and st.typ(B) == "float":  # (an int operand would make `B / 2` the integer-division convention)
            emit(
                "x_nest_div",
                "extend",
                ["extend", {"ops": {n1: "%s / (%s / 2)" % (A, B), n2: "(%s / %s) / 2" % (A, B)}}],
                ext_schema({n1: ("float", tj(A, B)), n2: ("float", tj(A, B))}),
                methods=[("/", "e")],
            )
        if st.typ(A) == "float":
            emit(
                "x_nest_pow",
                "extend",
                ["extend", {"ops": {n1: "2 ** (%s ** 2)" % A, n2: "(%s ** 2) ** 2" % A}}],
                ext_schema({n1: ("float", tj(A)), n2: ("float", tj(A))}),
                methods=[("**", "e")],
            )
    keyish = {"g", "k", "k2"}
    over = [c for c in cols if c not in keyish]
    if over:
        emit(
            "x_const_all",
            "extend",
            ["extend", {"ops": {c: "1" for c in over}}],
            ext_schema({c: ("int", "") for c in over}),
            reduced=True,
        )
    if K is not None:
        emit(
            "x_intdiv",
            "extend",
            ["extend", {"ops": {n1: "%s / 2" % K, n2: "%s %% 2" % K}}],
            ext_schema({n1: ("int", "div"), n2: ("int", "div")}),
            methods=[("/", "e"), ("%", "e")],
        )
    if G is not None:
        emit("x_streq", "extend", ["extend", {"ops": {n1: "%s == 'a'" % G}}], ext_schema({n1: ("bool", tj(G))}), methods=[("==", "e")])
    # extends that CREATE or OVERWRITE a grouping / ordering / key column (the following step gets variants
    # whose structural parameters name that column, see gen_pipelines)
    if K is not None:
        emit(
            "x_newg",
            "extend",
            ["extend", {"ops": {n1: "(%s > 0).if_else('u', 'v')" % K}}],
            ext_schema({n1: ("str", tj(K))}),
            reduced=True,
            methods=[(">", "e"), ("if_else", "e")],
        )
        emit(
            "x_overk",
            "extend",
            ["extend", {"ops": {K: "(%s > 0).if_else(1, 0)" % K}}],
            ext_schema({K: ("int", tj(K))}),
            reduced=True,
            methods=[(">", "e"), ("if_else", "e")],
        )
        if G is not None:
            emit(
                "x_overg",
                "extend",
                ["extend", {"ops": {G: "(%s > 0).if_else('u', 'v')" % K}}],
                ext_schema({G: ("str", tj(K))}),
                methods=[(">", "e"), ("if_else", "e")],
            )
    if A is not None:
        emit(
            "x_newk",
            "extend",
            ["extend", {"ops": {n1: "(%s > 0).if_else(1, 0)" % A}}],
            ext_schema({n1: ("int", tj(A))}),
            methods=[(">", "e"), ("if_else", "e")],
        )

    # ---------------- extend (windowed) ----------------
    def wparams(ops, partition_by=None, order_by=None, reverse=None):
        p = {"ops": ops}
        if partition_by is not None:
            p["partition_by"] = partition_by
        if order_by:
            p["order_by"] = order_by
        if reverse:
            p["reverse"] = reverse
        return p

    if A is not None:
        part = [P] if (P is not None and P != A) else None
        pcols = part or []
        at = st.typ(A)
        emit(
            "w_sum",
            "extend_windowed",
            ["extend", wparams({n1: "%s.sum()" % A}, partition_by=(part or 1))],
            ext_schema({n1: (at, _tjoin("agg0", tj(A)))}),
            rows_cols=pcols,
            reduced=True,
            agg=True,
            methods=[("sum", "g")],
        )
        emit(
            "w_meancount",
            "extend_windowed",
            ["extend", wparams({n1: "%s.mean()" % A, n2: "%s.count()" % A}, partition_by=(part or 1))],
            ext_schema({n1: ("float", tj(A)), n2: ("int", _tjoin("agg0", tj(A)))}),
            rows_cols=pcols,
            agg=True,
            methods=[("mean", "g"), ("count", "g")],
        )
        emit(
            "w_maxmin_all",
            "extend_windowed",
            ["extend", wparams({n1: "%s.max()" % A, n2: "%s.min()" % A}, partition_by=1)],
            ext_schema({n1: (at, tj(A)), n2: (at, tj(A))}),
            methods=[("max", "g"), ("min", "g")],
        )
        emit(
            "w_size",
            "extend_windowed",
            ["extend", wparams({n1: "_size()"}, partition_by=(part or 1))],
            ext_schema({n1: ("int", "agg0")}),
            rows_cols=pcols,
            agg=True,
            methods=[("_size", "g")],
        )
        emit(
            "w_litsum",
            "extend_windowed",
            ["extend", wparams({n1: "(1).sum()"}, partition_by=(part or 1))],
            ext_schema({n1: ("int", "agg0")}),
            rows_cols=pcols,
            agg=True,
            methods=[("sum", "g")],
        )
        ob = [c for c in [A, B] if c not in pcols]
        ob = list(collections.OrderedDict.fromkeys(ob))
        if ob:
            emit(
                "w_rownum",
                "extend_windowed",
                ["extend", wparams({n1: "_row_number()"}, partition_by=(part or 1), order_by=ob)],
                ext_schema({n1: ("int", "")}),
                rows_cols=pcols + ob,
                reduced=True,
                methods=[("_row_number", "w")],
            )
            ob1 = [B] if B not in pcols else ob[:1]
            emit(
                "w_cumsum_rev",
                "extend_windowed",
                ["extend", wparams({n1: "%s.cumsum()" % A}, partition_by=(part or 1), order_by=ob1, reverse=ob1)],
                ext_schema({n1: (at, tj(A))}),
                rows_cols=pcols + ob1,
                methods=[("cumsum", "w")],
            )
            ob2 = list(collections.OrderedDict.fromkeys([B, A]))
            emit(
                "w_shift",
                "extend_windowed",
                ["extend", wparams({n1: "%s.shift()" % A}, partition_by=1, order_by=ob2)],
                ext_schema({n1: (at, tj(A))}),
                rows_cols=ob2,
                methods=[("shift", "w")],
            )
            emit(
                "w_cummaxmin",
                "extend_windowed",
                ["extend", wparams({n1: "%s.cummax()" % A, n2: "%s.cummin()" % A}, partition_by=(part or 1), order_by=ob1)],
                ext_schema({n1: (at, tj(A)), n2: (at, tj(A))}),
                rows_cols=pcols + ob1,
                methods=[("cummax", "w"), ("cummin", "w")],
            )
            if len(ob2) == 2 and not any(c in pcols for c in ob2):
                for tag, mask in (("r1", [ob2[0]]), ("r2", [ob2[1]]), ("r12", list(ob2))):
                    emit(
                        "w_shift_" + tag,
                        "extend_windowed",
                        ["extend", wparams({n1: "%s.shift()" % A}, partition_by=(part or 1), order_by=ob2, reverse=mask)],
                        ext_schema({n1: (at, tj(A))}),
                        rows_cols=pcols + ob2,
                        reduced=(tag == "r1"),
                        methods=[("shift", "w")],
                    )
                emit(
                    "w_shift2_r1",
                    "extend_windowed",
                    ["extend", wparams({n1: "%s.shift(2)" % A}, partition_by=(part or 1), order_by=ob2, reverse=[ob2[0]])],
                    ext_schema({n1: (at, tj(A))}),
                    rows_cols=pcols + ob2,
                    methods=[("shift", "w")],
                )
                for tag, mask in (("r0", []), ("r1", [ob2[0]]), ("r12", list(ob2))):
                    emit(
                        "w_firstlast_" + tag,
                        "extend_windowed",
                        ["extend", wparams({n1: "%s.first()" % A, n2: "%s.last()" % A}, partition_by=(part or 1), order_by=ob2, reverse=mask)],
                        ext_schema({n1: (at, tj(A)), n2: (at, tj(A))}),
                        rows_cols=pcols + ob2,
                        methods=[("first", "w"), ("last", "w")],
                    )
            emit(
                "w_litcumsum",
                "extend_windowed",
                ["extend", wparams({n1: "(1).cumsum()"}, partition_by=(part or 1), order_by=ob1)],
                ext_schema({n1: ("int", "")}),
                rows_cols=pcols + ob1,
                methods=[("cumsum", "w")],
            )
            emit(
                "w_rank",
                "extend_windowed",
                ["extend", wparams({n1: "%s.rank()" % A}, partition_by=(part or 1), order_by=ob1)],
                ext_schema({n1: ("float", tj(A))}),
                rows_cols=pcols + ob1,
                methods=[("rank", "w")],
            )

    # ---------------- project ----------------
    def proj_schema(group_by, assign):
        s = collections.OrderedDict()
        for c in group_by:
            s[c] = st.schema[c]
        for c, tt in assign.items():
            s[c] = tt
        return s

    gb = [P] if P is not None else []
    if A is not None:
        at = st.typ(A)
        gb_a = [c for c in gb if c != A]
        if gb_a:
            emit(
                "p_sum_g",
                "project",
                ["project", {"ops": {n1: "%s.sum()" % A}, "group_by": gb_a}],
                proj_schema(gb_a, {n1: (at, _tjoin("agg0", tj(A)))}),
                rows_cols=gb_a,
                reduced=True,
                agg=True,
                methods=[("sum", "p")],
            )
            emit(
                "p_stats_g",
                "project",
                ["project", {"ops": {n1: "%s.mean()" % A, n2: "%s.min()" % A, n3: "%s.max()" % B}, "group_by": gb_a}],
                proj_schema(gb_a, {n1: ("float", tj(A)), n2: (at, tj(A)), n3: (st.typ(B), tj(B))}),
                rows_cols=gb_a,
                methods=[("mean", "p"), ("min", "p"), ("max", "p")],
            )
            gb2 = list(collections.OrderedDict.fromkeys([c for c in [G, K] if c is not None and c != A]))
            emit(
                "p_count_gk",
                "project",
                ["project", {"ops": {n1: "%s.count()" % A, n2: "_size()"}, "group_by": gb2}],
                proj_schema(gb2, {n1: ("int", _tjoin("agg0", tj(A))), n2: ("int", "agg0")}),
                rows_cols=gb2,
                agg=True,
                methods=[("count", "p"), ("_size", "p")],
            )
        if gb_a:
            emit(
                "p_litsum_g",
                "project",
                ["project", {"ops": {n1: "(1).sum()", n2: "%s.max()" % A}, "group_by": gb_a}],
                proj_schema(gb_a, {n1: ("int", "agg0"), n2: (at, tj(A))}),
                rows_cols=gb_a,
                agg=True,
                methods=[("sum", "p"), ("max", "p")],
            )
        emit(
            "p_sum_all",
            "project",
            ["project", {"ops": {n1: "%s.sum()" % A}, "group_by": []}],
            proj_schema([], {n1: (at, _tjoin("agg0", tj(A)))}),
            reduced=True,
            agg=True,
            methods=[("sum", "p")],
        )
        emit(
            "p_sizemax_all",
            "project",
            ["project", {"ops": {n1: "_size()", n2: "%s.max()" % A}, "group_by": []}],
            proj_schema([], {n1: ("int", "agg0"), n2: (at, tj(A))}),
            agg=True,
            methods=[("_size", "p"), ("max", "p")],
        )
        emit(
            "p_size_only",  # an aggregate that reads NO column: the step asks nothing of its source, which still needs its own keys / filters
            "project",
            ["project", {"ops": {n1: "_size()"}, "group_by": []}],
            proj_schema([], {n1: ("int", "agg0")}),
            reduced=True,
            agg=True,
            methods=[("_size", "p")],
        )
        if K is not None and K != A and [K] != gb_a:
            emit(
                "p_size_k",
                "project",
                ["project", {"ops": {n1: "%s.size()" % A}, "group_by": [K]}],
                proj_schema([K], {n1: ("int", "agg0")}),
                rows_cols=[K],
                agg=True,
                methods=[("size", "p")],
            )
    if gb:
        emit("p_distinct", "project", ["project", {"ops": {}, "group_by": gb}], proj_schema(gb, {}), rows_cols=gb)

    # ---------------- select_rows ----------------
    if A is not None:
        emit("s_gt", "select_rows", ["select_rows", {"expr": "%s > 0" % A}], st.schema, rows_cols=[A], reduced=True, methods=[(">", "e")])
        emit("s_isnull", "select_rows", ["select_rows", {"expr": "%s.is_null()" % A}], st.schema, rows_cols=[A], methods=[("is_null", "e")])
        emit(
            "s_and",
            "select_rows",
            ["select_rows", {"expr": "(%s > 0) and (%s <= 1)" % (A, B)}],
            st.schema,
            rows_cols=[A, B],
            methods=[(">", "e"), ("<=", "e"), ("and", "e")],
        )
        if A != B:
            emit("s_eqcols", "select_rows", ["select_rows", {"expr": "%s == %s" % (A, B)}], st.schema, rows_cols=[A, B], methods=[("==", "e")])
    if A is not None:
        emit(
            "s_nest",
            "select_rows",
            ["select_rows", {"expr": "(%s - (%s - 1)) > 0" % (A, B)}],
            st.schema,
            rows_cols=[A, B],
            methods=[("-", "e"), (">", "e")],
        )
    if G is not None:
        emit("s_streq", "select_rows", ["select_rows", {"expr": "%s == 'a'" % G}], st.schema, rows_cols=[G], reduced=True, methods=[("==", "e")])

    # ---------------- select / drop / rename / map columns ----------------
    def sub_schema(keep):
        return collections.OrderedDict((c, st.schema[c]) for c in keep)

    if len(cols) >= 2:
        emit("c_rev2", "select_columns", ["select_columns", {"columns": [cols[-1], cols[0]]}], sub_schema([cols[-1], cols[0]]), reduced=True)
    one = A if A is not None else cols[0]
    if len(cols) >= 2:
        emit("c_one", "select_columns", ["select_columns", {"columns": [one]}], sub_schema([one]))
    if len(cols) >= 3:
        emit("c_allrev", "select_columns", ["select_columns", {"columns": list(reversed(cols))}], sub_schema(list(reversed(cols))))
    if len(cols) >= 2:
        emit("d_one", "drop_columns", ["drop_columns", {"columns": [one]}], sub_schema([c for c in cols if c != one]), reduced=True)
    if len(cols) >= 3:
        emit("d_nonkey", "drop_columns", ["drop_columns", {"columns": cols[1:]}], sub_schema(cols[:1]))

    def renamed(mapping_old_to_new, deletions=()):
        s = collections.OrderedDict()
        for c in cols:
            if c in deletions:
                continue
            s[mapping_old_to_new.get(c, c)] = st.schema[c]
        return s

    emit("r_one", "rename_columns", ["rename_columns", {"map": {n1: one}}], renamed({one: n1}), reduced=True)
    if A is not None and A != B:
        emit("r_swap", "rename_columns", ["rename_columns", {"map": {A: B, B: A}}], renamed({A: B, B: A}))
    emit("m_one", "map_columns", ["map_columns", {"map": {one: n1}}], renamed({one: n1}))
    if A is not None and A != B:
        emit("m_del", "map_columns", ["map_columns", {"map": {A: n1, B: None}}], renamed({A: n1}, deletions=(B,)), reduced=True)
        emit("m_swap", "map_columns", ["map_columns", {"map": {A: B, B: A}}], renamed({A: B, B: A}))

    # ---------------- order_rows ----------------
    emit("o_one", "order_rows", ["order_rows", {"columns": [one], "reverse": [], "limit": None}], st.schema, rows_cols=[one], reduced=True)
    if P is not None and A is not None and P != A:
        emit("o_two_rev", "order_rows", ["order_rows", {"columns": [P, A], "reverse": [A], "limit": None}], st.schema, rows_cols=[P, A])
    emit("o_lim", "order_rows", ["order_rows", {"columns": [one], "reverse": [], "limit": 2}], st.schema, rows_cols=[one], reduced=True)
    if A is not None and A != B:
        emit("o_two_lim_rev", "order_rows", ["order_rows", {"columns": [B, A], "reverse": [B], "limit": 1}], st.schema, rows_cols=[A, B])
    emit("o_all_lim", "order_rows", ["order_rows", {"columns": list(cols), "reverse": [], "limit": 2}], st.schema, rows_cols=list(cols))
    emit("o_lim0", "order_rows", ["order_rows", {"columns": [one], "reverse": [], "limit": 0}], st.schema, rows_cols=[one], reduced=True)
    emit("o_lim_big", "order_rows", ["order_rows", {"columns": [one], "reverse": [one], "limit": 10}], st.schema, rows_cols=[one])

    # ---------------- two-table operators ----------------
    if two_table:

        def join_schema(tname, on_pairs):
            s = collections.OrderedDict(st.schema)
            for c, t in SCHEMAS[tname].items():
                if c in s:
                    s[c] = (s[c][0], s[c][1])
                else:
                    s[c] = (t, "")
            return s

        KJ = "k" if ("k" in st.schema and st.typ("k") == "int") else K
        if R.get("KJ") is not None:
            KJ = R["KJ"]
        if KJ is not None:
            for jt in ("inner", "left", "right", "full"):
                if KJ == "k" and "z" not in st.schema:
                    emit(
                        "j_%s_e" % jt,
                        "natural_join",
                        ["natural_join", {"b": {"table": "e"}, "on": ["k"], "jointype": jt}],
                        join_schema("e", [("k", "k")]),
                        rows_cols=["k"],
                        reduced=(jt in ("left", "full")),
                    )
                if "k2" not in st.schema and "z" not in st.schema:
                    emit(
                        "j_%s_h" % jt,
                        "natural_join",
                        ["natural_join", {"b": {"table": "h"}, "on": [[KJ, "k2"]], "jointype": jt}],
                        join_schema("h", [(KJ, "k2")]),
                        rows_cols=[KJ],
                        reduced=(jt == "right"),
                    )
            if KJ == "k":
                for jt in ("left", "full", "inner", "right"):
                    emit(
                        "j_%s_c" % jt,
                        "natural_join",
                        ["natural_join", {"b": {"table": "c"}, "on": ["k"], "jointype": jt}],
                        join_schema("c", [("k", "k")]),
                        rows_cols=["k"],
                        **({"reduced": True} if jt in ("inner", "right") else {}),
                    )
        if "k2" not in st.schema and "z" not in st.schema:
            emit(
                "j_cross_h",
                "natural_join",
                ["natural_join", {"b": {"table": "h"}, "on": [], "jointype": "cross"}],
                join_schema("h", []),
                reduced=True,
            )
        if "src" not in st.schema:
            s = collections.OrderedDict(st.schema)
            s["src"] = ("str", "")
            emit(
                "u_f",
                "concat_rows",
                ["concat_rows", {"b": {"prefix_on": "f"}, "id_column": "src", "a_name": "a", "b_name": "b"}],
                s,
                reduced=True,
            )
        emit("u_self", "concat_rows", ["concat_rows", {"b": "self", "id_column": None, "a_name": "a", "b_name": "b"}], st.schema)

    # ---------------- convert_records ----------------
    if F is not None and F2 is not None and "nk" not in st.schema and "nv" not in st.schema:
        rk = [K] if K is not None else [c for c in cols if c not in (F, F2)][:1]
        s = collections.OrderedDict((c, st.schema[c]) for c in rk)
        s["nk"] = ("str", "")
        s["nv"] = ("float", _tjoin(st.taint(F), st.taint(F2)))
        emit(
            "v_unpivot",
            "convert_records",
            ["convert_records", {"kind": "rowrecs_to_blocks", "key_col": "nk", "val_col": "nv", "record_keys": rk, "value_cols": [F, F2]}],
            s,
            rows_cols=rk,
            reduced=True,
        )
    if G is not None and K is not None and F is not None and "a" not in st.schema and "b" not in st.schema:
        s = collections.OrderedDict([(K, st.schema[K])])
        s["a"] = ("float", st.taint(F))
        s["b"] = ("float", st.taint(F))
        emit(
            "v_pivot",
            "convert_records",
            ["convert_records", {"kind": "blocks_to_rowrecs", "key_col": G, "val_col": F, "record_keys": [K], "value_cols": ["a", "b"]}],
            s,
            rows_cols=[K, G],
        )
    return out


_FOCUS_REDUCED = {"w_sum", "w_rownum", "p_sum_g", "o_lim", "s_gt", "s_streq", "j_left_e"}


def _mentions_structurally(step, c: str) -> bool:
    """Does a STRUCTURAL column parameter of the step (not a value expression of an extend/project) name c?"""
    import re

    op, p = step
    if op == "extend":
        part = p.get("partition_by")
        cols = (list(part) if isinstance(part, list) else []) + list(p.get("order_by") or []) + list(p.get("reverse") or [])
        return c in cols
    if op == "project":
        return c in (p.get("group_by") or [])
    if op == "select_rows":
        return re.search(r"\b%s\b" % re.escape(c), p["expr"]) is not None
    if op in ("select_columns", "drop_columns", "order_rows"):
        return c in p["columns"]
    if op in ("rename_columns", "map_columns"):
        return c in p["map"] or c in p["map"].values()
    if op == "natural_join":
        return any(c == o or (isinstance(o, (list, tuple)) and c in o) for o in p["on"])
    if op == "convert_records":
        return c in p["record_keys"] or c in (p["key_col"], p["val_col"]) or c in p["value_cols"]
    return False


def initial_state(table: str = "d") -> _State:
    return _State(collections.OrderedDict((c, (t, "")) for c, t in SCHEMAS[table].items()))


def gen_pipelines(
    depth: int,
    tier: str = "quick",
    two_table: bool = False,
    backends: Sequence[str] = ("Pandas", "SQLiteModel"),
    reduced: Optional[bool] = None,
) -> Iterator[Dict[str, Any]]:
    """Yield picklable specs of all chains of exactly `depth` operators applied to table d.

    The per-operator parameter grid is a function of the static schema reached so far (typed
    generation: only pipelines the builder accepts are produced).  Expression methods are restricted
    to those op_catalog.methods_table (read live) marks 'y' for every back end in `backends`.
    depth <= 2 uses the full grid (all operator pairs), depth >= 3 the reduced grid (reduced=True
    forces it).  two_table adds natural_join / concat_rows variants.

    Each yielded spec also carries static analysis results under "meta":
      ids        variant ids of the steps (stable names, used in finding keys and reports)
      schema     {column: [type, taint]} of the result (taint: '' | 'agg0' | 'aggd' | 'div')
      rows_div   a column produced by integer `/` or `%` feeds a row-affecting position
      rows_agg   a sum/count-family output feeds a row-affecting position
      agg_steps  indices of steps that compute sum/count-family aggregates"""
    if reduced is None:
        reduced = depth >= 3

    def rec(st: _State, steps, ids):
        if len(steps) == depth:
            yield {
                "table": "d",
                "steps": steps,
                "meta": {
                    "ids": ids,
                    "schema": {c: list(tt) for c, tt in st.schema.items()},
                    "rows_div": st.rows_div,
                    "rows_agg": st.rows_agg,
                    "agg_steps": list(st.agg_steps),
                },
            }
            return
        vs = _variants(st, len(steps), two_table, backends)
        seen_steps = set(json.dumps(v["step"], sort_keys=True) for v in vs)
        # structural parameters naming a column the immediately preceding extend created / overwrote
        for c, kind in list(st.fresh_cols.items())[:3]:
            t = st.typ(c) if c in st.schema else None
            base = st.roles()
            if t == "str":
                ov = {"G": c, "P": c}
            elif t == "int":
                ov = {"K": c, "P": c, "KJ": c}
            elif t == "float":
                ov = {"A": c, "F": c}
                if base["B"] == c:
                    ov["B"] = base["A"]
                if base["F2"] == c:
                    ov["F2"] = base["F"]
            else:
                continue
            for v in _variants(st, len(steps), two_table, backends, override=ov, suffix="@%s:%s" % (kind, c)):
                key = json.dumps(v["step"], sort_keys=True)
                if key in seen_steps or not _mentions_structurally(v["step"], c):
                    continue
                seen_steps.add(key)
                v["r"] = v["r"] and v["id"].split("@")[0] in _FOCUS_REDUCED
                vs.append(v)
        for v in vs:
            if reduced and not v["r"]:
                continue
            yield from rec(v["state"], steps + [v["step"]], ids + [v["id"]])

    yield from rec(initial_state("d"), [], [])


def prefix_spec(spec: Dict[str, Any], n: int, table: Optional[str] = None) -> Dict[str, Any]:
    """The pipeline consisting of the first n steps (optionally re-rooted on another table)."""
    return {"table": table or spec["table"], "steps": [s for s in spec["steps"][:n]]}


def spec_tables(spec: Dict[str, Any]) -> List[str]:
    """Names of all tables the pipeline reads (in first-use order)."""
    names = [spec["table"]]
    for i, (op, p) in enumerate(spec["steps"]):
        b = p.get("b") if isinstance(p, dict) else None
        if isinstance(b, dict):
            if "table" in b:
                names.append(b["table"])
            elif "prefix_on" in b:
                names += spec_tables(prefix_spec(spec, i, table=b["prefix_on"]))
    return list(collections.OrderedDict.fromkeys(names))


def _record_map(p):
    import data_algebra.cdata

    f = data_algebra.cdata.pivot_rowrecs_to_blocks if p["kind"] == "rowrecs_to_blocks" else data_algebra.cdata.pivot_blocks_to_rowrecs
    return f(
        attribute_key_column=p["key_col"],
        attribute_value_column=p["val_col"],
        record_keys=list(p["record_keys"]),
        record_value_columns=list(p["value_cols"]),
    )


def build(
    spec: Dict[str, Any],
    leaf: Optional[Callable[[str, List[str]], Any]] = None,
    upto: Optional[int] = None,
    trace: Optional[List[Any]] = None,
):
    """Rebuild the data_algebra pipeline described by `spec` (first `upto` steps if given).
    leaf(name, column_names) may supply the table nodes (e.g. data_algebra.data(...) for ex()).
    trace: if a list is given, the pipeline object after each step is appended to it."""
    from data_algebra import TableDescription

    def mk_leaf(name):
        if leaf is not None:
            return leaf(name, list(SCHEMAS[name].keys()))
        return TableDescription(table_name=name, column_names=list(SCHEMAS[name].keys()))

    steps = spec["steps"] if upto is None else spec["steps"][:upto]
    ops = mk_leaf(spec["table"])
    for i, (op, p) in enumerate(steps):
        if op == "extend":
            ops = ops.extend(dict(p["ops"]), partition_by=p.get("partition_by"), order_by=p.get("order_by"), reverse=p.get("reverse"))
        elif op == "project":
            ops = ops.project(dict(p["ops"]), group_by=list(p.get("group_by") or []))
        elif op == "select_rows":
            ops = ops.select_rows(p["expr"])
        elif op == "select_columns":
            ops = ops.select_columns(list(p["columns"]))
        elif op == "drop_columns":
            ops = ops.drop_columns(list(p["columns"]))
        elif op == "rename_columns":
            ops = ops.rename_columns(dict(p["map"]))
        elif op == "map_columns":
            ops = ops.map_columns(dict(p["map"]))
        elif op == "order_rows":
            ops = ops.order_rows(list(p["columns"]), reverse=list(p.get("reverse") or []), limit=p.get("limit"))
        elif op in ("natural_join", "concat_rows"):
            b = p["b"]
            if b == "self":
                bops = ops
            elif "table" in b:
                bops = mk_leaf(b["table"])
            else:
                bops = build(prefix_spec(spec, i, table=b["prefix_on"]), leaf=leaf)
            if op == "natural_join":
                on = [tuple(o) if isinstance(o, (list, tuple)) else o for o in p["on"]]
                ops = ops.natural_join(bops, on=on, jointype=p["jointype"])
            else:
                ops = ops.concat_rows(bops, id_column=p.get("id_column"), a_name=p.get("a_name", "a"), b_name=p.get("b_name", "b"))
        elif op == "convert_records":
            ops = ops.convert_records(_record_map(p))
        else:
            raise ValueError("unknown operator in spec: %r" % (op,))
        if trace is not None:
            trace.append(ops)
    return ops


def describe(spec: Dict[str, Any]) -> str:
    """One-line Python-like rendering of a spec (for `what:` lines and witnesses)."""
    parts = ["%s" % spec["table"]]
    for op, p in spec["steps"]:
        if op == "extend":
            extra = "".join(", %s=%r" % (k, p[k]) for k in ("partition_by", "order_by", "reverse") if p.get(k))
            parts.append(".extend(%r%s)" % (p["ops"], extra))
        elif op == "project":
            parts.append(".project(%r, group_by=%r)" % (p["ops"], p.get("group_by") or []))
        elif op == "select_rows":
            parts.append(".select_rows(%r)" % p["expr"])
        elif op in ("select_columns", "drop_columns"):
            parts.append(".%s(%r)" % (op, p["columns"]))
        elif op in ("rename_columns", "map_columns"):
            parts.append(".%s(%r)" % (op, p["map"]))
        elif op == "order_rows":
            parts.append(".order_rows(%r, reverse=%r, limit=%r)" % (p["columns"], p.get("reverse") or [], p.get("limit")))
        elif op == "natural_join":
            b = p["b"]
            bs = "self" if b == "self" else (b.get("table") or ("<same steps on %s>" % b["prefix_on"]))
            parts.append(".natural_join(%s, on=%r, jointype=%r)" % (bs, p["on"], p["jointype"]))
        elif op == "concat_rows":
            b = p["b"]
            bs = "self" if b == "self" else (b.get("table") or ("<same steps on %s>" % b["prefix_on"]))
            parts.append(".concat_rows(%s, id_column=%r)" % (bs, p.get("id_column")))
        elif op == "convert_records":
            parts.append(".convert_records(%s keys=%r values=%r key_col=%r val_col=%r)" % (p["kind"], p["record_keys"], p["value_cols"], p["key_col"], p["val_col"]))
    return "".join(parts)


def last_order_step(spec: Dict[str, Any]) -> Optional[Dict[str, Any]]:
    """Parameters of the final step if it is order_rows, else None."""
    if spec["steps"] and spec["steps"][-1][0] == "order_rows":
        return spec["steps"][-1][1]
    return None


# --------------------------------------------------------------------------------------------------
# data-dependent preconditions (documented requirements of operators, checked on the data)
# --------------------------------------------------------------------------------------------------


def group_rows(cols: Sequence[str], rows: Sequence[Sequence[Any]], by: Sequence[str]) -> Dict[Tuple, List[Tuple]]:
    """Partition rows by the values of `by` (nulls form a group of their own; numeric 1 == 1.0 == True)."""
    idx = [list(cols).index(c) for c in by]
    groups: Dict[Tuple, List[Tuple]] = collections.OrderedDict()
    for r in rows:
        k = tuple(_cell_key(r[i]) for i in idx)
        groups.setdefault(k, []).append(tuple(r))
    return groups


def window_order_is_total(cols, rows, partition_by, order_by) -> bool:
    """True iff within every partition no two rows agree on all order_by columns (nulls equal)."""
    for g in group_rows(cols, rows, list(partition_by or [])).values():
        ks = [tuple(_cell_key(r[list(cols).index(c)]) for c in order_by) for r in g]
        if len(set(ks)) != len(ks):
            return False
    return True


def records_precondition(cols, rows, p: Dict[str, Any]) -> Tuple[bool, str]:
    """Documented requirements of convert_records on its input, checked on the data:
    rowrecs_to_blocks: rows uniquely keyed by record_keys, no null keys;
    blocks_to_rowrecs: uniquely keyed by record_keys + key column, no null keys, and every record has
    exactly one row for each of the value names (complete blocks, no other key values)."""
    cols = list(cols)
    rk = list(p["record_keys"])
    ik = [cols.index(c) for c in rk]
    if p["kind"] == "rowrecs_to_blocks":
        keys = [tuple(r[i] for i in ik) for r in rows]
        if any(v is None for k in keys for v in k):
            return False, "null record key"
        if len(set(map(row_sort_key, keys))) != len(keys):
            return False, "rows not keyed by record_keys"
        return True, ""
    ia = cols.index(p["key_col"])
    want = sorted(p["value_cols"])
    by_rec: Dict[Tuple, List[Any]] = {}
    for r in rows:
        k = tuple(r[i] for i in ik)
        if any(v is None for v in k) or r[ia] is None:
            return False, "null key"
        by_rec.setdefault(row_sort_key(k), []).append(r[ia])
    for k, names in by_rec.items():
        if sorted(map(str, names)) != want:
            return False, "incomplete or duplicated block"
    return True, ""


# --------------------------------------------------------------------------------------------------
# utilities
# --------------------------------------------------------------------------------------------------


def _plain(x):
    if isinstance(x, dict):
        return {str(k): _plain(v) for k, v in sorted(x.items(), key=lambda kv: str(kv[0])) if k != "meta"}
    if isinstance(x, (list, tuple)):
        return [_plain(v) for v in x]
    if isinstance(x, float) and x != x:
        return None
    return x


def spec_hash(spec: Dict[str, Any]) -> str:
    return hashlib.sha256(json.dumps(_plain(spec), sort_keys=True).encode()).hexdigest()[:8]


def case_hash(case: Dict[str, Any]) -> str:
    """8-hex hash of a stored case (spec + data + mode), used for `CNN:unclassified:<hash>` keys."""
    return hashlib.sha256(json.dumps(_plain(case), sort_keys=True, default=repr).encode()).hexdigest()[:8]


def n_workers() -> int:
    """Worker processes per check: at most 6 (VERIF_WORKERS may lower or raise the cap up to 16)."""
    cap = 6
    try:
        cap = max(1, min(16, int(os.environ.get("VERIF_WORKERS", "6"))))
    except ValueError:
        pass
    return max(1, min(cap, os.cpu_count() or 1))


def run_parallel(worker: Callable[[Any], Any], jobs: Sequence[Any], chunksize: int = 8) -> List[Any]:
    """Map a top-level worker over plain-data jobs with a ProcessPoolExecutor, preserving order.
    VERIF_SERIAL=1 runs in-process (debugging)."""
    jobs = list(jobs)
    if os.environ.get("VERIF_SERIAL") == "1" or len(jobs) <= 1:
        return [worker(j) for j in jobs]
    import concurrent.futures
    import multiprocessing

    ctx = multiprocessing.get_context("spawn")
    with concurrent.futures.ProcessPoolExecutor(max_workers=n_workers(), mp_context=ctx) as ex:
        return list(ex.map(worker, jobs, chunksize=chunksize))


def shard(seq: Sequence[Any], n: int) -> List[List[Any]]:
    """Split into n interleaved shards (deterministic)."""
    n = max(1, n)
    return [list(seq[i::n]) for i in range(n)]


# --------------------------------------------------------------------------------------------------
# per-case helpers shared by the pipeline checks
# --------------------------------------------------------------------------------------------------


EXTRA_COL = "zz_extra"


def _widen(table: Dict[str, List[Any]], schema: Dict[str, str]) -> Tuple[Dict[str, List[Any]], Dict[str, str]]:
    """The same table with one UNDECLARED extra column in front and the declared columns in reversed
    order (TableDescriptions keep describing the declared columns only; eval(strict=False) accepts it)."""
    n = len(next(iter(table.values()))) if table else 0
    wschema = collections.OrderedDict([(EXTRA_COL, "int")] + [(c, schema[c]) for c in reversed(list(schema))])
    wtable = dict(table)
    wtable[EXTRA_COL] = [7] * n
    return wtable, wschema


def pandas_frames(spec: Dict[str, Any], data: Dict[str, Dict[str, List[Any]]], wide: bool = False) -> Dict[str, pandas.DataFrame]:
    """Fresh pandas frames for exactly the tables `spec` reads (wide: extra column + permuted order)."""
    if wide:
        return {t: to_pandas(*_widen(data[t], SCHEMAS[t])) for t in spec_tables(spec)}
    return {t: to_pandas(data[t], SCHEMAS[t]) for t in spec_tables(spec)}


def polars_frames(spec: Dict[str, Any], data: Dict[str, Dict[str, List[Any]]], lazy: bool = False, wide: bool = False) -> Dict[str, Any]:
    if wide:
        return {t: to_polars(*_widen(data[t], SCHEMAS[t]), lazy=lazy) for t in spec_tables(spec)}
    return {t: to_polars(data[t], SCHEMAS[t], lazy=lazy) for t in spec_tables(spec)}


class PrefixCache:
    """Real evaluation of pipeline prefixes on a back end ('pandas', 'sqlite', 'polars'), cached.
    Used to check data-dependent preconditions on what each back end actually feeds into a step."""

    def __init__(self, spec, data, keep_nan: bool = False):
        self.spec = spec
        self.data = data
        self.keep_nan = keep_nan  # keep Polars NaN values distinct from null in the canonical rows
        self._cache: Dict[Tuple[int, str, str], Any] = {}

    def rows(self, n: int, root: Optional[str] = None, backend: str = "pandas"):
        """('ok', cols, rows) or ('raise', type, msg) of the first n steps evaluated on `backend`."""
        root = root or self.spec["table"]
        key = (n, root, backend)
        if key not in self._cache:
            ps = prefix_spec(self.spec, n, table=root)
            ops = build(ps)
            if backend == "pandas":
                out = run_pandas(ops, pandas_frames(ps, self.data))
            elif backend == "sqlite":
                out = run_sqlite(ops, pandas_frames(ps, self.data))
            elif backend == "polars":
                out = run_polars(ops, polars_frames(ps, self.data))
            else:
                raise ValueError(backend)
            if out[0] == "ok":
                c, r = canon_rows(out[1], keep_nan=(self.keep_nan and backend == "polars"))
                self._cache[key] = ("ok", c, r)
            else:
                self._cache[key] = out
        return self._cache[key]

    def roots_for(self, n: int) -> List[str]:
        """Tables on which the first n steps get evaluated inside the full pipeline (the main table
        plus `prefix_on` partners of later concat steps)."""
        roots = [self.spec["table"]]
        for i, (op, p) in enumerate(self.spec["steps"]):
            b = p.get("b") if isinstance(p, dict) else None
            if isinstance(b, dict) and "prefix_on" in b and i >= n:
                roots.append(b["prefix_on"])
        return roots


_AGG_RE = None


def _agg_terms(ops: Dict[str, str]) -> List[Tuple[str, str, Optional[str]]]:
    """[(output column, method, argument column or None)] for sum/count-family terms of a step."""
    import re

    global _AGG_RE
    if _AGG_RE is None:
        _AGG_RE = re.compile(r"^\(?(\w+)\)?\.(\w+)\(\)$")
    out = []
    for k, e in ops.items():
        e = e.strip()
        if e in ("_size()", "_count()"):
            out.append((k, e[:-2], None))
            continue
        m = _AGG_RE.match(e)
        if m and m.group(2) in AGG_FAMILY:
            out.append((k, m.group(2), m.group(1)))
    return out


def limit_cut_is_determined(cols, rows, order_cols, reverse, limit) -> bool:
    """For order_rows(limit=n) NOT at the end of a pipeline: is the selected multiset of rows the same
    whatever the tie-breaking and whatever the null placement?  True iff under both null placements
    (first / last) the rows on either side of the cut do not tie on the order key (or there is no cut)."""
    if limit is None or len(rows) <= limit:
        return True
    import functools

    descs = [c in set(reverse or []) for c in order_cols]
    for nf_all in (False, True):
        nf = [nf_all] * len(descs)
        keys = key_sequence(cols, rows, order_cols)
        srt = sorted(keys, key=functools.cmp_to_key(lambda a, b: cmp_keys(a, b, descs, nf)))
        if limit > 0 and cmp_keys(srt[limit - 1], srt[limit], descs, nf) == 0:
            return False
    return True


def data_preconditions(
    spec: Dict[str, Any],
    pc: PrefixCache,
    need_total_windows: bool = True,
    backends: Sequence[str] = ("pandas",),
) -> Tuple[Optional[str], Dict[str, Any]]:
    """Check the data-dependent side conditions of a case on what each back end in `backends` really
    feeds into the step concerned (real evaluation of the prefix on that back end).

    Returns (skip_reason or None, info).  skip reasons (the case's result is not determined, or a
    documented requirement of an operator is not met by the data):
      'window-order-not-total'  an ordered window's order_by does not determine the row order within a
                                partition (ties; nulls count as equal values)
      'limit-cut-through-ties'  an order_rows(limit=n) in the MIDDLE of the chain cuts through rows with
                                equal order keys: which rows survive is not determined
      'records-precondition'    convert_records input violates its documented keying requirements
    A prefix that raises on a back end is skipped here: the full pipeline then raises on that back end
    too and is handled by the caller as a raise.
    info['agg_affected']  some sum/count-family aggregate ranges (on some back end) over a group without
                          non-null values (the documented convention region of C01)
    info['null_window_order'] an ordered window has a null in an order_by column"""
    info = {"agg_affected": False, "null_window_order": False}
    nsteps = len(spec["steps"])
    for i, (op, p) in enumerate(spec["steps"]):
        need = None
        if op == "extend" and p.get("order_by"):
            need = "window"
        elif op == "convert_records":
            need = "records"
        elif op == "order_rows" and p.get("limit") is not None and i < nsteps - 1:
            need = "limit"
        elif op in ("extend", "project") and _agg_terms(p.get("ops", {})) and (op == "project" or p.get("partition_by") is not None):
            need = "agg"
        if need is None:
            continue
        for backend in backends:
            for root in pc.roots_for(i):
                pr = pc.rows(i, root, backend)
                if pr[0] != "ok":
                    continue
                _, cols, rows = pr
                if need == "window":
                    part = p.get("partition_by")
                    part = [] if (part is None or part == 1) else list(part)
                    if need_total_windows and not window_order_is_total(cols, rows, part, p["order_by"]):
                        return "window-order-not-total", info
                    idx = [cols.index(c) for c in p["order_by"]]
                    if any(r[j] is None for r in rows for j in idx):
                        info["null_window_order"] = True
                if need == "limit":
                    if not limit_cut_is_determined(cols, rows, p["columns"], p.get("reverse"), p["limit"]):
                        return "limit-cut-through-ties", info
                if need == "records":
                    ok, why = records_precondition(cols, rows, p)
                    if not ok:
                        return "records-precondition", info
                if need in ("agg", "window") and _agg_terms(p.get("ops", {})):
                    if op == "project":
                        by = list(p.get("group_by") or [])
                    else:
                        part = p.get("partition_by")
                        by = [] if (part is None or part == 1) else list(part)
                    groups = group_rows(cols, rows, by)
                    if op == "project" and not by and len(rows) == 0:
                        info["agg_affected"] = True
                    for _, meth, arg in _agg_terms(p["ops"]):
                        if arg is None or meth == "size" or arg not in cols:
                            continue
                        j = cols.index(arg)
                        if any(all(r[j] is None for r in g) for g in groups.values()):
                            info["agg_affected"] = True
    return None, info


def pick_data(n_pool: int, spec_index: int, per_spec: int, seed: int) -> List[int]:
    """Deterministic choice of `per_spec` data set indices for the spec_index-th pipeline: data set 0
    (all tables empty) for every third pipeline, the rest walks through the pool with a stride
    coprime to its length, rotated by seed."""
    out = []
    if spec_index % 3 == 0:
        out.append(0)
    stride = 7
    while math.gcd(stride, max(1, n_pool - 1)) != 1:
        stride += 2
    j = 0
    while len(out) < min(per_spec, n_pool):
        idx = 1 + ((spec_index * 5 + seed * 11 + j * stride) % (n_pool - 1))
        j += 1
        if idx not in out:
            out.append(idx)
    return out


def sort_violations(rep) -> None:
    """Order rep.violations so that the first violation of each finding key (the one vlib.core stores as
    the replay witness) is the simplest: fewest keys in its case, fewest steps, least data."""

    def weight(v):
        case = v.replay.get("case", {})
        spec = case.get("spec", {})
        data = case.get("data", {})
        cells = sum(len(col) for t in data.values() for col in t.values()) if isinstance(data, dict) else 0
        return (v.replay.get("n_keys", 1), len(spec.get("steps", [])), len(data) if isinstance(data, dict) else 0, cells, v.key, v.what)

    rep.violations.sort(key=weight)
