"""C15 (bounded): results do not depend on how tables and columns are named.

Contract on the REAL executors (Pandas `ops.eval`, Polars `ops.eval`, SQLite `read_query(ops)`):

    for every pipeline p, every input name n of p (a column name of its input tables, renamed in every table
    that has it, or a table name) and every name N the library itself uses internally (harvested from the
    CURRENT source on every run: cbc.oracles_c.harvest_internal_names):
        p' = p with n consistently renamed to N,  data' = data with n renamed to N
        post:  backend(p', data') == backend(p, data) with the result column n renamed to N     (same backend)
               (or both raise the same exception type)
"""
from __future__ import annotations

import collections
import copy
import json
import keyword as pykeyword
import re
import sys
import time
import traceback
from typing import Any, Dict, List, Optional, Tuple

from vlib.core import Report, Violation
from cbc import common as C
from cbc import oracles_c as O
from cbc.c07 import _conv_steps

PID = "C15"
BACKENDS = ("Pandas", "SQLiteModel")
EXEC = ("pandas", "polars", "sqlite")

FUNCTIONS_UNDER_CONTRACT = [
    {"file": "data_algebra/pandas_base.py", "function": "PandasModelBase._extend_step"},
    {"file": "data_algebra/pandas_base.py", "function": "PandasModelBase._project_step"},
    {"file": "data_algebra/pandas_base.py", "function": "PandasModelBase._natural_join_step"},
    {"file": "data_algebra/polars_model.py", "function": "PolarsModel.*_step"},
    {"file": "data_algebra/sql_model.py", "function": "SQLModel.*_to_near_sql"},
    {"file": "data_algebra/near_sql.py", "function": "NearSQL*"},
    {"file": "data_algebra/SQLite.py", "function": "SQLiteModel.natural_join_to_near_sql"},
    {"file": "data_algebra/db_model.py", "function": "DBHandle.read_query"},
]

# --------------------------------------------------------------------------------------------------
# renaming
# --------------------------------------------------------------------------------------------------


def to_pipe_spec(chain: Dict[str, Any]) -> Dict[str, Any]:
    return {"table": chain["table"], "cols": list(C.SCHEMAS[chain["table"]].keys()), "steps": _conv_steps(chain["steps"], 0, len(chain["steps"]))}


def _sub_ident(text: str, cmap: Dict[str, str]) -> str:
    for old, new in cmap.items():
        text = re.sub(r"(?<![A-Za-z0-9_.'\"])" + re.escape(old) + r"(?![A-Za-z0-9_'\"(])", new, text)
    return text


def rename_spec(spec: Dict[str, Any], cmap: Dict[str, str], tmap: Dict[str, str]) -> Dict[str, Any]:
    """apply a column renaming (by name, in every table) and a table renaming to a build_pipe spec"""

    def nm(x):
        return cmap.get(x, x) if isinstance(x, str) else x

    def names(x):
        if isinstance(x, list):
            return [names(v) for v in x]
        return nm(x)

    out = {"table": tmap.get(spec["table"], spec["table"]), "cols": [nm(c) for c in spec["cols"]], "steps": []}
    for op, p in spec["steps"]:
        q = {}
        for k, v in p.items():
            if k == "ops":
                q[k] = {nm(kk): (_sub_ident(vv, cmap) if isinstance(vv, str) else vv) for kk, vv in v.items()}
            elif k == "expr":
                q[k] = _sub_ident(v, cmap) if isinstance(v, str) else [_sub_ident(e, cmap) for e in v]
            elif k == "b":
                q[k] = v if v == "self" else rename_spec(v, cmap, tmap)
            elif k == "map":
                q[k] = {nm(kk): nm(vv) for kk, vv in v.items()}
            elif k in ("partition_by", "order_by", "reverse", "group_by", "columns", "on", "record_keys"):
                q[k] = names(v) if isinstance(v, list) else v
            elif k in ("key_col", "val_col"):
                q[k] = nm(v)
            elif k == "value_cols":
                q[k] = names(v) if p.get("kind") == "rowrecs_to_blocks" else list(v)
            else:
                q[k] = v
        out["steps"].append([op, q])
    return out


def _all_steps(spec):
    for op, p in spec["steps"]:
        yield op, p
        if isinstance(p.get("b"), dict):
            yield from _all_steps(p["b"])


def _expr_texts(spec):
    for op, p in _all_steps(spec):
        for v in (p.get("ops") or {}).values():
            if isinstance(v, str):
                yield v
        e = p.get("expr")
        if isinstance(e, str):
            yield e
        elif isinstance(e, list):
            yield from e


def spec_names(spec: Dict[str, Any]) -> set:
    """every identifier-like token occurring anywhere in the spec (names in use)"""
    return set(re.findall(r"[A-Za-z_][A-Za-z0-9_]*", json.dumps(spec)))


def input_names(spec: Dict[str, Any]) -> Tuple[List[str], List[str]]:
    """(distinct input column names, table names) of a build_pipe spec"""
    tabs = O.pipe_tables(spec)
    cols = list(collections.OrderedDict.fromkeys(c for t in tabs.values() for c in t))
    return cols, list(tabs.keys())


# --------------------------------------------------------------------------------------------------
# runners on renamed data
# --------------------------------------------------------------------------------------------------

_HANDLE = None


def _sqlite_run(ops, frames):
    """read_query(ops) on ONE library-prepared connection per process; tables dropped afterwards"""
    global _HANDLE
    import warnings
    import data_algebra.SQLite

    if _HANDLE is None:
        _HANDLE = data_algebra.SQLite.example_handle()
    h = _HANDLE
    try:
        with warnings.catch_warnings():
            warnings.simplefilter("ignore")
            try:
                for k, v in frames.items():
                    h.insert_table(v, table_name=k, allow_overwrite=True)
                return ("ok", h.read_query(ops))
            except Exception as e:
                return C._outcome_raise(e)
    finally:
        try:
            for nm in [r[0] for r in h.conn.execute("SELECT name FROM sqlite_master WHERE type = 'table'").fetchall()]:
                h.conn.execute('DROP TABLE "%s"' % nm.replace('"', '""'))
            h.conn.commit()
        except Exception:
            try:
                h.close()
            finally:
                _HANDLE = None


def run_backend(backend: str, ops, tables: Dict[str, Tuple[Dict[str, List[Any]], Dict[str, str]]]):
    """tables: {name: (table dict, schema)}"""
    if backend == "pandas":
        return C.run_pandas(ops, {k: C.to_pandas(t, s) for k, (t, s) in tables.items()})
    if backend == "polars":
        return C.run_polars(ops, {k: C.to_polars(t, s) for k, (t, s) in tables.items()})
    return _sqlite_run(ops, {k: C.to_pandas(t, s) for k, (t, s) in tables.items()})


def _tables(spec, data, cmap=None, tmap=None):
    cmap, tmap = cmap or {}, tmap or {}
    out = {}
    for t, cols in O.pipe_tables(spec).items():
        out[t] = None
    res = {}
    inv_t = {v: k for k, v in tmap.items()}
    inv_c = {v: k for k, v in cmap.items()}
    for t, cols in O.pipe_tables(spec).items():
        t0 = inv_t.get(t, t)
        tab = {c: list(data[t0][inv_c.get(c, c)]) for c in cols}
        sch = {c: C.SCHEMAS[t0][inv_c.get(c, c)] for c in cols}
        res[t] = (tab, sch)
    return res


# --------------------------------------------------------------------------------------------------
# one case
# --------------------------------------------------------------------------------------------------


_UNDET: Dict[Tuple[str, str], Optional[str]] = {}


def _undetermined(spec, data) -> Optional[str]:
    """reason why the pipeline's result is not determined by (pipeline, data) -- ties in an ordered window, an order_rows(limit) cutting through
    equal keys (mid-chain or final), a convert_records keying requirement that the data violates -- else None (same rule as C01 / C07)"""
    k = (json.dumps(spec, sort_keys=True, default=str), json.dumps(data, sort_keys=True, default=str))
    if k not in _UNDET:
        try:
            pc = C.PrefixCache(spec, data)
            skip, _ = C.data_preconditions(spec, pc, backends=("pandas",))
            order_step = C.last_order_step(spec)
            if skip is None and order_step is not None and order_step.get("limit") is not None:
                pr = pc.rows(len(spec["steps"]) - 1)
                if pr[0] == "ok" and not C.limit_cut_is_determined(pr[1], pr[2], order_step["columns"], order_step.get("reverse"), order_step["limit"]):
                    skip = "limit-cut-through-ties"
        except Exception:
            skip = None
        _UNDET[k] = skip
    return _UNDET[k]


def eval_case(chain, renames: List[Tuple[str, str, str, str]], data_sets, base_cache=None) -> List[Dict[str, Any]]:
    """renames: [(what: 'column'|'table', old, new, pattern)] -> one result per rename"""
    spec = to_pipe_spec(chain)
    base_ops = O.build_pipe(spec)
    in_use = spec_names(spec)
    base: Dict[Tuple[int, str], Any] = {} if base_cache is None else base_cache
    out = []
    for what, old, new, pattern in renames:
        r: Dict[str, Any] = {"rename": [what, old, new], "pattern": pattern, "fails": [], "compared": 0, "notes": collections.Counter()}
        if new in in_use or new in C.SCHEMAS:
            r["status"] = "name-in-use"
            out.append(r)
            continue
        if what == "column" and any(op == "convert_records" and p.get("kind") == "rowrecs_to_blocks" and old in p.get("value_cols", []) for op, p in _all_steps(spec)):
            r["status"] = "name-becomes-data"  # rowrecs -> blocks writes the value columns' NAMES into the key column
            out.append(r)
            continue
        if what == "column" and pykeyword.iskeyword(new) and any(re.search(r"(?<![A-Za-z0-9_.'\"])" + re.escape(old) + r"(?![A-Za-z0-9_'\"(])", t) for t in _expr_texts(spec)):
            r["status"] = "name-not-expressible"  # `from`, `as`, ... cannot be written in expression TEXT
            out.append(r)
            continue
        cmap = {old: new} if what == "column" else {}
        tmap = {old: new} if what == "table" else {}
        rspec = rename_spec(spec, cmap, tmap)
        try:
            rops = O.build_pipe(rspec)
        except Exception as e:
            r["fails"].append(["build", "build", "the renamed pipeline cannot be built: %s: %s" % (type(e).__name__, str(e)[:200])])
            rops = None
        if rops is not None:
            for di, data in data_sets:
                und = _undetermined(spec, data)
                if und is not None:
                    r["notes"]["skipped:" + und] += 1  # the result itself is not determined on this data (ties at a limit / in a window order): nothing to compare
                    continue
                for be in EXEC:
                    if (di, be) not in base:
                        base[(di, be)] = run_backend(be, base_ops, _tables(spec, data))
                    b = base[(di, be)]
                    if be == "polars" and b[0] == "raise":
                        r["notes"]["polars-does-not-return"] += 1
                        continue
                    g = run_backend(be, rops, _tables(rspec, data, cmap, tmap))
                    if b[0] == "raise" and g[0] == "raise":
                        if b[1] != g[1]:
                            r["fails"].append([be, "raise-type", "data#%d: original raises %s, renamed raises %s: %s" % (di, b[1], g[1], g[2][:120])])
                        else:
                            r["notes"]["both-raise"] += 1
                        continue
                    if b[0] == "raise" or g[0] == "raise":
                        who, o = ("the original", b) if b[0] == "raise" else ("the renamed pipeline", g)
                        r["fails"].append([be, "raise", "data#%d: only %s raises %s: %s" % (di, who, o[1], o[2][:160])])
                        continue
                    r["compared"] += 1
                    bc, br = C.canon_rows(b[1])
                    want = ([cmap.get(c, c) for c in bc], br)
                    ok, why = C.frames_equiv(want, g[1])
                    if not ok:
                        r["fails"].append([be, "result", "data#%d: expected (original result, renamed) vs renamed run: %s" % (di, why[:260])])
        r["notes"] = dict(r["notes"])
        r["status"] = "fail" if r["fails"] else ("ok" if r["compared"] > 0 else "nothing-compared")
        if r["fails"]:
            r["keys"] = classify(chain, base_ops, r, rops)
        out.append(r)
    return out


# --------------------------------------------------------------------------------------------------
# classification
# --------------------------------------------------------------------------------------------------


def _node_types(ops) -> set:
    out, stack = set(), [ops]
    while stack:
        n = stack.pop()
        out.add(type(n).__name__)
        stack.extend(n.sources)
    return out


#: captures confirmed natively on the pinned tree:
#: (back end, harvested pattern) -> (site = the function that uses the name, node type whose step that function executes)
KNOWN_COLUMN = {
    ("pandas", "_data_table_temp_col"): ("pandas_base.PandasModelBase._project_step", "ProjectNode"),
    ("pandas", "*_tmp_right_col"): ("pandas_base.PandasModelBase._natural_join_step", "NaturalJoinNode"),
    ("pandas", "data_algebra_temp_merge_col"): ("pandas_base.PandasModelBase._natural_join_step", "NaturalJoinNode"),
    ("pandas", "_data_algebra_orig_index"): ("pandas_base.PandasModelBase._extend_step", "ExtendNode"),
    ("pandas", "_data_algebra_temp_g"): ("pandas_base.PandasModelBase._extend_step", "ExtendNode"),
    ("polars", "*_da_join_tmp_key"): ("polars_model.PolarsModel._natural_join_step", "NaturalJoinNode"),
    ("polars", "*_da_right_tmp"): ("polars_model.PolarsModel._natural_join_step", "NaturalJoinNode"),
    ("polars", "*_da_left_tmp"): ("polars_model.PolarsModel._natural_join_step", "NaturalJoinNode"),  # right joins swap the frames and use this suffix
    ("polars", "_da_extend_temp_partition_column"): ("polars_model.PolarsModel._extend_step", "ExtendNode"),
    ("polars", "_da_project_temp_group_by_column"): ("polars_model.PolarsModel._project_step", "ProjectNode"),
    ("polars", "_da_temp_one_column"): ("polars_model.ExpressionRequirementsCollector.add_in_temp_columns", "ExtendNode|ProjectNode"),
    # helper columns that hold a CONSTANT first argument of an aggregate, e.g. (1).sum(): only with such an argument
    ("pandas", "data_algebra_extend_temp_col_*"): ("pandas_base.PandasModelBase._extend_step", "ExtendNode+value-arg"),
    ("pandas", "data_algebra_project_temp_col_*"): ("pandas_base.PandasModelBase._project_step", "ProjectNode+value-arg"),
    ("polars", "_da_extend_temp_v_column_*"): ("polars_model.PolarsModel._extend_step", "ExtendNode+value-arg"),
    ("polars", "_da_project_temp_v_column_*"): ("polars_model.PolarsModel._project_step", "ProjectNode+value-arg"),
}


def _has_value_arg(ops, node_type: str) -> bool:
    """some node of that type has an expression whose first argument is a constant"""
    import data_algebra.expr_rep as er

    stack = [ops]
    while stack:
        n = stack.pop()
        if type(n).__name__ == node_type:
            for t in getattr(n, "ops", {}).values():
                if isinstance(t, er.Expression) and len(t.args) > 0 and isinstance(t.args[0], er.Value):
                    return True
        stack.extend(n.sources)
    return False


def _sql_alias_collision(rops, name: str) -> bool:
    """does the SQLite SQL of the renamed pipeline DEFINE a common table expression / sub-query alias whose
    name is the user's table name?  (tokens: "name" AS (   |   ) "name"   |   "x" "name")"""
    import data_algebra.SQLite

    try:
        sql = rops.to_sql(data_algebra.SQLite.SQLiteModel())
    except Exception:
        return False
    toks = O.lex_sql("SQLiteModel", sql)
    for i, (k, v) in enumerate(toks):
        if k == "qid" and v == name:
            nxt = toks[i + 1 : i + 3]
            if len(nxt) == 2 and nxt[0][0] == "w:AS" and nxt[1][0] == "p:(":
                return True
            if i > 0 and (toks[i - 1][0] == "p:)" or toks[i - 1][0] == "qid"):
                return True
    return False


def _quoted_in_sql(rops, name: str) -> bool:
    """the SQLite SQL of the renamed pipeline mentions the name, and only as a quoted identifier"""
    import data_algebra.SQLite

    try:
        toks = O.lex_sql("SQLiteModel", rops.to_sql(data_algebra.SQLite.SQLiteModel()))
    except Exception:
        return False
    return any(k == "qid" and v == name for k, v in toks) and not any(k == "w:" + name.upper() for k, v in toks)


def classify(chain, ops, r, rops=None) -> Dict[str, List[str]]:
    keys: Dict[str, List[str]] = collections.OrderedDict()
    types = _node_types(ops)
    what, old, new = r["rename"]
    pat = r["pattern"]
    for be, kind, det in r["fails"]:
        msg = "[%s] %s: %s" % (be, kind, det)
        hit = None
        if what == "column" and (be, pat) in KNOWN_COLUMN:
            site, need = KNOWN_COLUMN[(be, pat)]
            if need.endswith("+value-arg"):
                ok_site = _has_value_arg(ops, need.split("+")[0])
            else:
                ok_site = any(t in types for t in need.split("|"))
            if ok_site:
                hit = (site, "user-column-named-" + (("<column>" + pat[1:]) if pat.startswith("*") else pat.replace("*", "<N>")))
        if what == "column" and be == "sqlite" and pat in ("sql-keyword:true", "sql-keyword:false") and rops is not None and _quoted_in_sql(rops, new):
            # SQLite (3.40) reads a double-quoted "true" / "false" in a SELECT list over a sub-query as the constant, not as the
            # sub-query's column; the generated SQL does quote the identifier
            hit = ("sql_model.SQLModel.quote_identifier", "column-named-true-or-false-misread-by-sqlite")
        if what == "table" and be == "sqlite" and pat.endswith("*") and rops is not None and _sql_alias_collision(rops, new):
            hit = ("sql_model.SQLModel.to_sql", "user-table-named-like-generated-subquery-name")
        if hit is not None:
            keys.setdefault("%s:%s:%s" % (PID, hit[0], hit[1]), []).append(msg)
        else:
            keys.setdefault("%s:unclassified:%s" % (PID, O.uhash([be, what, pat])), []).append(msg)
    return keys


# --------------------------------------------------------------------------------------------------
# driver
# --------------------------------------------------------------------------------------------------


def scope(tier: str) -> Dict[str, Any]:
    if tier == "quick":
        return {"d2_shard": 8, "positions": 1, "per_case": 1, "max_rows": 3, "cap": 24}
    return {"d2_shard": 1, "positions": 2, "per_case": 1, "max_rows": 3, "cap": 40}


def make_chains(tier: str, seed: int) -> List[Dict[str, Any]]:
    sc = scope(tier)
    out = []
    for spec in C.gen_pipelines(1, tier, two_table=True, backends=BACKENDS, reduced=False):
        out.append({"chain": {"table": spec["table"], "steps": spec["steps"]}, "ids": spec["meta"]["ids"]})
    k = sc["d2_shard"]
    for i, spec in enumerate(C.gen_pipelines(2, tier, two_table=True, backends=BACKENDS, reduced=True)):
        if i % k == seed % k:
            out.append({"chain": {"table": spec["table"], "steps": spec["steps"]}, "ids": spec["meta"]["ids"]})
    return out


def renames_for(chain, idx: int, names: List[Tuple[str, str]], positions: int) -> List[Tuple[str, str, str, str]]:
    """for every harvested name: `positions` input names of the pipeline to be renamed to it, rotating
    deterministically through the pipeline's input columns and tables"""
    spec = to_pipe_spec(chain)
    cols, tabs = input_names(spec)
    slots = [("column", c) for c in cols] + [("table", t) for t in tabs]
    out = []
    for j, (nm, pat) in enumerate(names):
        for p in range(min(positions, len(slots))):
            what, old = slots[(idx * 7 + j * 3 + p * 5) % len(slots)]
            if pat.startswith("*") and what == "column" and nm == old + pat[1:]:
                what, old = slots[(idx * 7 + j * 3 + p * 5 + 1) % len(slots)]  # c + suffix needs ANOTHER column c to exist
            out.append((what, old, nm, pat))
    return list(collections.OrderedDict.fromkeys(out))


def keyword_names() -> List[Tuple[str, str]]:
    """SQL keywords / niladic functions as user COLUMN names (lower and UPPER case); pattern 'sql-keyword:<kw>'"""
    from cbc.c14 import SQL_KEYWORDS

    return [(k, "sql-keyword:" + kw) for kw in SQL_KEYWORDS for k in (kw, kw.upper())]


def keyword_renames_for(chain, idx: int, tier: str) -> List[Tuple[str, str, str, str]]:
    """a keyword-like name for the input columns the pipeline MENTIONS in its operators (so that the name appears in the
    SQL of that operator): single-operator pipelines -- every mentioned column (at most 3) in lower case and (quick: the first one) in UPPER case; two-operator
    pipelines -- one mentioned column (rotating), lower case only at quick"""
    spec = to_pipe_spec(chain)
    cols, _ = input_names(spec)
    toks = set(re.findall(r"[A-Za-z_][A-Za-z0-9_]*", json.dumps(spec["steps"])))
    mentioned = [c for c in cols if c in toks] or cols[:1]
    depth = len(chain["steps"])
    out = []
    for j, (nm, pat) in enumerate(keyword_names()):
        if depth <= 1:
            slots = mentioned[:3] if (nm == nm.lower() or tier != "quick") else mentioned[:1]
        else:
            if tier == "quick" and nm != nm.lower():
                continue
            slots = [mentioned[(idx + j) % len(mentioned)]]
        for old in slots:
            out.append(("column", old, nm, pat))
    return out


def _worker(job):
    pool = C.data_pool(*job["pool_args"])
    out = []
    for item in job["items"]:
        try:
            rs = eval_case(item["chain"], [tuple(x) for x in item["renames"]], [(di, pool[di]) for di in item["dis"]])
        except Exception as e:
            rs = [{"status": "harness-error", "detail": "%s: %s | %s" % (type(e).__name__, e, traceback.format_exc()[-700:]), "rename": ["?", "?", "?"]}]
        for r in rs:
            r["ids"] = item["ids"]
            r["dis"] = item["dis"]
            r["chain"] = item["chain"] if r["status"] in ("fail", "harness-error") else None
        out.append(rs)
    return out


def bounded(rep: Report, tier: str, seed: int) -> None:
    t0 = time.time()
    sc = scope(tier)
    patterns = O.harvest_internal_names()
    all_cols = list(collections.OrderedDict.fromkeys(c for s in C.SCHEMAS.values() for c in s))
    names = O.instantiate_names(patterns, all_cols)
    chains = make_chains(tier, seed)
    pool_args = (sc["max_rows"], seed, sc["cap"])
    n_pool = len(C.data_pool(*pool_args))
    items = []
    for i, ch in enumerate(chains):
        dis = [d for d in C.pick_data(n_pool, i, sc["per_case"] + 1, seed) if d != 0][: sc["per_case"]]
        items.append({"chain": ch["chain"], "ids": ch["ids"], "renames": renames_for(ch["chain"], i, names, sc["positions"]) + keyword_renames_for(ch["chain"], i, tier), "dis": dis})
    outs = O.pool_map(_worker, [{"items": sh, "pool_args": pool_args} for sh in O.shards(items, 8)])
    counts = collections.Counter()
    notes = collections.Counter()
    tried = collections.Counter()
    families = collections.Counter()
    family_ex: Dict[str, str] = {}
    for o in outs:
        for rs in o:
            for r in rs:
                st = r["status"]
                counts[st] += 1
                ck = "%s|%s:%s->%s" % ("+".join(r["ids"]), r["rename"][0], r["rename"][1], r["rename"][2])
                if st == "harness-error":
                    rep.errors.append("harness error on %s: %s" % (ck, r["detail"]))
                    continue
                for k, v in r.get("notes", {}).items():
                    notes[k] += v
                tried[r["pattern"]] += 1
                rep.case(ck, nontrivial=(r.get("compared", 0) > 0))
                if st == "ok":
                    rep.add_sample({"pipeline": "+".join(r["ids"]), "rename": r["rename"], "results_compared": r["compared"]})
                if st == "fail":
                    for be, kind, det in r["fails"]:
                        fam = "%s|%s|%s|%s" % (be, kind, r["pattern"], r["rename"][0])
                        families[fam] += 1
                        family_ex.setdefault(fam, "%s %s: %s" % ("+".join(r["ids"]), r["rename"], det[:200]))
                    for key, dets in r["keys"].items():
                        rep.violations.append(
                            Violation(
                                key=key,
                                what="%s with %s %r renamed to %r: %s" % (C.describe(r["chain"]), r["rename"][0], r["rename"][1], r["rename"][2], O.short("; ".join(dets[:2]), 400).replace("\n", " ").replace("\t", " ")),
                                replay={"module": "cbc.c15", "case": {"chain_json": json.dumps(r["chain"]), "rename": r["rename"], "pattern": r["pattern"], "dis": r["dis"], "pool_args": list(pool_args)}, "n_keys": len(r["keys"]), "n_steps": len(r["ids"])},
                            )
                        )
    rep.violations.sort(key=lambda v: (v.replay.get("n_keys", 1), v.replay.get("n_steps", 9), len(v.what), v.key, v.what))
    rep.extra["status_counts"] = dict(counts)
    rep.extra["harvested_patterns"] = {k: v["files"] for k, v in sorted(patterns.items())}
    rep.extra["names_tried"] = [n for n, _ in names]
    rep.extra["notes"] = dict(notes)
    rep.extra["failure_families"] = {k: [v, family_ex[k]] for k, v in sorted(families.items())}
    rep.extra["failing_cases_by_key"] = dict(collections.Counter(v.key for v in rep.violations))
    if len(names) < 20:
        rep.errors.append("only %d internal names harvested from the source: the harvester no longer matches the code" % len(names))
    print("C15 bounded: %d pipelines x %d names: %s in %.1fs" % (len(chains), len(names), dict(counts), time.time() - t0), file=sys.stderr)


def replay_case(case: Dict[str, Any]) -> bool:
    """Re-run one stored case natively; print what was observed; True iff it still fails."""
    chain = json.loads(case["chain_json"])
    what, old, new = case["rename"]
    pool = C.data_pool(*case["pool_args"])
    spec = to_pipe_spec(chain)
    print("pipeline:", O.describe_pipe(spec))
    print("rename %s %r -> %r" % (what, old, new))
    rspec = rename_spec(spec, {old: new} if what == "column" else {}, {old: new} if what == "table" else {})
    print("renamed :", O.describe_pipe(rspec))
    rs = eval_case(chain, [(what, old, new, case.get("pattern", new))], [(di, pool[di]) for di in case["dis"]])
    r = rs[0]
    for be, kind, det in r["fails"]:
        print("FAIL [%s] %s: %s" % (be, kind, det))
    print("verdict:", r["status"], list(r.get("keys", {}).keys()), "| results compared:", r.get("compared"))
    return r["status"] == "fail"
