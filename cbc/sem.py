"""cbc.sem -- an executable model of what each back end computes for the enumerator's pipelines, with one
switch per KNOWN divergence between the back ends.  It is used ONLY to classify failures that the
contracts already found (never to decide pass/fail):

    explain(spec, data, outcomes) -> minimal set of divergence names such that, with exactly those
    divergences switched on, the model reproduces every back end's observed outcome -- or None.

With no divergence switched on, all back ends follow the reference semantics R (SQL semantics: null keys
never match in joins, null group keys are groups, nulls sort first ascending / last descending, an
ungrouped project returns one row, comparisons with null are null, ...), so a failing case (two back
ends disagree) can never be explained by the empty set.  A failure the model cannot reproduce -- e.g.
because the library was changed -- stays `unclassified` and is therefore reported as a new VIOLATION.

Each divergence names the real function where the deviation from R arises (`site`) and a syntactic
trigger; the finding key is  <property>:<site>:<trigger>.
"""
from __future__ import annotations

import re
from typing import Any, Dict, List, Optional, Sequence, Set, Tuple

from cbc import common as C

# name -> (sites {deviating backend: real function}, trigger, one-line description)
# The keys of `sites` are the back ends whose behaviour deviates from the reference semantics R when the
# divergence is switched on.
DIVERGENCES: Dict[str, Tuple[Dict[str, str], str, str]] = {
    "cmp-null": (
        {"pandas": "pandas_base.PandasModelBase._populate_impl_map"},
        "comparison-with-null-operand",
        "Pandas evaluates ==,<,<=,>,>= with a null operand to False (!= to True); SQL and Polars give null (so if_else/select_rows/and differ too)",
    ),
    "maxmin-null": (
        {"sqlite": "sql_model._db_maximum_expr", "polars": "polars_model.PolarsModel.impl_map_arbitrary_arity"},
        "maximum-minimum-null-operand",
        "x.maximum(y)/x.minimum(y) with one null operand: SQL (CASE .. IS NULL) and Polars (max_horizontal) return the other operand, Pandas (numpy.maximum) returns null",
    ),
    "div0": (
        {"pandas": "pandas_base.PandasModelBase._populate_impl_map", "polars": "polars_model._populate_expr_impl_map"},
        "float-division-by-zero",
        "float x / 0: Pandas and Polars return +-inf (NaN for 0/0), SQLite returns NULL",
    ),
    "project-null-group": (
        {"pandas": "pandas_base.PandasModelBase._project_step"},
        "null-group-key",
        "Pandas project drops every group whose key contains a null (groupby dropna); SQL and Polars keep it",
    ),
    "window-null-partition": (
        {"pandas": "pandas_base.PandasModelBase._extend_step"},
        "null-partition-key",
        "Pandas windowed extend returns null for rows whose partition key is null; SQL and Polars treat null keys as a partition",
    ),
    "window-order-nulls": (
        {"pandas": "pandas_base.PandasModelBase._extend_step"},
        "null-in-window-order-key",
        "ordered window with a null in an ascending order_by column: Pandas sorts nulls last, SQLite and Polars first",
    ),
    "pl-window-order-nulls-desc": (
        {"polars": "polars_model.PolarsModel._extend_step"},
        "null-in-reversed-window-order-key",
        "ordered window with a null in a reversed order_by column: Polars sorts nulls first, Pandas and SQLite last",
    ),
    "first-last-skipna": (
        {"pandas": "pandas_base.PandasModelBase._extend_step"},
        "first-last-over-null-value",
        "x.first()/x.last() in an ordered window whose first/last row has a null value: Pandas (groupby.transform) returns the first/last NON-NULL value, Polars the value of the first/last row (null)",
    ),
    "cum-null": (
        {"pandas": "pandas_base.PandasModelBase._extend_step"},
        "cumulative-aggregate-over-null-value",
        "cumsum/cummax/cummin at a row whose value is null: Pandas returns null, SQL the running aggregate so far",
    ),
    "order-nulls": (
        {"pandas": "pandas_base.PandasModelBase._order_rows_step"},
        "null-in-order-key",
        "order_rows with a null in an ascending order column: Pandas puts nulls last, SQLite and Polars first (row order and limit selection differ)",
    ),
    "pl-order-nulls-desc": (
        {"polars": "polars_model.PolarsModel._order_rows_step"},
        "null-in-reversed-order-key",
        "order_rows with a null in a reversed order column: Polars puts nulls first, Pandas and SQLite last (limit selection differs)",
    ),
    "join-null-keys": (
        {"pandas": "pandas_base.PandasModelBase._natural_join_step"},
        "null-join-key",
        "Pandas (pandas.merge) matches null join keys with each other; SQL and Polars never match null keys",
    ),
    "cross-empty": (
        {"pandas": "pandas_base.PandasModelBase._natural_join_step"},
        "cross-join-with-empty-side",
        "Pandas cross join is an outer merge on a constant: with one side empty it returns the other side's rows padded with nulls instead of no rows",
    ),
    "full-join-sqlite": (
        {"sqlite": "SQLite.SQLiteModel._emit_full_join_as_complex"},
        "null-join-key",
        "SQLite full-join emulation (distinct keys LEFT JOIN left LEFT JOIN right): rows with a null key are replaced by one all-null row",
    ),
    "pl-full-join-key": (
        {"polars": "polars_model.PolarsModel._natural_join_step"},
        "full-join-right-only-row",
        "Polars full join does not coalesce the key columns: rows that exist only on the right lose their key values (null)",
    ),
    "right-join-named-keys": (
        {"sqlite": "SQLite.SQLiteModel._emit_right_join_as_left_join"},
        "differently-named-keys",
        "SQLite right join with on=[(a,b)], a != b: sources are swapped but on_a/on_b are not -> 'no such column'",
    ),
    "full-join-named-keys": (
        {"sqlite": "SQLite.SQLiteModel._emit_full_join_as_complex"},
        "differently-named-keys",
        "SQLite full join with differently named keys: assert join_node.on_a == join_node.on_b fails",
    ),
    "allnull-type": (
        {"pandas": "util.guess_carried_scalar_type"},
        "all-null-column",
        "a column without any non-null value is typed float (type of NaN), so Pandas string comparison / concat_rows type checks raise",
    ),
    "project-pruned": (
        {"sqlite": "sql_model.SQLModel.project_to_near_sql"},
        "ungrouped-project-outputs-unused",
        "SQL of an ungrouped project none of whose outputs is used downstream has no aggregate left and returns one row per input row",
    ),
    "pl-project-empty": (
        {"polars": "polars_model.PolarsModel._project_step"},
        "ungrouped-project-on-empty-input",
        "ungrouped project of an empty table: Polars returns a row of nulls, Pandas returns 0 for sum/count/size",
    ),
    "pl-nan": (
        {"polars": "polars_model._populate_expr_impl_map"},
        "nan-from-zero-division",
        "0.0/0.0 (inf-inf, inf*0): Polars produces a NaN VALUE distinct from null (not is_null, greatest in comparisons and sorts, poisons sum/mean); Pandas treats it as null",
    ),
    "extend-merge-keyerror": (
        {"sqlite": "sql_model.SQLModel.extend_to_near_sql"},
        "extend-over-column-trimmed-window-extend",
        "to_sql raises KeyError: an extend (or the id-column extend of concat_rows) is placed on a select/drop_columns that removed a window column of the extend below; the merge test reads declared_term_dependencies keys that were trimmed from terms",
    ),
    "empty-using": (
        {"sqlite": "sql_model.SQLModel._natural_join_sub_queries"},
        "every-column-of-join-or-concat-overwritten",
        "to_sql raises ValueError ('must select at least one column'): a step that overwrites or drops every column of a natural_join / concat_rows result asks it for an empty column set",
    ),
    "pl-records-empty-null-dtype": (
        {"polars": "polars_model.PolarsModel.rowrecs_to_blocks"},
        "convert_records-of-empty-table",
        "convert_records of an empty table returns Polars columns of dtype Null (pl.DataFrame({c: []})); a later sum over such a column is null instead of 0",
    ),
    "rawq-select": (
        {"sqlite": "sql_model.SQLModel.select_columns_to_near_sql"},
        "select_columns-after-convert_records",
        "select_columns directly on a convert_records step: the SQL ignores the selection and returns all record columns",
    ),
    "rawq-drop": (
        {"sqlite": "sql_model.SQLModel.drop_columns_to_near_sql"},
        "drop_columns-after-convert_records",
        "drop_columns directly on a convert_records step raises TypeError in to_sql (terms is None)",
    ),
}


def finding_key(pid: str, name: str, pair: Sequence[str] = ("pandas", "sqlite")) -> str:
    sites, trig, _ = DIVERGENCES[name]
    devs = [b for b in pair if b in sites]
    site = sites[devs[0]] if devs else sorted(sites.values())[0]
    return "%s:%s:%s" % (pid, site, trig)


def flags_for_pair(pair: Sequence[str]) -> Tuple[List[str], List[str]]:
    """(reportable, always_on) for a comparison between the two back ends in `pair`:
    reportable = divergences where exactly one of the two deviates from R (they can explain a
    difference between the two); always_on = both deviate in the same way (common behaviour)."""
    rep, on = [], []
    for name, (sites, _, _) in DIVERGENCES.items():
        n = sum(1 for b in pair if b in sites)
        if n == 1:
            rep.append(name)
        elif n == 2:
            on.append(name)
    return sorted(rep), sorted(on)


class ModelRaise(Exception):
    def __init__(self, kind: str):
        Exception.__init__(self, kind)
        self.kind = kind


# --------------------------------------------------------------------------------------------------
# scalar expressions
# --------------------------------------------------------------------------------------------------


class _Ctx:
    backend = "R"
    D: Set[str] = set()


def _on(name: str, backend: str) -> bool:
    return name in _Ctx.D and _Ctx.backend == backend


def _isnan(v) -> bool:
    return isinstance(v, float) and v != v


def _nan_is_value() -> bool:
    return _Ctx.backend == "polars" and "pl-nan" in _Ctx.D


def _pl_total_cmp(a, b) -> int:
    """Polars total order on floats: NaN equals NaN and is greater than every other number."""
    na, nb = _isnan(a), _isnan(b)
    if na or nb:
        return 0 if (na and nb) else (1 if na else -1)
    return 0 if a == b else (-1 if a < b else 1)


class V:
    """A nullable scalar with back-end dependent operators (value None = null; a float NaN only occurs
    for Polars under divergence pl-nan)."""

    __slots__ = ("v",)

    def __init__(self, v):
        self.v = v.v if isinstance(v, V) else v

    @staticmethod
    def lift(o):
        return o if isinstance(o, V) else V(o)

    def _arith(self, o, f):
        o = V.lift(o)
        if self.v is None or o.v is None:
            return V(None)
        res = f(self.v, o.v)
        if _isnan(res) and not _nan_is_value():
            res = None  # NaN (inf - inf, inf * 0) is null
        return V(res)

    def __add__(self, o):
        return self._arith(o, lambda a, b: a + b)

    def __sub__(self, o):
        return self._arith(o, lambda a, b: a - b)

    def __mul__(self, o):
        return self._arith(o, lambda a, b: a * b)

    def __rsub__(self, o):
        return V.lift(o)._arith(self, lambda a, b: a - b)

    def __radd__(self, o):
        return V.lift(o)._arith(self, lambda a, b: a + b)

    def __rmul__(self, o):
        return V.lift(o)._arith(self, lambda a, b: a * b)

    def __rtruediv__(self, o):
        return V.lift(o).__truediv__(self)

    def _pow(self, base, exp):
        base, exp = V.lift(base), V.lift(exp)
        if base.v is None or exp.v is None:
            return V(None)
        try:
            r = float(base.v) ** float(exp.v)
        except (OverflowError, ZeroDivisionError):
            return V(None)
        if isinstance(r, complex):
            return V(None)
        return V(r)

    def __pow__(self, o):
        return self._pow(self, o)

    def __rpow__(self, o):
        return self._pow(o, self)

    def __neg__(self):
        return V(None if self.v is None else -self.v)

    def __truediv__(self, o):
        o = V.lift(o)
        if self.v is None or o.v is None:
            return V(None)
        if _isnan(self.v) or _isnan(o.v):
            return V(float("nan"))
        if o.v == 0:
            if _on("div0", "pandas") or _on("div0", "polars"):
                if self.v == 0:
                    return V(float("nan") if _nan_is_value() else None)
                return V(float("inf") if self.v > 0 else float("-inf"))
            return V(None)
        res = self.v / o.v
        if _isnan(res) and not _nan_is_value():
            res = None  # inf / inf
        return V(res)

    def __mod__(self, o):  # convention cell, never compared
        o = V.lift(o)
        if self.v is None or o.v is None or o.v == 0:
            return V(None)
        return V(self.v % o.v)

    def _cmp(self, o, f, ne=False):
        o = V.lift(o)
        if self.v is None or o.v is None:
            if _on("cmp-null", "pandas"):
                return V(bool(ne))
            return V(None)
        if _isnan(self.v) or _isnan(o.v):
            return V(bool(f(_pl_total_cmp(self.v, o.v), 0)))
        return V(bool(f(self.v, o.v)))

    def __eq__(self, o):  # type: ignore[override]
        return self._cmp(o, lambda a, b: a == b)

    def __ne__(self, o):  # type: ignore[override]
        return self._cmp(o, lambda a, b: a != b, ne=True)

    def __lt__(self, o):
        return self._cmp(o, lambda a, b: a < b)

    def __le__(self, o):
        return self._cmp(o, lambda a, b: a <= b)

    def __gt__(self, o):
        return self._cmp(o, lambda a, b: a > b)

    def __ge__(self, o):
        return self._cmp(o, lambda a, b: a >= b)

    def __and__(self, o):
        o = V.lift(o)
        if self.v is False or o.v is False:
            return V(False)
        if self.v is None or o.v is None:
            return V(None)
        return V(bool(self.v) and bool(o.v))

    __hash__ = None  # type: ignore[assignment]

    def if_else(self, a, b):
        a, b = V.lift(a), V.lift(b)
        if self.v is None:
            return V(None)
        return a if self.v else b

    def is_null(self):
        return V(self.v is None)

    def coalesce(self, o):
        return self if self.v is not None else V.lift(o)

    def _mm(self, o, f):
        o = V.lift(o)
        if self.v is None or o.v is None:
            if _on("maxmin-null", "sqlite") or _on("maxmin-null", "polars"):
                return o if self.v is None else self
            return V(None)
        if _isnan(self.v) or _isnan(o.v):  # max_horizontal / min_horizontal ignore NaN unless both are NaN
            return o if _isnan(self.v) else self
        return V(f(self.v, o.v))

    def maximum(self, o):
        return self._mm(o, max)

    def minimum(self, o):
        return self._mm(o, min)


_AND_RE = re.compile(r"\band\b")


def eval_expr(expr: str, row: Dict[str, Any]) -> Any:
    src = _AND_RE.sub("&", expr)
    env = {k: V(v) for k, v in row.items()}
    res = eval(src, {"__builtins__": {}}, env)  # expressions come from our own fixed grid
    return V.lift(res).v


_AGG_RE = re.compile(r"^\(?(-?\w+)\)?\.(\w+)\((-?\d*)\)$")


def _parse_agg(expr: str) -> Optional[Tuple[str, Optional[str]]]:
    """(method, argument) of an aggregate / window term; 'x.shift(2)' -> ('shift:2', 'x')."""
    e = expr.strip()
    if e in ("_size()", "_row_number()", "_count()"):
        return e[:-2], None
    m = _AGG_RE.match(e)
    if m and m.group(2) in ("sum", "mean", "count", "max", "min", "size", "cumsum", "cummax", "cummin", "shift", "rank", "first", "last"):
        meth = m.group(2)
        if m.group(3):
            if meth != "shift":
                return None
            meth = "shift:" + m.group(3)
        return meth, m.group(1)
    return None


def _argval(row, arg):
    """Value of an aggregate's argument in a row: a column, a numeric literal ('(1).sum()') or 1 for _size()."""
    if arg is None:
        return 1
    if arg.lstrip("-").isdigit():
        return int(arg)
    return row[arg]


def _expr_columns(expr: str, cols: Sequence[str]) -> List[str]:
    toks = set(re.findall(r"[A-Za-z_]\w*", expr))
    return [c for c in cols if c in toks]


# --------------------------------------------------------------------------------------------------
# table-level model
# --------------------------------------------------------------------------------------------------

Table = Tuple[List[str], List[Dict[str, Any]]]


def _key(row, cols) -> Tuple:
    return tuple(C._cell_key(row[c]) for c in cols)


def _has_null(row, cols) -> bool:
    return any(row[c] is None for c in cols)


def _agg(meth: str, vals: List[Any], backend: str, n_rows: int, ungrouped_project: bool = False) -> Any:
    """Aggregate over one group.  sum/count/size over nothing: Pandas 0; SQL NULL for sum over no non-null
    value and for count/size over no rows (the documented C01 convention, not a divergence); Polars like
    Pandas, except for the all-null row it fabricates for an ungrouped project of an empty table
    (divergence pl-project-empty)."""
    if not _nan_is_value():
        vals = [None if _isnan(v) else v for v in vals]
    nn = [v for v in vals if v is not None]
    if meth in ("sum", "mean") and nn and not any(_isnan(v) for v in nn):
        tot = sum(nn)
        if _isnan(tot):  # inf + -inf
            return float("nan") if _nan_is_value() else None
    if any(_isnan(v) for v in nn):
        # only Polars under pl-nan: NaN poisons sum/mean, is ignored by max/min unless nothing else is
        # there, and is not counted by the executor's count formula (is_null | is_nan)
        if meth in ("sum", "mean"):
            return float("nan")
        rest = [v for v in nn if not _isnan(v)]
        if meth in ("max", "min"):
            return (max(rest) if meth == "max" else min(rest)) if rest else float("nan")
        if meth == "count":
            return len(rest)
    pl_empty = backend == "polars" and ungrouped_project and n_rows == 0 and "pl-project-empty" in _Ctx.D
    if meth == "sum":
        if not nn:
            return None if (backend == "sqlite" or pl_empty) else 0
        return sum(nn)
    if meth == "count":
        if n_rows == 0 and (backend == "sqlite" or pl_empty):
            return None
        return len(nn)
    if meth in ("size", "_size"):
        if n_rows == 0 and (backend == "sqlite" or pl_empty):
            return None
        return n_rows
    if meth == "mean":
        return (sum(nn) / len(nn)) if nn else None
    if meth == "max":
        return max(nn) if nn else None
    if meth == "min":
        return min(nn) if nn else None
    raise ModelRaise("model: unknown aggregate " + meth)


def _nulls_first(backend: str, desc: bool, flag: str) -> bool:
    """Null placement of a sort.  R = SQLite: first ascending, last descending.  Pandas: last (divergence
    `flag`, visible when ascending).  Polars: first (divergence pl-<flag>-desc, visible when descending)."""
    if backend == "pandas" and flag in _Ctx.D:
        return False
    if backend == "polars" and desc and ("pl-" + flag + "-desc") in _Ctx.D:
        return True
    return not desc


def _sort_rows(rows, order_cols, reverse, backend, flag):
    import functools

    descs = [c in set(reverse or []) for c in order_cols]
    nf = [_nulls_first(backend, d, flag) for d in descs]

    def cmp(r1, r2):
        return C.cmp_keys([r1[c] for c in order_cols], [r2[c] for c in order_cols], descs, nf)

    return sorted(rows, key=functools.cmp_to_key(cmp))


def _all_null_nonempty(rows, col) -> bool:
    return len(rows) > 0 and all(r[col] is None for r in rows)


def _check_pandas_str_compare(expr: str, cols, rows, types):
    """Pandas `_type_safe_equal`: comparing an all-null (hence 'float') column with a str raises."""
    if not _on("allnull-type", "pandas"):
        return
    m = re.search(r"(\w+)\s*[!=]=\s*'", expr)
    if m and m.group(1) in cols and types.get(m.group(1)) == "str" and _all_null_nonempty(rows, m.group(1)):
        raise ModelRaise("TypeError")


class SqlStructure:
    """What SQL generation does with the OPERATOR TREE, as far as the known structural defects are
    concerned.  Mirrors how each X_to_near_sql passes the `using` column set down (through the library's
    own columns_used_from_sources) and which kind of NearSQL object comes back."""

    def __init__(self):
        self.raise_kind: Optional[str] = None  # first exception to_sql would raise
        self.raise_flag: Optional[str] = None  # divergence responsible for it
        self.pruned: Set[int] = set()  # id() of ungrouped ProjectNodes left without any aggregate
        self.select_ignored: Set[int] = set()  # id() of SelectColumnsNodes whose selection the SQL ignores
        self.table_star: bool = False  # a table asked for all its declared columns reaches the result via SELECT *


class _StructRaise(Exception):
    pass


_STRUCT_CACHE: Dict[str, Any] = {}


def _structure_of(spec, nsteps: int):
    """analyse_sql_structure of the first nsteps steps, with node ids mapped to step indices (cached:
    it depends on the pipeline only, not on data or switches)."""
    import json

    key = json.dumps([spec["table"], spec["steps"][:nsteps]], sort_keys=True, default=repr)
    if key not in _STRUCT_CACHE:
        if len(_STRUCT_CACHE) > 4096:
            _STRUCT_CACHE.clear()
        trace: List[Any] = []
        try:
            ops = C.build(spec, upto=nsteps, trace=trace)
            st = analyse_sql_structure(ops)
            node_step = {id(n): i for i, n in enumerate(trace)}
            st.pruned_steps = sorted(node_step[x] for x in st.pruned if x in node_step)
            st.select_ignored_steps = sorted(node_step[x] for x in st.select_ignored if x in node_step)
        except Exception:
            st = None
        _STRUCT_CACHE[key] = st
    return _STRUCT_CACHE[key]


def analyse_sql_structure(root) -> SqlStructure:
    from data_algebra.OrderedSet import OrderedSet

    st = SqlStructure()

    def fail(kind, flag):
        st.raise_kind, st.raise_flag = kind, flag
        raise _StructRaise()

    def desc(kind, terms=None, mergeable=False, dep_keys=None, suffix=False):
        return {"kind": kind, "terms": terms, "mergeable": mergeable, "dep_keys": dep_keys, "suffix": suffix}

    def walk(node, using, cause, star=False, bound=None):
        # bound: the columns the nearest rendering consumer binds from this node (to_bound_near_sql(columns=...));
        # None = all.  An elided extend widens `using` for its source but not what is finally bound.
        # star: the rows of this node reach the final result through `SELECT *` only (root, or below a root order_rows)
        nm = node.node_name
        if using is None:
            using = set(node.column_names)
            was_none = True
        else:
            using = set(using)
            was_none = False
        if nm == "TableDescription":
            if star and set(using) == set(node.column_names):
                st.table_star = True
            return desc("table", terms=set(using))
        if nm == "ExtendNode":
            using = using | set(node.partition_by) | set(node.order_by) | set(node.reverse)
            subops = [k for k in node.ops if k in using]
            if not subops:
                return walk(node.sources[0], using, cause, bound=bound)
            sub_using = set(node.columns_used_from_sources(using=OrderedSet(sorted(using)))[0])
            sub = walk(node.sources[0], sub_using, "extend-overwrites-all" if not sub_using else cause, bound=set(sub_using))
            keys = set(k for k in using)
            if sub["kind"] == "unary" and sub["mergeable"] and sub["dep_keys"] is not None and not sub["suffix"]:
                # non_trivial_terms(dep_dict=sub.declared_term_dependencies, term_dict=sub.terms) reads
                # sub.terms[k] for every declared key
                if sub["terms"] is None or any(k not in sub["terms"] for k in sub["dep_keys"]):
                    fail("KeyError", "extend-merge-keyerror")
            return desc("unary", terms=keys, mergeable=True, dep_keys=set(keys))
        if nm == "ProjectNode":
            subops = [k for k in node.ops if k in using]
            bound_ops = subops if bound is None else [k for k in subops if k in bound]
            if len(node.group_by) == 0 and len(node.ops) > 0 and not bound_ops:
                # no aggregate is left in the rendered SELECT: it degenerates to SELECT * (one row per input row)
                st.pruned.add(id(node))
            sub_using = set(node.columns_used_from_sources(using=using)[0])
            walk(node.sources[0], sub_using, "project-pruned" if not sub_using else cause, bound=set(sub_using))
            return desc("unary", terms=set(subops) | set(node.group_by), suffix=len(node.group_by) > 0)
        if nm in ("SelectRowsNode", "MapColumnsNode", "RenameColumnsNode"):
            sub_using = set(node.columns_used_from_sources(using=OrderedSet(sorted(using)))[0])
            walk(node.sources[0], sub_using, cause, bound=set(sub_using))
            return desc("unary", terms=set(using), suffix=(nm == "SelectRowsNode"))
        if nm == "OrderRowsNode":
            sub_using = set(node.columns_used_from_sources(using=using)[0])
            walk(node.sources[0], sub_using, cause, star=(star and was_none), bound=set(sub_using))
            return desc("unary", terms=(None if was_none else set(sub_using)), suffix=True)
        if nm == "SelectColumnsNode":
            sub_using = set(node.columns_used_from_sources(using=using)[0])
            sub = walk(node.sources[0], sub_using, cause, star=star, bound=(set(sub_using) if bound is None else set(bound) & set(sub_using)))
            if sub["terms"] is not None and not isinstance(sub["terms"], list):
                if any(k not in sub["terms"] for k in node.column_selection if k in sub_using):
                    fail("KeyError", "unmodelled")
                sub["terms"] = set(k for k in node.column_selection if k in sub_using)
            else:
                sub["terms"] = []
                if sub["kind"] == "rawq" and star:
                    st.select_ignored.add(id(node))
            return sub
        if nm == "DropColumnsNode":
            sub_using = set(node.columns_used_from_sources(using=using)[0])
            sub = walk(node.sources[0], sub_using, cause, bound=(set(sub_using) if bound is None else set(bound) & set(sub_using)))
            if sub["terms"] is None or isinstance(sub["terms"], list):
                fail("TypeError", "rawq-drop")
            keep = [k for k in using if k not in node.column_deletions]
            if any(k not in sub["terms"] for k in keep):
                fail("KeyError", "unmodelled")
            sub["terms"] = set(keep)
            return sub
        if nm == "NaturalJoinNode":
            if len(using) < 1:
                fail("ValueError", "project-pruned" if cause == "project-pruned" else "empty-using")
            ul, ur = node.columns_used_from_sources(using=OrderedSet(sorted(using | set(node.on_a) | set(node.on_b))))
            walk(node.sources[0], set(ul), cause, bound=set(ul))
            walk(node.sources[1], set(ur), cause, bound=set(ur))
            return desc("binary", terms=set(using))
        if nm == "ConcatRowsNode":
            if len(using) < 1:
                fail("ValueError", "project-pruned" if cause == "project-pruned" else "empty-using")
            ul, ur = node.columns_used_from_sources(using=OrderedSet(sorted(using)))
            joint = set(ul)
            srcs = [node.sources[0], node.sources[1]]
            if node.id_column is not None:
                srcs = [srcs[0].extend({node.id_column: '"%s"' % node.a_name}), srcs[1].extend({node.id_column: '"%s"' % node.b_name})]
                joint = joint | {node.id_column}
            walk(srcs[0], joint, cause, bound=set(joint))
            walk(srcs[1], joint, cause, bound=set(joint))
            return desc("binary", terms=set(using))
        if nm == "ConvertRecordsNode":
            walk(node.sources[0], None, cause)
            return desc("rawq", terms=None)
        return desc("unary", terms=set(using))

    try:
        walk(root, None, None, star=True)
    except _StructRaise:
        pass
    return st


class Model:
    def __init__(self, spec, data, backend: str, D: Set[str]):
        self.spec = spec
        self.data = data
        self.backend = backend
        self.D = set(D)

    # -- leaves ---------------------------------------------------------------------------------
    def table(self, name: str) -> Tuple[Table, Dict[str, str]]:
        sch = C.SCHEMAS[name]
        cols = list(sch.keys())
        n = len(self.data[name][cols[0]]) if cols else 0
        rows = [{c: C.canon_value(self.data[name][c][i]) for c in cols} for i in range(n)]
        return (cols, rows), dict(sch)

    # -- driver ---------------------------------------------------------------------------------
    def run(self, upto: Optional[int] = None, root: Optional[str] = None, effects: Optional[Dict[str, Any]] = None) -> Tuple[Table, Dict[str, str]]:
        _Ctx.backend, _Ctx.D = self.backend, self.D
        steps = self.spec["steps"] if upto is None else self.spec["steps"][:upto]
        (cols, rows), types = self.table(root or self.spec["table"])
        if effects is None:
            effects = self._sql_effects(len(steps)) if self.backend == "sqlite" else {"pruned": set(), "select_ignored": set()}
        self.effects = effects
        history = []
        for i, (op, p) in enumerate(steps):
            (cols, rows), types = self.step(i, op, p, cols, rows, types, history, effects)
            history.append(((cols, rows), types))
            _Ctx.backend, _Ctx.D = self.backend, self.D
        return (cols, rows), types

    def _sql_effects(self, nsteps: int) -> Dict[str, Any]:
        """Step indices affected by the structural SQL-generation defects (only those whose divergence is
        switched on), or a ModelRaise when to_sql itself raises."""
        eff: Dict[str, Any] = {"pruned": set(), "select_ignored": set()}
        structural = {"project-pruned", "rawq-select", "rawq-drop", "extend-merge-keyerror", "empty-using"}
        if not (structural & self.D):
            return eff
        st = _structure_of(self.spec, nsteps)
        if st is None:
            return eff
        if st.raise_kind is not None and st.raise_flag in self.D:
            raise ModelRaise(st.raise_kind)
        if "project-pruned" in self.D:
            eff["pruned"] = set(st.pruned_steps)
        if "rawq-select" in self.D:
            eff["select_ignored"] = set(st.select_ignored_steps)
        return eff

    # -- one step -------------------------------------------------------------------------------
    def step(self, i, op, p, cols, rows, types, history, effects):
        be = self.backend
        if op == "extend":
            windowed = ("partition_by" in p and p["partition_by"] is not None) or bool(p.get("order_by"))
            if not windowed:
                new_rows = []
                if be == "pandas" and rows:
                    for e in p["ops"].values():
                        _check_pandas_str_compare(e, cols, rows, types)
                for r in rows:
                    nr = dict(r)
                    for k, e in p["ops"].items():
                        nr[k] = eval_expr(e, r)
                    new_rows.append(nr)
                ncols = list(cols) + [k for k in p["ops"] if k not in cols]
                ntypes = dict(types)
                for k, e in p["ops"].items():
                    ntypes[k] = _expr_type(e, types)
                return (ncols, new_rows), ntypes
            return self.window(p, cols, rows, types)
        if op == "project":
            return self.project(p, cols, rows, types, pruned=(i in effects["pruned"]))
        if op == "select_rows":
            if be == "pandas" and rows:
                _check_pandas_str_compare(p["expr"], cols, rows, types)
            keep = [r for r in rows if eval_expr(p["expr"], r) is True]
            return (cols, keep), types
        if op == "select_columns":
            if be == "sqlite" and i in effects["select_ignored"]:
                # the selection is ignored: the SQL returns the convert_records output as it is
                j = max(k for k in range(i) if self.spec["steps"][k][0] == "convert_records")
                return history[j]
            keep = list(p["columns"])
            return (keep, [{c: r[c] for c in keep} for r in rows]), {c: types[c] for c in keep}
        if op == "drop_columns":
            keep = [c for c in cols if c not in set(p["columns"])]
            return (keep, [{c: r[c] for c in keep} for r in rows]), {c: types[c] for c in keep}
        if op == "rename_columns":
            m = {old: new for new, old in p["map"].items()}
            return self._rename(m, (), cols, rows, types)
        if op == "map_columns":
            m = {old: new for old, new in p["map"].items() if new is not None}
            dele = [old for old, new in p["map"].items() if new is None]
            return self._rename(m, dele, cols, rows, types)
        if op == "order_rows":
            srt = _sort_rows(rows, p["columns"], p.get("reverse"), be, "order-nulls")
            if p.get("limit") is not None:
                srt = srt[: p["limit"]]
            return (cols, srt), types
        if op == "natural_join":
            return self.join(i, p, cols, rows, types)
        if op == "concat_rows":
            return self.concat(i, p, cols, rows, types)
        if op == "convert_records":
            return self.records(p, cols, rows, types)
        raise ModelRaise("model: unknown op " + op)

    def _rename(self, m, dele, cols, rows, types):
        keep = [c for c in cols if c not in set(dele)]
        ncols = [m.get(c, c) for c in keep]
        nrows = [{m.get(c, c): r[c] for c in keep} for r in rows]
        return (ncols, nrows), {m.get(c, c): types[c] for c in keep}

    # -- window -----------------------------------------------------------------------------------
    def window(self, p, cols, rows, types):
        be = self.backend
        part = p.get("partition_by")
        part = [] if (part is None or part == 1) else list(part)
        order_by = list(p.get("order_by") or [])
        reverse = list(p.get("reverse") or [])
        out = [dict(r) for r in rows]
        groups: Dict[Tuple, List[int]] = {}
        for idx, r in enumerate(rows):
            groups.setdefault(_key(r, part), []).append(idx)
        ntypes = dict(types)
        for k, e in p["ops"].items():
            pa = _parse_agg(e)
            if pa is None:
                raise ModelRaise("model: unsupported window expression " + e)
            meth, arg = pa
            ntypes[k] = "int" if meth in ("count", "size", "_size", "_row_number") else ("float" if meth in ("mean", "rank") else types.get(arg, "float"))
            if arg is not None and arg.lstrip("-").isdigit():
                ntypes[k] = "int"
            for gk, idxs in groups.items():
                grows = [rows[j] for j in idxs]
                if be == "pandas" and "window-null-partition" in self.D and part and _has_null(grows[0], part):
                    for j in idxs:
                        out[j][k] = None
                    continue
                if order_by:
                    srt = _sort_rows([dict(rows[j], __i=j) for j in idxs], order_by, reverse, be, "window-order-nulls")
                    seq = [r["__i"] for r in srt]
                else:
                    seq = list(idxs)
                vals = [_argval(rows[j], arg) for j in seq]
                if meth == "_row_number":
                    for pos, j in enumerate(seq):
                        out[j][k] = pos + 1
                elif meth in ("cumsum", "cummax", "cummin"):
                    f = {"cumsum": lambda a, b: a + b, "cummax": max, "cummin": min}[meth]
                    acc = None
                    for pos, j in enumerate(seq):
                        v = vals[pos]
                        if v is not None:
                            acc = v if acc is None else f(acc, v)
                        if v is None and be == "pandas" and "cum-null" in self.D:
                            out[j][k] = None
                        else:
                            out[j][k] = acc
                elif meth.startswith("shift"):
                    lag = int(meth.split(":")[1]) if ":" in meth else 1
                    for pos, j in enumerate(seq):
                        src = pos - lag
                        out[j][k] = vals[src] if 0 <= src < len(vals) else None
                elif meth in ("first", "last"):
                    # R: the value of the first / last row of the partition in window order (nulls included);
                    # Pandas (groupby.transform('first'/'last')) takes the first / last NON-NULL value
                    cand = vals if meth == "first" else list(reversed(vals))
                    if be == "pandas" and "first-last-skipna" in self.D:
                        cand = [v for v in cand if v is not None]
                    a = cand[0] if cand else None
                    for j in idxs:
                        out[j][k] = a
                elif meth == "rank":
                    # average rank (ascending) among the non-null values of the partition; null -> null
                    nnv = [v for v in vals if v is not None]
                    for pos, j in enumerate(seq):
                        v = vals[pos]
                        if v is None:
                            out[j][k] = None
                        else:
                            lo = sum(1 for w in nnv if _pl_total_cmp(w, v) < 0)
                            eq = sum(1 for w in nnv if _pl_total_cmp(w, v) == 0)
                            out[j][k] = lo + (eq + 1) / 2.0
                else:
                    a = _agg(meth, vals, be, len(vals))
                    if be == "polars" and arg is not None and types.get(arg) == "null" and meth == "sum":
                        a = None  # sum over a Null-typed column
                        ntypes[k] = "null"
                    for j in idxs:
                        out[j][k] = a
        ncols = list(cols) + [k for k in p["ops"] if k not in cols]
        return (ncols, out), ntypes

    # -- project ----------------------------------------------------------------------------------
    def project(self, p, cols, rows, types, pruned):
        be = self.backend
        by = list(p.get("group_by") or [])
        ops = p.get("ops") or {}
        ncols = by + [k for k in ops if k not in by]
        ntypes = {c: types[c] for c in by}
        for k, e in ops.items():
            pa = _parse_agg(e)
            meth, arg = pa if pa else ("?", None)
            ntypes[k] = "int" if meth in ("count", "size", "_size") else ("float" if meth == "mean" else types.get(arg, "float"))
        if pruned and not by:
            # SQL without any aggregate left: one (column-less) row per input row
            return (ncols, [{c: None for c in ncols} for _ in rows]), ntypes
        groups: Dict[Tuple, List[Dict[str, Any]]] = {}
        if not by:
            groups[()] = list(rows)
        else:
            for r in rows:
                if be == "pandas" and "project-null-group" in self.D and _has_null(r, by):
                    continue
                groups.setdefault(_key(r, by), []).append(r)
        out = []
        for gk, grows in groups.items():
            nr = {c: (grows[0][c] if grows else None) for c in by}
            for k, e in ops.items():
                pa = _parse_agg(e)
                if pa is None:
                    raise ModelRaise("model: unsupported aggregate " + e)
                meth, arg = pa
                vals = [_argval(r, arg) for r in grows]
                nr[k] = _agg(meth, vals, be, len(grows), ungrouped_project=(not by))
                if be == "polars" and arg is not None and types.get(arg) == "null" and meth == "sum":
                    nr[k] = None  # sum over a Null-typed column
                    ntypes[k] = "null"
            out.append(nr)
        return (ncols, out), ntypes

    # -- joins ------------------------------------------------------------------------------------
    def _rhs(self, i, b, cols, rows, types):
        if b == "self":
            return (list(cols), [dict(r) for r in rows]), dict(types)
        if "table" in b:
            return self.table(b["table"])
        sub = Model(C.prefix_spec(self.spec, i, table=b["prefix_on"]), self.data, self.backend, self.D)
        return sub.run(effects=self.effects)

    def join(self, i, p, cols, rows, types):
        be = self.backend
        (bcols, brows), btypes = self._rhs(i, p["b"], cols, rows, types)
        jt = p["jointype"].lower()
        on_a = [o[0] if isinstance(o, (list, tuple)) else o for o in p["on"]]
        on_b = [o[1] if isinstance(o, (list, tuple)) else o for o in p["on"]]
        named = on_a != on_b
        if be == "sqlite" and named and jt == "right" and "right-join-named-keys" in self.D:
            raise ModelRaise("DatabaseError")
        if be == "sqlite" and named and jt == "full" and "full-join-named-keys" in self.D:
            raise ModelRaise("AssertionError")
        ncols = list(cols) + [c for c in bcols if c not in cols]
        ntypes = dict(btypes)
        ntypes.update(types)
        common = [c for c in cols if c in bcols]
        null_match = be == "pandas" and "join-null-keys" in self.D

        same_keys = [ca for ca, cb in zip(on_a, on_b) if ca == cb]
        pl_full = be == "polars" and jt == "full" and "pl-full-join-key" in self.D

        def combine(ra, rb):
            nr = {}
            for c in ncols:
                va = ra[c] if (ra is not None and c in cols) else None
                vb = rb[c] if (rb is not None and c in bcols) else None
                if c in same_keys:
                    # equi-join key: the left value, or the right value for rows that exist only on the right
                    nr[c] = va if ra is not None else (None if pl_full else vb)
                elif c in common:
                    nr[c] = va if va is not None else vb
                elif c in cols:
                    nr[c] = va
                else:
                    nr[c] = vb
            return nr

        def matches(ra, rb):
            for ca, cb in zip(on_a, on_b):
                va, vb = ra[ca], rb[cb]
                if va is None or vb is None:
                    if not (null_match and va is None and vb is None):
                        return False
                elif not C.values_equiv(va, vb):
                    return False
            return True

        if jt == "cross":
            if be == "pandas" and "cross-empty" in self.D and (not rows or not brows) and (rows or brows):
                return (ncols, [combine(ra, None) for ra in rows] + [combine(None, rb) for rb in brows]), ntypes
            return (ncols, [combine(ra, rb) for ra in rows for rb in brows]), ntypes
        if jt == "full" and be == "sqlite" and "full-join-sqlite" in self.D:
            # literal emulation: distinct keys of both sides, LEFT JOIN left, LEFT JOIN right (null keys never match)
            keys: Dict[Tuple, Dict[str, Any]] = {}
            for r in rows:
                keys.setdefault(_key(r, on_a), {c: r[c] for c in on_a})
            for r in brows:
                keys.setdefault(_key(r, on_b), {ca: r[cb] for ca, cb in zip(on_a, on_b)})
            out = []
            for kk, kv in keys.items():
                nullk = any(v is None for v in kv.values())
                la = [r for r in rows if (not nullk) and _key(r, on_a) == kk] or [None]
                lb = [r for r in brows if (not nullk) and _key(r, on_b) == kk] or [None]
                for ra in la:
                    for rb in lb:
                        nr = combine(ra, rb)
                        for c in on_a:
                            nr[c] = kv[c]
                        out.append(nr)
            return (ncols, out), ntypes
        out = []
        matched_b = set()
        for ra in rows:
            hit = False
            for jb, rb in enumerate(brows):
                if matches(ra, rb):
                    hit = True
                    matched_b.add(jb)
                    out.append(combine(ra, rb))
            if not hit and jt in ("left", "full"):
                out.append(combine(ra, None))
        if jt in ("right", "full"):
            for jb, rb in enumerate(brows):
                if jb not in matched_b:
                    out.append(combine(None, rb))
        return (ncols, out), ntypes

    def concat(self, i, p, cols, rows, types):
        be = self.backend
        (bcols, brows), btypes = self._rhs(i, p["b"], cols, rows, types)
        if be == "pandas" and "allnull-type" in self.D and rows and brows:
            for c in cols:
                if types.get(c) == "str":
                    la, lb = _all_null_nonempty(rows, c), _all_null_nonempty(brows, c)
                    if la != lb:
                        raise ModelRaise("ValueError")
        idc = p.get("id_column")
        ncols = list(cols) + ([idc] if idc else [])
        out = []
        for nm, rs in ((p.get("a_name", "a"), rows), (p.get("b_name", "b"), brows)):
            for r in rs:
                nr = {c: r[c] for c in cols}
                if idc:
                    nr[idc] = nm
                out.append(nr)
        ntypes = dict(types)
        if idc:
            ntypes[idc] = "str"
        return (ncols, out), ntypes

    def records(self, p, cols, rows, types):
        rk = list(p["record_keys"])
        if p["kind"] == "rowrecs_to_blocks":
            ncols = rk + [p["key_col"], p["val_col"]]
            out = []
            for r in rows:
                for v in p["value_cols"]:
                    nr = {c: r[c] for c in rk}
                    nr[p["key_col"]] = v
                    nr[p["val_col"]] = r[v]
                    out.append(nr)
            nt = {c: types[c] for c in rk}
            nt[p["key_col"]] = "str"
            nt[p["val_col"]] = "float"
            if self.backend == "polars" and not rows and "pl-records-empty-null-dtype" in self.D:
                nt = {c: "null" for c in ncols}
            return (ncols, out), nt
        ncols = rk + list(p["value_cols"])
        recs: Dict[Tuple, Dict[str, Any]] = {}
        for r in rows:
            nr = recs.setdefault(_key(r, rk), dict({c: r[c] for c in rk}, **{v: None for v in p["value_cols"]}))
            if r[p["key_col"]] in p["value_cols"]:
                nr[r[p["key_col"]]] = r[p["val_col"]]
        nt = {c: types[c] for c in rk}
        for v in p["value_cols"]:
            nt[v] = "float"
        return (ncols, list(recs.values())), nt


def _oset(s):
    from data_algebra.OrderedSet import OrderedSet

    return OrderedSet(sorted(s))


def _expr_type(e: str, types: Dict[str, str]) -> str:
    if "if_else" in e and "'" in e:
        return "str"
    if any(t in e for t in ("==", "<=", ">=", "!=", "is_null", " > ", " < ")) and "if_else" not in e:
        return "bool"
    return "float"


# --------------------------------------------------------------------------------------------------
# explanation
# --------------------------------------------------------------------------------------------------


def model_outcome(spec, data, backend: str, D: Set[str], upto: Optional[int] = None):
    """('ok', cols, rows as tuples) | ('raise', kind).  A NaN value (Polars under pl-nan) is kept as NaN."""
    try:
        (cols, rows), _ = Model(spec, data, backend, D).run(upto=upto)
    except ModelRaise as e:
        return ("raise", e.kind)
    return ("ok", list(cols), [tuple(C.canon_value(r[c], keep_nan=True) for c in cols) for r in rows])


def fixed_policy(backend: str, D: Set[str]):
    """null placement of a final order_rows as the model assigns it to `backend`."""

    def pol(desc: bool) -> bool:
        _Ctx.D = set(D)
        return _nulls_first(backend, desc, "order-nulls")

    return pol


def outcome_matches(spec, data, backend: str, D: Set[str], actual, ignore: Sequence[str], extra) -> bool:
    """Does the model with divergences D reproduce `actual` (('ok', cols, rows) | ('raise', type, msg))?"""
    order = C.last_order_step(spec)
    if order is not None:
        pre = model_outcome(spec, data, backend, D, upto=len(spec["steps"]) - 1)
        if pre[0] == "raise" or actual[0] == "raise":
            return pre[0] == "raise" and actual[0] == "raise" and pre[1] == actual[1]
        if set(pre[1]) != set(actual[1]):
            return False
        if extra is not None:
            m = model_outcome(spec, data, backend, D)
            ok, _ = C.frames_equiv((m[1], m[2]), (actual[1], actual[2]), ignore_columns=ignore, extra_cell_equiv=extra)
            return ok
        if ignore:
            # convention cells are not compared: project them away on both sides, keep the order check
            keep_a = [c for c in actual[1] if c not in set(ignore)]
            ia = [list(actual[1]).index(c) for c in keep_a]
            ip = [list(pre[1]).index(c) for c in keep_a]
            actual = ("ok", keep_a, [tuple(r[i] for i in ia) for r in actual[2]])
            pre = ("ok", keep_a, [tuple(r[i] for i in ip) for r in pre[2]])
        ok, _ = check_order_limit_policy(actual[1], actual[2], pre[1], pre[2], order, fixed_policy(backend, D))
        return ok
    m = model_outcome(spec, data, backend, D)
    if m[0] == "raise" or actual[0] == "raise":
        return m[0] == "raise" and actual[0] == "raise" and m[1] == actual[1]
    ok, _ = C.frames_equiv((m[1], m[2]), (actual[1], actual[2]), ignore_columns=ignore, extra_cell_equiv=extra)
    return ok


def check_order_limit_policy(cols, rows, full_cols, full_rows, order, policy) -> Tuple[bool, str]:
    """check_order_limit under one fixed null placement policy (desc -> nulls_first)."""
    ocols = list(order["columns"])
    reverse = list(order.get("reverse") or [])
    descs = [c in set(reverse) for c in ocols]
    nf = [policy(d) for d in descs]
    keys = C.key_sequence(cols, rows, ocols)
    if not all(C.cmp_keys(keys[i], keys[i + 1], descs, nf) <= 0 for i in range(len(keys) - 1)):
        return False, "not sorted under the policy"
    fidx = [list(full_cols).index(c) for c in cols]
    frows = [tuple(r[i] for i in fidx) for r in full_rows]
    limit = order.get("limit")
    if limit is None:
        return C.frames_equiv((list(cols), list(rows)), (list(cols), frows))
    if len(rows) != min(limit, len(frows)):
        return False, "row count"
    remaining = list(frows)
    for r in rows:
        hit = None
        for i, fr in enumerate(remaining):
            if C._rows_equiv(r, fr, 1e-8, None):
                hit = i
                break
        if hit is None:
            return False, "row not in full result"
        remaining.pop(hit)
    if rows and remaining:
        last = keys[-1]
        if not all(C.cmp_keys(k, last, descs, nf) >= 0 for k in C.key_sequence(cols, remaining, ocols)):
            return False, "an omitted row sorts before the last returned row"
    return True, ""


def explain(
    spec,
    data,
    outcomes: Dict[str, Any],
    ignore: Sequence[str] = (),
    extra=None,
    universe: Optional[Sequence[str]] = None,
    always_on: Sequence[str] = (),
) -> Optional[List[str]]:
    """outcomes: {backend: ('ok', cols, rows) | ('raise', type, msg)}, backends in pandas|sqlite|polars.

    EVERY divergence is a switch: none is assumed to be present in the library.  The result is a minimal
    set of switches S (subset of universe + always_on) such that the model with exactly S switched on
    reproduces every given outcome; the members of S that belong to `universe` are returned (the
    `always_on` names are the divergences both compared back ends share: searched like the others, but
    they cannot explain a difference between the two, so they are not reported).  None if no set of
    switches reproduces the outcomes.

    Search: (1) all switches on, then drop one at a time while the outcomes are still reproduced (fast
    path: the library shows all known divergences); (2) otherwise -- e.g. a modelled defect has been
    FIXED in the library -- the switches that can change the model's outcome for this case are
    determined and their subsets are tried by increasing size."""
    reportable = sorted(universe if universe is not None else DIVERGENCES.keys())
    names = sorted(set(reportable) | set(always_on))
    cache: Dict[frozenset, bool] = {}

    def ok(D) -> bool:
        key = frozenset(D)
        if key not in cache:
            try:
                cache[key] = all(outcome_matches(spec, data, be, set(key), act, ignore, extra) for be, act in outcomes.items())
            except ModelRaise:
                cache[key] = False
        return cache[key]

    def report(S):
        return [x for x in sorted(S) if x in set(reportable)]

    # (1) fast path
    if ok(names):
        D = list(names)
        for n in list(names):
            trial = [x for x in D if x != n]
            if ok(trial):
                D = trial
        return report(D)

    # (2) which switches matter for this case at all?
    def sig(backend, D):
        o = model_outcome(spec, data, backend, set(D))
        pre = model_outcome(spec, data, backend, set(D), upto=max(0, len(spec["steps"]) - 1))
        return repr((o, pre))

    relevant = []
    for f in names:
        devs = [b for b in outcomes if b in DIVERGENCES[f][0]]
        hit = False
        for b in devs:
            try:
                if sig(b, [f]) != sig(b, []) or sig(b, names) != sig(b, [x for x in names if x != f]):
                    hit = True
                    break
            except ModelRaise:
                hit = True
                break
        if hit:
            relevant.append(f)
    import itertools

    max_size = len(relevant) if len(relevant) <= 12 else 5
    for size in range(0, max_size + 1):
        for S in itertools.combinations(relevant, size):
            if ok(S):
                return report(S)
    return None
