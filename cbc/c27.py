"""C27 (bounded): windowed and ordered window functions are computed per ordered partition.

Contracts (cbc.oracles_b.ContractedBackends -> cbc.wrap) on the REAL

    PandasModelBase._extend_step     (dispatch-table entry of the live default Pandas model)
    PolarsModel._extend_step         (dispatch-table entry of the live default Polars model)
    DBHandle.read_query              (SQLite handle)

    post(result) :=  result has exactly the input rows, and for every window function f of the extend the value in
                     each row == ref_window(f) = f over the rows of that row's partition, sorted by order_by with the
                     reversed columns descending  (cbc.oracles_b.ref_window, written from the Term.* docstrings)

Back ends per function: Pandas always; SQLite iff op_catalog.methods_table (read live) marks the (method,
windowed / ordered) use 'y' for SQLiteModel; Polars whenever it does not raise (a raise is counted as skipped).
All functions a back end supports under one window specification are computed by ONE extend (they share the window),
and every function column is compared on its own.
"""
from __future__ import annotations

import collections
import itertools
import sys
import time
from typing import Any, Dict, List, Optional, Tuple

from vlib.core import Report, Violation
from cbc import common as C
from cbc import wrap
from cbc import oracles_b as O

PID = "C27"
BACKENDS = ("pandas", "polars", "sqlite")
FUNCTIONS_UNDER_CONTRACT = [
    {"file": "data_algebra/pandas_base.py", "function": "PandasModelBase._extend_step"},
    {"file": "data_algebra/polars_model.py", "function": "PolarsModel._extend_step"},
    {"file": "data_algebra/db_model.py", "function": "DBHandle.read_query"},
    {"file": "data_algebra/sql_model.py", "function": "SQLModel.extend_to_near_sql"},
]

SCHEMA = collections.OrderedDict([("p1", "int"), ("p2", "int"), ("o1", "int"), ("o2", "int"), ("x", "float"), ("z", "float")])
KEYCOLS = ["p1", "p2", "o1", "o2"]
#: (output column, expression, reference function, argument column, extra argument, ordered?)
FUNCTIONS: List[Tuple[str, str, str, Optional[str], Any, bool]] = [
    ("cumsum_x", "x.cumsum()", "cumsum", "x", None, True),
    ("cummax_x", "x.cummax()", "cummax", "x", None, True),
    ("cummin_x", "x.cummin()", "cummin", "x", None, True),
    ("cumprod_x", "x.cumprod()", "cumprod", "x", None, True),
    ("row_number", "_row_number()", "_row_number", None, None, True),
    ("cumcount_z", "z.cumcount()", "cumcount", "z", None, True),
    ("shift_x", "x.shift()", "shift", "x", 1, True),
    ("shiftm1_x", "x.shift(-1)", "shift", "x", -1, True),
    ("shift2_x", "x.shift(2)", "shift", "x", 2, True),
    ("rank_x", "x.rank()", "rank", "x", None, True),
    ("first_x", "x.first()", "first", "x", None, True),
    ("last_x", "x.last()", "last", "x", None, True),
    ("bfill_z", "z.bfill()", "bfill", "z", None, True),
    ("ffill_z", "z.ffill()", "ffill", "z", None, True),
    ("cumsum_z", "z.cumsum()", "cumsum", "z", None, True),
    ("sum_x", "x.sum()", "sum", "x", None, False),
    ("mean_x", "x.mean()", "mean", "x", None, False),
    ("min_x", "x.min()", "min", "x", None, False),
    ("max_x", "x.max()", "max", "x", None, False),
    ("sum_z", "z.sum()", "sum", "z", None, False),
    ("count_z", "z.count()", "count", "z", None, False),
    ("size_x", "x.size()", "size", "x", None, False),
    ("size_0", "_size()", "_size", None, None, False),
]
FN = {f[0]: f for f in FUNCTIONS}
PCOMBOS = {1: [(1, 1), (2, 1)], 2: [(1, 1), (1, 2), (2, 1)]}  # (p1, p2); with one partition column p2 is constant
OCOMBOS = {0: [(1, 1), (2, 1), (3, 1)], 1: [(1, 1), (2, 1), (3, 1)], 2: [(1, 1), (1, 2), (2, 1)]}  # (o1, o2)
X_DOMAIN = [2.0, 3.0]
Z_DOMAIN = [None, 2.0, 3.0]


def scope(tier: str) -> Dict[str, Any]:
    return {"max_rows": 3 if tier == "quick" else 4}


def window_specs() -> List[Dict[str, Any]]:
    """1-2 partition columns x {no order (group aggregates only), 1-2 order columns x every reversal mask}."""
    out = []
    for np_ in (1, 2):
        part = KEYCOLS[:np_]
        out.append({"id": "p%d/o0" % np_, "np": np_, "no": 0, "partition_by": part, "order_by": [], "reverse": []})
        for no in (1, 2):
            order = ["o1", "o2"][:no]
            for mask in itertools.product([False, True], repeat=no):
                rev = [c for c, m in zip(order, mask) if m]
                out.append({"id": "p%d/o%d/%s" % (np_, no, "".join("d" if m else "a" for m in mask)), "np": np_, "no": no, "partition_by": part, "order_by": order, "reverse": rev})
    return out


_TABLES: Dict[Tuple[int, int, int], List[Dict[str, List[Any]]]] = {}


def tables(np_: int, no: int, max_rows: int) -> List[Dict[str, List[Any]]]:
    """ALL tables with <= max_rows rows whose (partition, order) key tuples are pairwise distinct -- i.e. exactly the
    tables over the small key domains whose window order is total within each partition -- x every assignment of
    z in {None,2,3} to the rows; x in {2,3} takes, for every key set, every assignment as well (paired with the z
    assignments by rotation: functions of x never read z and vice versa).  No nulls in partition / order columns."""
    sig = (np_, no, max_rows)
    if sig not in _TABLES:
        keyspace = [p + o for p in PCOMBOS[np_] for o in OCOMBOS[no]]
        out = []
        si = 0
        for n in range(max_rows + 1):
            for subset in itertools.combinations(keyspace, n):
                si += 1
                rows = list(subset) if si % 2 == 0 else list(reversed(subset))  # not pre-sorted half of the time
                xpats = list(itertools.product(X_DOMAIN, repeat=n))
                for zi, zpat in enumerate(itertools.product(Z_DOMAIN, repeat=n)):
                    xpat = xpats[(zi + si) % len(xpats)]
                    out.append({"p1": [r[0] for r in rows], "p2": [r[1] for r in rows], "o1": [r[2] for r in rows], "o2": [r[3] for r in rows], "x": list(xpat), "z": list(zpat)})
        _TABLES[sig] = out
    return _TABLES[sig]


_ACCEPTED: Dict[Tuple[str, bool], bool] = {}


def builder_accepts(fn: str, ordered: bool) -> bool:
    """The pipeline builder accepts `fn` in an (un)ordered windowed extend (it refuses e.g. sum/count/min/max in an
    ordered window and cumsum/shift/_row_number in an unordered one)."""
    k = (fn, ordered)
    if k not in _ACCEPTED:
        ws = {"id": "probe%d" % ordered, "partition_by": ["p1"], "order_by": ["o1"] if ordered else [], "reverse": []}
        try:
            build_ops(ws, (fn,))
            _ACCEPTED[k] = True
        except ValueError:
            _ACCEPTED[k] = False
    return _ACCEPTED[k]


def applicable(ws: Dict[str, Any]) -> List[str]:
    """Functions in scope for a window specification: ordered functions need an order; group aggregates are run
    without an order and, where the builder accepts them, with one."""
    ordered = ws["no"] > 0
    return [f[0] for f in FUNCTIONS if ((not f[5]) or ordered) and builder_accepts(f[0], ordered)]


_OPS: Dict[Tuple[str, Tuple[str, ...]], Any] = {}


def build_ops(ws: Dict[str, Any], fns: Tuple[str, ...]):
    from data_algebra import TableDescription

    k = (ws["id"], tuple(fns))
    if k not in _OPS:
        td = TableDescription(table_name="d", column_names=list(SCHEMA))
        _OPS[k] = td.extend({f: FN[f][1] for f in fns}, partition_by=list(ws["partition_by"]), order_by=list(ws["order_by"]) or None, reverse=list(ws["reverse"]) or None)
    return _OPS[k]


def describe(ws: Dict[str, Any], fns) -> str:
    return "d.extend(%r, partition_by=%r, order_by=%r, reverse=%r)" % ({f: FN[f][1] for f in fns}, ws["partition_by"], ws["order_by"], ws["reverse"])


_SQLITE_OK: Dict[Tuple[str, bool], bool] = {}


def sqlite_supported(fn: str, ordered: bool) -> bool:
    """op_catalog.methods_table (read live) marks the method use of `fn` in an (un)ordered window 'y' for SQLiteModel."""
    k = (fn, ordered)
    if k not in _SQLITE_OK:
        ws = {"id": "probe%d" % ordered, "partition_by": ["p1"], "order_by": ["o1"] if ordered else [], "reverse": []}
        ops = build_ops(ws, (fn,))
        _SQLITE_OK[k] = C.catalog_supported(ops, ("SQLiteModel",))[0]
    return _SQLITE_OK[k]


CB = O.ContractedBackends(nodes=("ExtendNode",))
_POLARS_RAISES: Dict[Tuple[str, bool], Optional[str]] = {}


def polars_raises(fn: str, ordered: bool) -> Optional[str]:
    """None if Polars evaluates a single-function extend with `fn` on a probe table, else the exception it raises
    (such functions are left out of the Polars batch: 'Polars whenever it does not raise')."""
    k = (fn, ordered)
    if k not in _POLARS_RAISES:
        ws = {"id": "probe%d" % ordered, "partition_by": ["p1"], "order_by": ["o1"] if ordered else [], "reverse": []}
        t = {"p1": [1, 1], "p2": [1, 1], "o1": [2, 1], "o2": [1, 1], "x": [2.0, 3.0], "z": [None, 2.0]}
        o = O.canon_out(C.run_polars(build_ops(ws, (fn,)), {"d": C.to_polars(t, SCHEMA)}))
        _POLARS_RAISES[k] = None if o[0] == "ok" else "%s: %s" % (o[1], o[2][:120])
    return _POLARS_RAISES[k]


def backend_functions(be: str, ws: Dict[str, Any]) -> List[str]:
    fns = applicable(ws)
    ordered = ws["no"] > 0
    if be == "sqlite":
        return [f for f in fns if sqlite_supported(f, ordered)]
    if be == "polars":
        return [f for f in fns if polars_raises(f, ordered) is None]
    return fns


# --------------------------------------------------------------------------------------------------
# one case
# --------------------------------------------------------------------------------------------------


_EXP_CACHE: Dict[str, Any] = {"key": None, "all": None}


def expected(ws: Dict[str, Any], table, fns) -> Tuple[List[str], List[Tuple[Any, ...]]]:
    """Reference result for the functions `fns` (computed once per (window, table) for all applicable functions
    and projected: the three back ends are compared with the same reference values)."""
    cols = list(SCHEMA)
    key = (ws["id"], repr(table))
    if _EXP_CACHE["key"] != key:
        allf = applicable(ws)
        _EXP_CACHE["key"] = key
        _EXP_CACHE["all"] = O.ref_window(cols, O.table_rows(table, cols), ws["partition_by"], ws["order_by"], ws["reverse"], {f: (FN[f][2], FN[f][3], FN[f][4]) for f in allf})
    acols, arows = _EXP_CACHE["all"]
    if any(f not in acols for f in fns):
        return O.ref_window(cols, O.table_rows(table, cols), ws["partition_by"], ws["order_by"], ws["reverse"], {f: (FN[f][2], FN[f][3], FN[f][4]) for f in fns})
    keep = cols + list(fns)
    idx = [acols.index(c) for c in keep]
    return keep, [tuple(r[i] for i in idx) for r in arows]


def compare(exp, obs, fns) -> Dict[str, Any]:
    """Per-function verdicts; rows are aligned by their (unique) key tuple.
    -> {'frame': None | reason the frame as a whole is wrong, 'fns': {fn: None | [(key, expected, observed), ...]}}"""
    ecols, erows = exp
    ocols, orows = obs[1], obs[2]
    if len(set(ocols)) != len(ocols) or set(ocols) != set(ecols):
        return {"frame": "column sets differ: expected %r observed %r" % (ecols, ocols), "fns": {}}
    kidx_e = [ecols.index(c) for c in KEYCOLS]
    kidx_o = [ocols.index(c) for c in KEYCOLS]
    by_key = {}
    for r in orows:
        by_key.setdefault(tuple(r[i] for i in kidx_o), []).append(r)
    if len(orows) != len(erows) or set(by_key) != set(tuple(r[i] for i in kidx_e) for r in erows) or any(len(v) != 1 for v in by_key.values()):
        return {"frame": "the result does not have exactly the input rows: expected keys %r observed keys %r" % (sorted(tuple(r[i] for i in kidx_e) for r in erows), sorted(tuple(r[i] for i in kidx_o) for r in orows)), "fns": {}}
    res: Dict[str, Any] = {}
    for c in ecols:
        je, jo = ecols.index(c), ocols.index(c)
        bad = []
        for r in erows:
            o = by_key[tuple(r[i] for i in kidx_e)][0]
            if not O.cell_matches(r[je], o[jo]):
                bad.append((tuple(r[i] for i in kidx_e), r[je], o[jo]))
        if c in fns:
            res[c] = bad or None
        elif bad:
            return {"frame": "input column %s changed: %r" % (c, bad[:3]), "fns": {}}
    return {"frame": None, "fns": res}


def eval_backend(ws: Dict[str, Any], table, be: str, fns: Optional[List[str]] = None) -> Dict[str, Any]:
    """-> {'fns': {fn: {'status': ok|fail|raise|skipped, 'detail', 'bad'}}} for one back end on one (window, table)."""
    fns = list(fns if fns is not None else backend_functions(be, ws))
    out: Dict[str, Any] = {}
    if not fns:
        return {"fns": out}
    ops = build_ops(ws, tuple(fns))
    exp = expected(ws, table, fns)
    holder: Dict[str, Any] = {}

    def check(obs):
        holder["cmp"] = compare(exp, obs, fns)
        c = holder["cmp"]
        bad = [f for f, b in c["fns"].items() if b]
        ok = c["frame"] is None and not bad
        return ok, (c["frame"] or ("functions with wrong values: %r" % bad if bad else ""))

    r = CB.run(be, ops, "%s|%s|%s" % (ws["id"], be, ",".join(fns)), {"d": (table, SCHEMA)}, check)
    if r["obs"][0] != "ok":
        if len(fns) > 1:  # isolate the function(s) that make the batch raise
            for f in fns:
                out.update(eval_backend(ws, table, be, [f])["fns"])
            return {"fns": out}
        st = "skipped" if be == "polars" else "raise"  # Polars: 'whenever it does not raise'
        out[fns[0]] = {"status": st, "detail": "%s: %s" % (r["obs"][1], r["obs"][2]), "obs": r["obs"]}
        return {"fns": out}
    c = holder["cmp"]
    for f in fns:
        if c["frame"] is not None:
            out[f] = {"status": "fail", "detail": c["frame"], "bad": None, "obs": r["obs"], "exp": exp}
        elif c["fns"][f]:
            b = c["fns"][f]
            out[f] = {"status": "fail", "detail": "row %r: expected %r, observed %r (%d wrong row(s))" % (b[0][0], b[0][1], b[0][2], len(b)), "bad": b, "obs": r["obs"], "exp": exp}
        else:
            out[f] = {"status": "ok", "detail": ""}
    return {"fns": out}


# --------------------------------------------------------------------------------------------------
# classification (narrow: every wrong cell must be exactly what the known defect produces)
# --------------------------------------------------------------------------------------------------


def _column(tab_cols, tab_rows, col) -> Dict[Tuple, Any]:
    kidx = [tab_cols.index(c) for c in KEYCOLS]
    j = tab_cols.index(col)
    return {tuple(r[i] for i in kidx): r[j] for r in tab_rows}


def classify(ws: Dict[str, Any], table, be: str, fn: str, r: Dict[str, Any], case: Dict[str, Any]) -> str:
    if r["status"] == "fail" and r.get("bad"):
        exp, obs = r["exp"], r["obs"]
        e = _column(exp[0], exp[1], fn)
        o = _column(obs[1], obs[2], fn)
        arg = FN[fn][3]
        a = _column(exp[0], exp[1], arg) if arg else {}
        if be == "pandas" and FN[fn][2] in ("cumsum", "cummax", "cummin", "cumprod") and any(v is None for v in a.values()):
            # pandas: null at the rows whose own value is null, the reference running value everywhere else
            if all(C.values_equiv(o[k], None if a[k] is None else e[k]) for k in e):
                return "%s:pandas_base.PandasModelBase._extend_step:cumulative-aggregate-over-null-value" % PID
        if be == "pandas" and FN[fn][2] == "cumcount":
            # pandas GroupBy.cumcount: 0-based position of the row in its partition (nulls counted)
            rn = _column(*O.ref_window(list(SCHEMA), O.table_rows(table, list(SCHEMA)), ws["partition_by"], ws["order_by"], ws["reverse"], {fn: ("_row_number", None, None)}), fn)
            if all(C.values_equiv(o[k], rn[k] - 1) for k in e):
                return "%s:pandas_base.PandasModelBase._extend_step:cumcount-is-zero-based-row-position" % PID
    return "%s:unclassified:%s" % (PID, C.case_hash(dict(case, backend=be, fn=fn)))


# --------------------------------------------------------------------------------------------------
# driver
# --------------------------------------------------------------------------------------------------


def _worker(job):
    sc = job["sc"]
    ws = {w["id"]: w for w in window_specs()}[job["ws"]]
    tabs = tables(ws["np"], ws["no"], sc["max_rows"])
    counts = collections.Counter()
    results = []
    samples = []
    for ti in job["tis"]:
        table = tabs[ti]
        for be in BACKENDS:
            try:
                r = eval_backend(ws, table, be)
            except Exception as e:
                import traceback

                results.append({"harness": "%s: %s | %s" % (type(e).__name__, e, traceback.format_exc()[-500:]), "ti": ti, "be": be})
                continue
            for f, fr in r["fns"].items():
                trivial = len(table["x"]) == 0
                counts["%s:%s%s" % (be, fr["status"], ":empty" if (trivial and fr["status"] == "ok") else "")] += 1
                if fr["status"] in ("fail", "raise"):
                    case = {"window": ws["id"], "table": table}
                    results.append({"be": be, "fn": f, "ti": ti, "status": fr["status"], "detail": fr["detail"][:300], "key": classify(ws, table, be, f, fr, case), "case": case})
            if not samples and len(table["x"]) >= 3 and be == "pandas":
                samples.append({"extend": describe(ws, list(r["fns"])[:4]) + " ...", "d": table, "backend": be, "status": {f: fr["status"] for f, fr in list(r["fns"].items())[:6]}})
    return {"ws": job["ws"], "n": len(job["tis"]), "counts": dict(counts), "results": results, "samples": samples, "wrap": wrap.snapshot(), "polars_raises": {"%s/%s" % k: v for k, v in _POLARS_RAISES.items() if v}}


# --------------------------------------------------------------------------------------------------
# two consecutive windowed extends over the same partition whose orderings use the same columns in a
# different priority: each step's values must follow ITS declared order (the builder may only merge steps
# with identical window specifications)
# --------------------------------------------------------------------------------------------------
SEQ_FIRST = {"cumsum_x": ("x.cumsum()", "cumsum", "x", None), "row_number": ("_row_number()", "_row_number", None, None)}
SEQ_SECOND = {"cumsum_x_2": ("x.cumsum()", "cumsum", "x", None), "row_number_2": ("_row_number()", "_row_number", None, None)}


def _worker_seq(job):
    from data_algebra import TableDescription

    sc = job["sc"]
    ws = {w["id"]: w for w in window_specs()}[job["ws"]]
    tabs = tables(ws["np"], ws["no"], sc["max_rows"])
    ob2 = list(reversed(ws["order_by"]))
    td = TableDescription(table_name="d", column_names=list(SCHEMA))
    ops = td.extend({k: v[0] for k, v in SEQ_FIRST.items()}, partition_by=list(ws["partition_by"]), order_by=list(ws["order_by"]), reverse=list(ws["reverse"]) or None) \
        .extend({k: v[0] for k, v in SEQ_SECOND.items()}, partition_by=list(ws["partition_by"]), order_by=ob2, reverse=list(ws["reverse"]) or None)
    text = "d.extend(%r, partition_by=%r, order_by=%r, reverse=%r).extend(%r, partition_by=%r, order_by=%r, reverse=%r)" % (
        {k: v[0] for k, v in SEQ_FIRST.items()}, ws["partition_by"], ws["order_by"], ws["reverse"], {k: v[0] for k, v in SEQ_SECOND.items()}, ws["partition_by"], ob2, ws["reverse"])
    cols = list(SCHEMA)
    fns = list(SEQ_FIRST) + list(SEQ_SECOND)
    counts = collections.Counter()
    results = []
    for ti in job["tis"]:
        table = tabs[ti]
        if len(table["x"]) < 2:
            continue
        c1, r1 = O.ref_window(cols, O.table_rows(table, cols), ws["partition_by"], ws["order_by"], ws["reverse"], {k: v[1:] for k, v in SEQ_FIRST.items()})
        c2, r2 = O.ref_window(c1, r1, ws["partition_by"], ob2, ws["reverse"], {k: v[1:] for k, v in SEQ_SECOND.items()})
        exp = (c2, r2)
        for be in BACKENDS:
            holder = {}

            def check(obs):
                holder["cmp"] = compare(exp, obs, fns)
                c = holder["cmp"]
                bad = [f for f, b in c["fns"].items() if b]
                return (c["frame"] is None and not bad), (c["frame"] or ("functions with wrong values: %r" % bad if bad else ""))

            try:
                r = CB.run(be, ops, "seq|%s|%s" % (ws["id"], be), {"d": (table, SCHEMA)}, check)
            except Exception as e:
                results.append({"harness": "%s: %s" % (type(e).__name__, e), "ti": ti, "be": be})
                continue
            if r["obs"][0] != "ok":
                st = "skipped" if be == "polars" else "raise"
                counts["seq:%s:%s" % (be, st)] += 1
                if st == "raise":
                    results.append({"be": be, "ti": ti, "status": "raise", "detail": "%s: %s" % (r["obs"][1], r["obs"][2]), "text": text, "table": table})
                continue
            c = holder["cmp"]
            bad = [f for f, b in c["fns"].items() if b]
            if c["frame"] is not None or bad:
                counts["seq:%s:fail" % be] += 1
                d = c["frame"] or "; ".join("%s row %r: expected %r, observed %r" % (f, c["fns"][f][0][0], c["fns"][f][0][1], c["fns"][f][0][2]) for f in bad)
                results.append({"be": be, "ti": ti, "status": "fail", "detail": d[:400], "text": text, "table": table})
            else:
                counts["seq:%s:ok" % be] += 1
    return {"ws": job["ws"], "counts": dict(counts), "results": results, "wrap": wrap.snapshot()}


def make_seq_jobs(tier: str):
    sc = scope(tier)
    jobs = []
    for ws in window_specs():
        if ws["no"] != 2:
            continue
        n = len(tables(ws["np"], ws["no"], sc["max_rows"]))
        step = 3 if tier == "quick" else 1  # quick: every third table
        tis = list(range(0, n, step))
        for i in range(0, len(tis), 120):
            jobs.append({"ws": ws["id"], "tis": tis[i:i + 120], "sc": sc})
    return jobs


def make_jobs(tier: str):
    sc = scope(tier)
    jobs = []
    for ws in window_specs():
        n = len(tables(ws["np"], ws["no"], sc["max_rows"]))
        per = 150
        for i in range(0, n, per):
            jobs.append({"ws": ws["id"], "tis": list(range(i, min(n, i + per))), "sc": sc})
    return sc, jobs


def bounded(rep: Report, tier: str, seed: int) -> None:
    t0 = time.time()
    sc, jobs = make_jobs(tier)
    jobs.sort(key=lambda j: (j["tis"][0], j["ws"]))
    outs = O.run_parallel(_worker, jobs, chunksize=1)
    counts = collections.Counter()
    n_cases = 0
    praises: Dict[str, str] = {}
    for o in outs:
        wrap.merge(o["wrap"])
        n_cases += o["n"]
        praises.update(o["polars_raises"])
        for k, v in o["counts"].items():
            counts[k] += v
        for s in o["samples"]:
            rep.add_sample(s)
        for r in o["results"]:
            if "harness" in r:
                rep.errors.append("harness error on window %s table #%d %s: %s" % (o["ws"], r["ti"], r["be"], r["harness"]))
                continue
            ws = {w["id"]: w for w in window_specs()}[o["ws"]]
            what = "%s %s for %s in %s with d=%s: %s" % (r["be"], "raised" if r["status"] == "raise" else "computes a wrong window value", FN[r["fn"]][1], describe(ws, [r["fn"]]), r["case"]["table"], r["detail"])
            rep.violations.append(Violation(key=r["key"], what=what, replay={"module": "cbc.c27", "case": dict(r["case"], backend=r["be"], fn=r["fn"])}))
    for o in O.run_parallel(_worker_seq, make_seq_jobs(tier), chunksize=1):
        wrap.merge(o["wrap"])
        for k, v in o["counts"].items():
            counts[k] += v
        for r in o["results"]:
            if "harness" in r:
                rep.errors.append("harness error on sequence window %s table #%d %s: %s" % (o["ws"], r["ti"], r["be"], r["harness"]))
                continue
            case = {"window": o["ws"], "table": r["table"], "sequence": True}
            key = "%s:unclassified:%s" % (PID, __import__("hashlib").sha256(repr((o["ws"], r["be"], r["table"])).encode()).hexdigest()[:8])
            rep.violations.append(Violation(key=key, what="%s %s for %s with d=%s: %s" % (r["be"], "raised" if r["status"] == "raise" else "computes a wrong window value", r["text"], r["table"], r["detail"]),
                                            replay={"module": "cbc.c27", "case": dict(case, backend=r["be"], fn="sequence")}))
    rep.evaluations += sum(counts.values())
    n_nontrivial = sum(v for k, v in counts.items() if k.split(":")[1] in ("ok", "fail") and not k.endswith(":empty"))
    rep.nontrivial_keys |= set((PID, i) for i in range(n_nontrivial))
    rep.violations.sort(key=lambda v: (len(v.replay["case"]["table"]["x"]), len(v.replay["case"]["window"]), v.key, repr(v.replay["case"])))
    O.cap_unclassified(rep)
    wrap.require_evaluated(rep, CB.names())
    rep.extra["status_counts"] = dict(sorted(counts.items()))
    rep.extra["window_table_cases"] = n_cases
    rep.extra["polars_functions_skipped_because_polars_raises"] = praises
    rep.extra["sqlite_functions_by_catalog"] = {"ordered": [f for f in applicable({"no": 1}) if sqlite_supported(f, True)], "unordered": [f for f in applicable({"no": 0}) if sqlite_supported(f, False)]}
    rep.extra["contract_evaluations"] = dict(wrap.EVALS)
    print("C27 bounded: %d (window, table) cases %s in %.1fs" % (n_cases, dict(sorted(counts.items())), time.time() - t0), file=sys.stderr)


def replay_case(case: Dict[str, Any]) -> bool:
    """Re-run one stored case natively; print what was observed; True iff it still fails."""
    ws = {w["id"]: w for w in window_specs()}[case["window"]]
    table = case["table"]
    if case.get("sequence"):
        sc = {"max_rows": len(table["x"])}
        tabs = tables(ws["np"], ws["no"], sc["max_rows"])
        o = _worker_seq({"ws": ws["id"], "tis": [tabs.index(table)], "sc": sc})
        for r in o["results"]:
            print(r.get("be"), r.get("status"), r.get("text"), r.get("detail"))
        return bool(o["results"])
    fns = [case["fn"]] if case.get("fn") else None
    print("pipeline:", describe(ws, fns or applicable(ws)))
    print("table d:", table)
    bad = False
    for be in BACKENDS:
        if case.get("backend") and be != case["backend"]:
            continue
        r = eval_backend(ws, table, be)  # the same batch of functions as in the run
        if fns and fns[0] not in r["fns"] and be == case.get("backend"):
            r = eval_backend(ws, table, be, fns)
        for f, fr in r["fns"].items():
            if fns and f not in fns:
                continue
            if "exp" in fr:
                e = _column(fr["exp"][0], fr["exp"][1], f)
                print("%s %s: reference value per row key (p1,p2,o1,o2): %r" % (be, f, e))
            if "obs" in fr:
                o = fr["obs"]
                print("%s %s: %s" % (be, f, ("returned per row key: %r" % (_column(o[1], o[2], f),)) if o[0] == "ok" and f in o[1] else ("returned columns %r rows %r" % (o[1], o[2]) if o[0] == "ok" else "raised %s: %s" % (o[1], o[2]))))
            key = classify(ws, table, be, f, fr, {"window": ws["id"], "table": table}) if fr["status"] in ("fail", "raise") else ""
            print("%s %s verdict: %s %s %s" % (be, f, fr["status"], key, fr["detail"]))
            bad = bad or fr["status"] in ("fail", "raise")
    return bad
