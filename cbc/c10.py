"""C10 bounded ride-along: unreported columns never influence the result.

Contract on the real ViewRepresentation.columns_used():  for every table t and every column c of t that is NOT in
columns_used()[t], changing every value of c leaves ops.eval(...) (Pandas) and the SQLite result unchanged; and the pipeline
rebuilt over table descriptions narrowed to the reported columns evaluates to the same result on the restricted inputs.
This closes, boundedly, the gap between the spec function `need` used by the proofs and the executors' true dependencies.
bounded: all operator chains of depth 1-2 (3 in thorough, sampled) x a few small tables each.
"""
from __future__ import annotations

import collections
import sys
import time
from typing import Any, Dict, List

from vlib.core import Report, Violation
from cbc import common as C

PID = "C10"
BACKENDS = ("Pandas", "SQLiteModel")


def perturb(values: List[Any], ty: str, variant: int = 0) -> List[Any]:
    """three different ways of changing EVERY value of a column (a single affine change can leave a filter or an order unchanged)"""
    out = []
    n = len(values)
    for i, v in enumerate(values):
        if ty == "int":
            out.append([7 + i if v is None else v + 11 + i, -3 - i if v is None else -(v + 5) - 2 * i, None if v is not None else 1][variant])
        elif ty == "float":
            out.append([3.25 + i if v is None else v * 2.0 + 5.5 + i, -1.75 - i if v is None else -v - 4.5 - (n - i), None if v is not None else 0.5][variant])
        elif ty == "str":
            out.append(["q%d" % i if v is None else v + "z", "A%d" % (n - i), None if v is not None else "m"][variant])
        else:
            out.append([True if v is None else (not v), (i % 2 == 0), None if v is not None else False][variant])
    return out


def eval_case(spec, data) -> Dict[str, Any]:
    import pandas
    from data_algebra.data_ops import TableDescription
    ops = C.build(spec)
    tables = C.spec_tables(spec)
    used = ops.columns_used()
    base_frames = C.pandas_frames(spec, data)
    base = {"pandas": C.run_pandas(ops, base_frames), "sqlite": C.run_sqlite(ops, base_frames)}
    res = {"checked": 0, "skipped": 0, "fails": []}
    for be in list(base):
        if base[be][0] == "ok":
            cols = [str(c) for c in base[be][1].columns]
            if len(set(cols)) != len(cols):
                base[be] = ("raise", "harness", "base result has duplicate column names (property C08's business)")
    for t in tables:
        schema = C.SCHEMAS[t]
        for col in schema:
            if col in used.get(t, set()):
                continue
            for variant in (0, 1, 2):
                pdata = {k: dict(v) for k, v in data.items()}
                pdata[t] = dict(pdata[t])
                pdata[t][col] = perturb(list(data[t][col]), schema[col], variant)
                pframes = C.pandas_frames(spec, pdata)
                for be, runner in (("pandas", C.run_pandas), ("sqlite", C.run_sqlite)):
                    if base[be][0] != "ok":
                        res["skipped"] += 1
                        continue
                    out = runner(ops, pframes)
                    res["checked"] += 1
                    if out[0] != "ok":
                        res["fails"].append({"kind": "perturb", "table": t, "column": col, "backend": be, "variant": variant, "detail": "raises after perturbing an unreported column: %s %s" % (out[1], out[2][:120])})
                        continue
                    ok, why = C.frames_equiv(base[be][1], out[1], ordered=False)
                    if not ok:
                        res["fails"].append({"kind": "perturb", "table": t, "column": col, "backend": be, "detail": "result changed when unreported column %s.%s changed: %s" % (t, col, why[:200])})
    # narrowing: rebuild over descriptions restricted to the reported columns
    if base["pandas"][0] == "ok":
        try:
            repl = {t: TableDescription(table_name=t, column_names=[c for c in C.SCHEMAS[t] if c in used.get(t, set())] or [list(C.SCHEMAS[t])[0]]) for t in tables}
            narrowed = ops.replace_leaves(repl)
        except Exception:
            narrowed = None  # composition defects are property C07's business; counted as skipped here
        if narrowed is None:
            res["skipped"] += 1
        else:
            nframes = {t: base_frames[t][list(repl[t].column_names)] for t in tables}
            out = C.run_pandas(narrowed, nframes)
            res["checked"] += 1
            if out[0] != "ok":
                res["fails"].append({"kind": "narrow", "backend": "pandas", "detail": "narrowed pipeline raises: %s %s" % (out[1], out[2][:160])})
            else:
                ok, why = C.frames_equiv(base["pandas"][1], out[1], ordered=False)
                if not ok:
                    res["fails"].append({"kind": "narrow", "backend": "pandas", "detail": "narrowed pipeline differs: %s" % why[:200]})
    res["used"] = {t: sorted(used.get(t, [])) for t in tables}
    return res


def _worker(job):
    pool = C.data_pool(*job["pool_args"])
    out = []
    for spec, di in job["cases"]:
        try:
            r = eval_case(spec, pool[di])
        except Exception as e:
            import traceback
            r = {"checked": 0, "skipped": 0, "fails": [], "harness_error": "%s: %s | %s" % (type(e).__name__, e, traceback.format_exc()[-500:])}
        r["ids"] = spec["meta"]["ids"]
        r["di"] = di
        r["spec"] = spec if r["fails"] or r.get("harness_error") else None
        out.append(r)
    return out


def bounded(rep: Report, tier: str, seed: int) -> None:
    t0 = time.time()
    max_rows, cap, per = (3, 24, 1) if tier == "quick" else (4, 48, 2)
    pool_args = (max_rows, seed, cap)
    pool = C.data_pool(*pool_args)
    cases = []
    idx = 0
    for depth in ([1, 2] if tier == "quick" else [1, 2, 3]):
        for spec in C.gen_pipelines(depth, tier, two_table=True, backends=BACKENDS):
            if depth == 3 and idx % 4 != seed % 4:
                idx += 1
                continue
            for di in C.pick_data(len(pool), idx, per, seed):
                if sum(len(v) for v in next(iter(pool[di].values())).values()) == 0:
                    di = (di + 1) % len(pool)  # perturbing an empty table shows nothing
                cases.append((spec, di))
            idx += 1
    jobs = [{"cases": sh, "pool_args": pool_args} for sh in C.shard(cases, C.n_workers() * 6) if sh]
    outs = C.run_parallel(_worker, jobs, chunksize=1)
    n_checked = 0
    for o in outs:
        for r in o:
            if r.get("harness_error"):
                if "columns_used" in r["harness_error"] or "build" in r["harness_error"]:
                    rep.errors.append("harness error on %s: %s" % (r["ids"], r["harness_error"]))
                else:
                    rep.errors.append("harness error on %s: %s" % (r["ids"], r["harness_error"]))
                continue
            n_checked += r["checked"]
            rep.case((tuple(r["ids"]), r["di"]), nontrivial=r["checked"] > 0)
            if not r["fails"] and r["checked"] and len(rep.samples) < 6:
                rep.add_sample({"pipeline": "+".join(r["ids"]), "columns_used": r["used"], "perturbation_checks": r["checked"]})
            for f in r["fails"][:2]:
                spec = r["spec"]
                data = {t: pool[r["di"]][t] for t in C.spec_tables(spec)}
                key = "%s:unclassified:%s" % (PID, C.case_hash({"spec": spec, "f": {k: f[k] for k in ("kind", "backend")}, "col": f.get("column")}))
                if f["kind"] == "perturb" and f.get("variant") == 2 and f["backend"] == "pandas" and "raises after perturbing" in f["detail"] and \
                        ("incompatible column types" in f["detail"] or "can't compare" in f["detail"]):
                    # the all-null perturbation of a column nobody reads still trips the Pandas executor's per-column type guess (same defect as C01's key of that name)
                    key = "C10:util.guess_carried_scalar_type:all-null-column"
                rep.violations.append(Violation(key=key, what="%s: %s" % (C.describe(spec), f["detail"]),
                                                replay={"module": "cbc.c10", "case": {"spec": spec, "data": data}}))
    C.sort_violations(rep)
    rep.extra["perturbation_and_narrowing_checks"] = n_checked
    if n_checked == 0:
        rep.errors.append("vacuous: no perturbation was evaluated")
    print("C10 bounded: %d cases, %d checks in %.1fs" % (len(cases), n_checked, time.time() - t0), file=sys.stderr)


def replay_case(case) -> bool:
    print("pipeline:", C.describe(case["spec"]))
    r = eval_case(case["spec"], case["data"])
    print("columns_used:", r["used"])
    for f in r["fails"]:
        print("FAIL:", f)
    if not r["fails"]:
        print("case passes on this tree (%d checks)" % r["checked"])
    return bool(r["fails"])
