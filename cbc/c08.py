"""C08 (bounded): results have exactly the columns the pipeline declares.

Contracts on the REAL entry points that hand a table back to the caller:

    ViewRepresentation.eval (Pandas frames, Polars frames)      post: columns(result) == ops.column_names
    DBHandle.read_query(ops) on a fresh SQLite handle           post: columns(result) == ops.column_names

where `==` means: no duplicate names, same SET of names, and the same ORDER when the last step of the
pipeline is select_columns.  Every prefix of every enumerated pipeline is evaluated as a pipeline of its
own (so every intermediate node is observed as a returned table), on every back end.  A back end that
raises returns no table: counted, not a violation of this property.
"""
from __future__ import annotations

import collections
import sys
import time
from typing import Any, Dict, List, Optional, Tuple

from vlib.core import Report, Violation
from cbc import common as C
from cbc import wrap

PID = "C08"
BACKENDS = ("Pandas",)
NAME_EVAL = "ViewRepresentation.eval"
NAME_SQL = "DBHandle.read_query[SQLite]"

FUNCTIONS_UNDER_CONTRACT = [
    {"file": "data_algebra/view_representations.py", "function": "ViewRepresentation.eval"},
    {"file": "data_algebra/db_model.py", "function": "DBHandle.read_query"},
    {"file": "data_algebra/pandas_base.py", "function": "PandasModelBase.eval"},
    {"file": "data_algebra/polars_model.py", "function": "PolarsModel.eval"},
    {"file": "data_algebra/sql_model.py", "function": "SQLModel.to_sql"},
]

_STATE: Dict[str, Any] = {}
_ATTACHED = False


def check_columns(ops, result_columns: List[str]) -> Optional[str]:
    """None when the returned columns are exactly the declared ones, else a description."""
    declared = list(ops.column_names)
    got = [str(c) for c in result_columns]
    if len(set(got)) != len(got):
        return "duplicate column names in result: %r (declared %r)" % (got, declared)
    if set(got) != set(declared):
        return "result columns %r != declared %r (missing %r, extra %r)" % (got, declared, sorted(set(declared) - set(got)), sorted(set(got) - set(declared)))
    if ops.node_name == "SelectColumnsNode" and got != declared:
        return "column order after select_columns: result %r, declared %r" % (got, declared)
    return None


def _result_columns(value) -> List[str]:
    if C._is_polars(value):
        if hasattr(value, "collect_schema"):
            return list(value.collect_schema().names())
        return list(value.columns)
    return list(value.columns)


def _ensure_attached():
    global _ATTACHED
    if _ATTACHED:
        return
    import data_algebra.db_model
    import data_algebra.view_representations as vr

    def when(call):
        return _STATE.get("active", False)

    def post_eval(call, outcome):
        _STATE["seen"] = True
        if outcome.exception is not None:
            _STATE["verdict"] = ("raised", "%s: %s" % (type(outcome.exception).__name__, str(outcome.exception)[:160]))
            return None
        why = check_columns(call.args[0], _result_columns(outcome.value))
        _STATE["verdict"] = ("ok", "") if why is None else ("fail", why)
        return why

    def when_sql(call):
        return _STATE.get("active", False) and len(call.args) >= 2 and isinstance(call.args[1], vr.ViewRepresentation)

    def post_sql(call, outcome):
        _STATE["seen"] = True
        if outcome.exception is not None:
            _STATE["verdict"] = ("raised", "%s: %s" % (type(outcome.exception).__name__, str(outcome.exception)[:160]))
            return None
        why = check_columns(call.args[1], _result_columns(outcome.value))
        _STATE["verdict"] = ("ok", "") if why is None else ("fail", why)
        return why

    wrap.attach(vr.ViewRepresentation, "eval", wrap.contract(post=post_eval, name=NAME_EVAL, when=when), factory=True)
    wrap.attach(data_algebra.db_model.DBHandle, "read_query", wrap.contract(post=post_sql, name=NAME_SQL, when=when_sql), factory=True)
    _ATTACHED = True


def _run(backend: str, ops, spec, data, wide: bool = False) -> Tuple[str, str]:
    """wide: every input table carries an undeclared extra column and its declared columns in another order"""
    _STATE.clear()
    _STATE["active"] = True
    try:
        if backend == "pandas":
            out = C.run_pandas(ops, C.pandas_frames(spec, data, wide=wide))
        elif backend == "polars":
            out = C.run_polars(ops, C.polars_frames(spec, data, wide=wide), lazy=False)
        elif backend == "polars-lazy":
            out = C.run_polars(ops, C.polars_frames(spec, data, wide=wide), lazy=True)
        elif backend == "polars-eager-mode":
            out = C.run_polars(ops, C.polars_frames(spec, data, wide=wide), lazy=True, use_lazy_eval=False)
        else:
            out = C.run_sqlite(ops, C.pandas_frames(spec, data, wide=wide), via_ops=True)
    finally:
        _STATE["active"] = False
    wrap.take_failures()
    if not _STATE.get("seen"):
        if out[0] == "raise":
            return ("raised", "%s: %s" % (out[1], out[2][:160]))
        raise wrap.HarnessError("contract not evaluated for backend " + backend)
    return _STATE["verdict"]


BACKENDS_RUN = ("pandas", "polars", "polars-lazy", "polars-eager-mode", "sqlite")


def eval_case(spec: Dict[str, Any], data: Dict[str, Any], wide: bool = False) -> Dict[str, Any]:
    """All prefixes (0..n steps) x all back ends.  -> {'evals': [(prefix_len, backend, status, detail)], 'fails': [...]}"""
    _ensure_attached()
    evals = []
    n = len(spec["steps"])
    for plen in range(0, n + 1):
        ps = C.prefix_spec(spec, plen)
        ops = C.build(ps)
        for be in BACKENDS_RUN:
            st, detail = _run(be, ops, ps, data, wide=wide)
            evals.append((plen, be + ("-wide" if wide else ""), st, detail))
    fails = []
    for plen, be, st, detail in evals:
        if st == "fail":
            fails.append({"prefix": plen, "backend": be, "detail": detail, "key": classify(C.prefix_spec(spec, plen), be, detail, data)})
    return {"evals": evals, "fails": fails}


def _parse_cols(detail: str) -> Tuple[List[str], List[str]]:
    """(result columns, declared columns) parsed back from check_columns()' message."""
    import ast
    import re

    m = re.search(r"result:? ?(?:columns )?(\[.*?\])(?: != |, | \()declared (\[.*?\])", detail)
    if not m:
        return [], []
    return list(ast.literal_eval(m.group(1))), list(ast.literal_eval(m.group(2)))


def classify(pspec, backend: str, detail: str, data=None) -> str:
    """Narrow classifiers for the column defects known on the pinned tree; anything else is unclassified."""
    steps = pspec["steps"]
    got, declared = _parse_cols(detail)
    wide = backend.endswith("-wide")
    backend = backend.replace("-wide", "")
    if backend == "sqlite" and got:
        # SQL generation ignores a select_columns whose (effective) source is a convert_records step when
        # the selection only reaches the result through SELECT *: the result has the record-map columns
        from cbc import sem

        trace: List[Any] = []
        ops = C.build(pspec, trace=trace)
        st = sem.analyse_sql_structure(ops)
        if wide and st.table_star and st.raise_kind is None and set(got) - set(declared) == {C.EXTRA_COL} and not (set(declared) - set(got)):
            # the generated SQL is `SELECT * FROM <table>` (possibly under ORDER BY / LIMIT): columns of the
            # database table that the TableDescription does not declare come back in the result
            return "%s:sql_model.SQLModel.table_def_to_near_sql:undeclared-table-column-through-select-star" % PID
        if st.select_ignored and st.raise_kind is None:
            conv = [n for n in trace if n.node_name == "ConvertRecordsNode"]
            if conv and got == list(conv[-1].column_names):
                return "%s:sql_model.SQLModel.select_columns_to_near_sql:select_columns-after-convert_records" % PID
    if backend in ("pandas", "polars", "polars-lazy", "polars-eager-mode") and data is not None and got:
        # blocks_to_rowrecs builds its result columns from the key values present in the data: the defect
        # is already visible in what this back end returns right after the convert_records step
        be = "pandas" if backend == "pandas" else "polars"
        for j, (op, p) in enumerate(steps):
            if op == "convert_records" and p["kind"] == "blocks_to_rowrecs":
                pc = C.PrefixCache(pspec, data)
                pr = pc.rows(j, backend=be)
                after = pc.rows(j + 1, backend=be)
                if pr[0] != "ok" or after[0] != "ok":
                    continue
                ok, why = C.records_precondition(pr[1], pr[2], p)
                declared_j = list(p["record_keys"]) + list(p["value_cols"])
                missing_j = set(declared_j) - set(map(str, after[1]))
                extra_j = set(map(str, after[1])) - set(declared_j)
                if (not ok) and (missing_j or extra_j) and missing_j <= set(p["value_cols"]) and all(e not in C.SCHEMAS["d"] for e in extra_j):
                    if len(set(declared) - set(got)) <= len(missing_j) + len(extra_j) and len(set(got) - set(declared)) <= len(extra_j):
                        site = "pandas_base.PandasModelBase.blocks_to_rowrecs" if backend == "pandas" else "polars_model.PolarsModel.blocks_to_rowrecs"
                        return "%s:%s:block-key-values-missing-or-unknown-in-data" % (PID, site)
    return "%s:unclassified:%s" % (PID, C.case_hash({"spec": pspec, "backend": backend, "detail": detail.split(" (missing")[0]}))


def _worker(job):
    pool = C.data_pool(*job["pool_args"])
    out = []
    for spec, di, wide in job["cases"]:
        data = pool[di]
        try:
            r = eval_case(spec, data, wide)
        except Exception as e:
            import traceback

            r = {"evals": [], "fails": [], "harness_error": "%s: %s | %s" % (type(e).__name__, e, traceback.format_exc()[-600:])}
        r["ids"] = spec["meta"]["ids"]
        r["di"] = di
        r["wide"] = wide
        r["spec"] = spec if (r["fails"] or r.get("harness_error")) else None
        out.append(r)
    return {"results": out, "wrap": wrap.snapshot()}


def scope(tier: str):
    if tier == "quick":
        return {"depths": [1, 2], "max_rows": 3, "cap": 40, "per_spec": 2, "depth3_per_spec": 0}
    return {"depths": [1, 2, 3], "max_rows": 4, "cap": 64, "per_spec": 4, "depth3_per_spec": 2}


def make_cases(tier: str, seed: int):
    sc = scope(tier)
    n_pool = len(C.data_pool(sc["max_rows"], seed, sc["cap"]))
    cases = []
    idx = 0
    for depth in sc["depths"]:
        per = sc["per_spec"] if depth < 3 else sc["depth3_per_spec"]
        for spec in C.gen_pipelines(depth, tier, two_table=True, backends=BACKENDS):
            picks = C.pick_data(n_pool, idx, per, seed)
            if 0 not in picks and idx % 2 == 1:
                picks = [0] + picks[:-1]  # empty inputs for (at least) every second pipeline
            for j, di in enumerate(picks):
                cases.append((spec, di, (idx + j) % 2 == 1))  # every second evaluation uses wide inputs
            idx += 1
    return sc, cases


def bounded(rep: Report, tier: str, seed: int) -> None:
    t0 = time.time()
    sc, cases = make_cases(tier, seed)
    pool_args = (sc["max_rows"], seed, sc["cap"])
    jobs = [{"cases": sh, "pool_args": pool_args} for sh in C.shard(cases, C.n_workers() * 8) if sh]
    outs = C.run_parallel(_worker, jobs, chunksize=1)
    counts = collections.Counter()
    pool = C.data_pool(*pool_args)
    for o in outs:
        wrap.merge(o["wrap"])
        for r in o["results"]:
            if r.get("harness_error"):
                rep.errors.append("harness error on %s data#%d: %s" % (r["ids"], r["di"], r["harness_error"]))
                continue
            for plen, be, st, detail in r["evals"]:
                counts["%s %s" % (be, st)] += 1
                rep.case((tuple(r["ids"][:plen]), r["di"], be), nontrivial=(st in ("ok", "fail")))
            if not r["fails"] and r["evals"]:
                rep.add_sample({"pipeline": "+".join(r["ids"]), "data": r["di"], "evaluations": len(r["evals"])})
            for f in r["fails"]:
                spec = C.prefix_spec(r["spec"], f["prefix"])
                data = {t: pool[r["di"]][t] for t in C.spec_tables(spec)}
                rep.violations.append(
                    Violation(
                        key=f["key"],
                        what="%s returned columns that differ from ops.column_names for %s with %s: %s" % (f["backend"], C.describe(spec), _short(data), f["detail"][:300]),
                        replay={"module": "cbc.c08", "case": {"spec": spec, "data": data, "backend": f["backend"], "wide": r["wide"]}},
                    )
                )
    C.sort_violations(rep)
    wrap.require_evaluated(rep, [NAME_EVAL, NAME_SQL])
    rep.extra["status_counts"] = dict(counts)
    rep.extra["contract_evaluations"] = dict(wrap.EVALS)
    print("C08 bounded: %d cases %s in %.1fs" % (len(cases), dict(counts), time.time() - t0), file=sys.stderr)


def _short(data) -> str:
    return "; ".join("%s=%s" % (t, {c: v for c, v in tab.items()}) for t, tab in data.items())[:300]


def replay_case(case: Dict[str, Any]) -> bool:
    spec, data = case["spec"], case["data"]
    print("pipeline:", C.describe(spec))
    for t, tab in data.items():
        print("table %s: %r" % (t, tab))
    ops = C.build(spec)
    print("declared ops.column_names:", list(ops.column_names))
    _ensure_attached()
    failed = False
    for be in BACKENDS_RUN:
        if case.get("backend") and be != case["backend"].replace("-wide", ""):
            continue
        st, detail = _run(be, ops, spec, data, wide=bool(case.get("wide")))
        print("%s: %s %s" % (be, st, detail))
        failed = failed or st == "fail"
    return failed
