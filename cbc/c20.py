"""C20 bounded ride-along: every history of data-space operations up to a length bound against a dict model, on the real
DataModelSpace and on the real DBSpace with an in-memory SQLite handle.
bounded: histories <= 3 (quick) / 4 (thorough) over keys {'a','da_temp_1',None}, flags, two pipelines."""
import itertools
from vlib.core import Report, Violation

KEYS = ["a", "da_temp_1", None]


def _frames():
    import pandas
    return {"f1": pandas.DataFrame({"x": [1, 2]}), "f2": pandas.DataFrame({"x": [5]})}


def alphabet():
    ops = []
    for k in KEYS:
        for ow in (True, False):
            ops.append(("insert", k, "f1", ow))
        ops.append(("insert", k, "f2", True))
    for k in ("a", "da_temp_1", None):
        for ow in (True, False):
            ops.append(("execute", k, "a", ow))  # pipeline reading table 'a'
    ops.append(("execute", "a", "da_temp_1", True))
    for k in ("a", "da_temp_1"):
        ops += [("remove", k), ("retrieve", k), ("describe", k)]
    ops.append(("keys",))
    return ops


def _eq(a, b):
    return list(a.columns) == list(b.columns) and a.reset_index(drop=True).astype(float).equals(b.reset_index(drop=True).astype(float))


def run_history(kind, hist):
    """returns None or a description of the first disagreement with the keyed-store model."""
    import data_algebra
    from data_algebra.data_ops import TableDescription
    frames = _frames()
    if kind == "mem":
        import data_algebra.data_model_space as m
        sp = m.DataModelSpace()
    else:
        import data_algebra.db_space as m
        import data_algebra.SQLite
        sp = m.DBSpace(data_algebra.SQLite.example_handle())
    model = {}
    auto_seen = 0
    try:
        for i, op in enumerate(hist):
            what = op[0]
            before = dict(model)
            exp_fail = None
            if what == "insert":
                _, k, fr, ow = op
                if k is not None and (not ow) and k in model:
                    exp_fail = True
                real_exc = None
                try:
                    r = sp.insert(key=k, value=frames[fr], allow_overwrite=ow)
                    newkeys = set(sp.keys()) - set(model)
                except Exception as e:
                    real_exc = e
                if exp_fail:
                    if real_exc is None:
                        return "step %d %r: overwrote an entry although allow_overwrite=False" % (i, op)
                elif real_exc is not None:
                    return "step %d %r: raised %r although the store model accepts it" % (i, op, real_exc)
                else:
                    if k is None:
                        if len(newkeys) != 1:
                            return "step %d %r: automatic key replaced an existing entry (keys now %r, before %r)" % (i, op, sorted(sp.keys()), sorted(model))
                        k = list(newkeys)[0]
                    model[k] = frames[fr]
            elif what == "execute":
                _, k, src, ow = op
                ops = TableDescription(table_name=src, column_names=["x"]).extend({"x": "x + 1"})
                must_fail = (src not in model) or (k is not None and (not ow) and k in model)
                real_exc = None
                try:
                    sp.execute(ops, key=k, allow_overwrite=ow)
                    newkeys = set(sp.keys()) - set(model)
                except Exception as e:
                    real_exc = e
                if must_fail:
                    if real_exc is None:
                        return "step %d %r: succeeded although the store model rejects it" % (i, op)
                elif real_exc is not None:
                    return "step %d %r: raised %r although the store model accepts it" % (i, op, real_exc)
                else:
                    val = model[src].copy()
                    val["x"] = val["x"] + 1
                    if k is None:
                        if len(newkeys) != 1:
                            return "step %d %r: automatic key replaced an existing entry" % (i, op)
                        k = list(newkeys)[0]
                    model[k] = val
            elif what == "remove":
                real_exc = None
                try:
                    sp.remove(op[1])
                except Exception as e:
                    real_exc = e
                if (op[1] in model) == (real_exc is not None):
                    return "step %d %r: remove raised=%r but key present=%r" % (i, op, real_exc, op[1] in model)
                model.pop(op[1], None)
            elif what in ("retrieve", "describe"):
                real_exc = None
                try:
                    r = getattr(sp, what)(op[1])
                except Exception as e:
                    real_exc = e
                if (op[1] in model) == (real_exc is not None):
                    return "step %d %r: raised=%r but key present=%r" % (i, op, real_exc, op[1] in model)
                if real_exc is None and what == "retrieve" and not _eq(r, model[op[1]]):
                    return "step %d %r: retrieved %r, model %r" % (i, op, r.to_dict("list"), model[op[1]].to_dict("list"))
            # after every step (also failed ones): keys and contents are exactly the model's
            if set(sp.keys()) != set(model):
                return "step %d %r: keys %r, model %r" % (i, op, sorted(sp.keys()), sorted(model))
            for kk, vv in model.items():
                got = sp.retrieve(kk)
                if not _eq(got, vv):
                    return "step %d %r: entry %r holds %r, model %r" % (i, op, kk, got.to_dict("list"), vv.to_dict("list"))
    finally:
        try:
            sp.close()
        except Exception:
            pass
    return None


def classify(kind, hist, msg):
    """narrow classifier for the recorded DBSpace finding: overwrite-execute drops the old table before running the query."""
    if kind == "db":
        for i, op in enumerate(hist):
            if op[0] == "execute" and op[1] is not None and op[3] is True and ("step %d " % i) in msg and ("keys [" in msg or "although the store model accepts it" in msg or "entry " in msg):
                # failing step is an execute onto an existing key whose pipeline reads that same key, or whose query fails
                return "C20:DBSpace.execute:overwrite-drops-entry-before-query"
    return "C20:unclassified:%s:%s" % (kind, abs(hash(repr(hist))) % (16 ** 8))


def bounded(rep: Report, tier: str, seed: int) -> None:
    maxlen = 3 if tier == "quick" else 4
    alpha = alphabet()
    # to keep the space tractable: first op is always an insert of 'a' or 'da_temp_1' (histories that start empty are covered by n<=2)
    seen_fail = {}
    for kind in ("mem", "db"):
        for n in range(1, maxlen + 1):
            pool = alpha if n <= 2 else [o for o in alpha if o[0] in ("insert", "execute", "remove")]
            seqs = itertools.product(pool, repeat=n)
            for hist in seqs:
                if n >= 3 and hist[0][0] != "insert":
                    continue
                if kind == "db" and n >= 3 and (hash(repr(hist)) + seed) % (1 if tier == "thorough" else 3) != 0:
                    continue
                msg = run_history(kind, list(hist))
                rep.case((kind, repr(hist)), nontrivial=n >= 2)
                if n == 2 and len(rep.samples) < 4:
                    rep.add_sample({"space": kind, "history": [list(o) for o in hist]})
                if msg:
                    key = classify(kind, hist, msg)
                    if seen_fail.get(key, 0) < 2:
                        seen_fail[key] = seen_fail.get(key, 0) + 1
                        rep.violations.append(Violation(key=key, what="%s space, history %r: %s" % (kind, list(hist), msg),
                                                        replay={"module": "cbc.c20", "case": {"space": kind, "history": [list(o) for o in hist]}}))


def replay_case(case) -> bool:
    msg = run_history(case["space"], [tuple(o) for o in case["history"]])
    print(msg or "case passes on this tree")
    return bool(msg)


def witness_dbspace_overwrite():
    """recorded finding: DBSpace.execute(key=existing, allow_overwrite=True) removes the entry before running the query."""
    msg = run_history("db", [("insert", "a", "f1", True), ("execute", "a", "a", True)])
    return {"fails": bool(msg), "observed": msg}
