"""C09 (bounded): aggregation returns one row per group, and one row without grouping; a windowed extend keeps
every row and computes each row's value over that row's group (null keys are groups).

Contracts (cbc.wrap) on the REAL

    PandasModelBase._project_step / _extend_step     (dispatch-table entries of the live default Pandas model)
    PolarsModel._project_step / _extend_step         (dispatch-table entries of the live default Polars model)
    DBHandle.read_query                              (SQLite handle; whole pipeline)

    post(_project_step(op)) :=  rows(result) is exactly one row per distinct key tuple of the MATERIALISED input of
                                the step (null a key value of its own); exactly 1 row when group_by is empty
    post(_extend_step(op))  :=  [windowed op] result == input rows, each extended with the reference aggregate
                                (sum/mean/min/max/count) over the rows of its partition
    post(read_query(q))     :=  the same statements about the result of the whole pipeline (all steps after the
                                project are row-preserving: extend / select_columns / drop_columns)

The materialised input of the step is obtained by really evaluating the pipeline prefix on the same back end.
The final result of the whole pipeline is checked on Pandas and Polars as well (a later step that overwrites or
drops every output of the project must not change the number of rows).
"""
from __future__ import annotations

import collections
import itertools
import sys
import time
from typing import Any, Dict, List, Optional, Tuple

from vlib.core import Report, Violation
from cbc import common as C
from cbc import wrap
from cbc import oracles_b as O

PID = "C09"
BACKENDS = ("pandas", "polars", "polars-eager", "sqlite")  # polars-eager: the same executor with use_lazy_eval=False (its own code path for empty results)
CONTRACTS = {
    ("pandas", "project"): "PandasModelBase._project_step",
    ("pandas", "wext"): "PandasModelBase._extend_step[windowed]",
    ("polars", "project"): "PolarsModel._project_step",
    ("polars", "wext"): "PolarsModel._extend_step[windowed]",
    ("polars-eager", "project"): "PolarsModel._project_step",
    ("polars-eager", "wext"): "PolarsModel._extend_step[windowed]",
    ("sqlite", "project"): "DBHandle.read_query[SQLite]",
    ("sqlite", "wext"): "DBHandle.read_query[SQLite]",
}
FUNCTIONS_UNDER_CONTRACT = [
    {"file": "data_algebra/pandas_base.py", "function": "PandasModelBase._project_step"},
    {"file": "data_algebra/pandas_base.py", "function": "PandasModelBase._extend_step"},
    {"file": "data_algebra/polars_model.py", "function": "PolarsModel._project_step"},
    {"file": "data_algebra/polars_model.py", "function": "PolarsModel._extend_step"},
    {"file": "data_algebra/db_model.py", "function": "DBHandle.read_query"},
    {"file": "data_algebra/sql_model.py", "function": "SQLModel.project_to_near_sql"},
    {"file": "data_algebra/sql_model.py", "function": "SQLModel.extend_to_near_sql"},
]

AGG = collections.OrderedDict([("s", ("sum", "x")), ("m", ("mean", "x")), ("lo", ("min", "x")), ("hi", ("max", "x")), ("n", ("count", "x"))])
AGG_EXPR = collections.OrderedDict((k, "%s.%s()" % (a, m)) for k, (m, a) in AGG.items())
KEYSETS = [[], ["g"], ["g", "k"]]
G_DOMAIN = [None, "a", "b"]
X_DOMAIN = [None, 1.0, 2.0]
PREFIXES = ["none", "select_rows"]
SUFFIXES = ["none", "overwrite-all", "select-away-all", "drop-all"]


def scope(tier: str) -> Dict[str, Any]:
    if tier == "quick":
        return {"max_rows": 3, "k_domain": [None, 1]}
    return {"max_rows": 4, "k_domain": [None, 1]}


# --------------------------------------------------------------------------------------------------
# pipelines and tables
# --------------------------------------------------------------------------------------------------


def pipelines() -> List[Dict[str, Any]]:
    """All pipelines of the scope: {id, kind: project|wext, keys, spec (cbc.common spec over table d), focus}."""
    out = []
    for keys in KEYSETS:
        for prefix in PREFIXES:
            pre = [["select_rows", {"expr": "x > 1"}]] if prefix == "select_rows" else []
            for suffix in SUFFIXES:
                steps = list(pre) + [["project", {"ops": dict(AGG_EXPR), "group_by": list(keys)}]]
                if suffix == "overwrite-all":
                    steps.append(["extend", {"ops": {c: "1" for c in AGG_EXPR}}])
                elif suffix == "select-away-all":
                    if keys:
                        steps.append(["select_columns", {"columns": list(keys)}])
                    else:
                        steps += [["extend", {"ops": {"c": "1"}}], ["select_columns", {"columns": ["c"]}]]
                elif suffix == "drop-all":
                    if not keys:
                        steps.append(["extend", {"ops": {"c": "1"}}])
                    steps.append(["drop_columns", {"columns": list(AGG_EXPR)}])
                out.append({"id": "project[%s]/%s/%s" % (",".join(keys), prefix, suffix), "kind": "project", "keys": list(keys), "focus": len(pre), "spec": {"table": "d", "steps": steps}})
            steps = list(pre) + [["extend", {"ops": dict(AGG_EXPR), "partition_by": (list(keys) or 1)}]]
            out.append({"id": "wext[%s]/%s" % (",".join(keys), prefix), "kind": "wext", "keys": list(keys), "focus": len(pre), "spec": {"table": "d", "steps": steps}})
    return out


_TABLES: Dict[Tuple, List[Dict[str, List[Any]]]] = {}


def tables(keys: List[str], max_rows: int, k_domain: List[Any]) -> List[Dict[str, List[Any]]]:
    """ALL tables d (as multisets of rows; row order is not an input here) with <= max_rows rows over the columns
    that matter for the key set: g in {None,a,b} if grouped by g, k in k_domain if grouped by k, x in {None,1,2};
    the other columns are constant (g='a', k=1, y=0.5).  Includes the empty table and null keys."""
    sig = (tuple(keys), max_rows, tuple(k_domain))
    if sig not in _TABLES:
        gd = G_DOMAIN if "g" in keys else ["a"]
        kd = k_domain if "k" in keys else [1]
        dom = list(itertools.product(gd, kd, X_DOMAIN))
        out = []
        for n in range(max_rows + 1):
            for rows in itertools.combinations_with_replacement(dom, n):
                out.append({"g": [r[0] for r in rows], "k": [r[1] for r in rows], "x": [r[2] for r in rows], "y": [0.5 for _ in rows]})
        _TABLES[sig] = out
    return _TABLES[sig]


_BUILT: Dict[str, Any] = {}


def built(p: Dict[str, Any]):
    """(full pipeline, pipeline prefix feeding the focus step) -- built once per process."""
    if p["id"] not in _BUILT:
        _BUILT[p["id"]] = (C.build(p["spec"]), C.build(p["spec"], upto=p["focus"]))
    return _BUILT[p["id"]]


# --------------------------------------------------------------------------------------------------
# expectations
# --------------------------------------------------------------------------------------------------


def expect(p: Dict[str, Any], inp_cols, inp_rows) -> Dict[str, Any]:
    """What the focus step must return for the materialised input (inp_cols, inp_rows)."""
    if p["kind"] == "project":
        keys = O.distinct_keys(inp_cols, inp_rows, p["keys"]) if p["keys"] else [()]
        return {"kind": "project", "by": list(p["keys"]), "keys": keys, "n": len(keys)}
    cols, rows = O.ref_windowed_group(inp_cols, inp_rows, p["keys"], AGG)
    return {"kind": "wext", "cols": cols, "rows": rows, "n": len(rows)}


def check(exp: Dict[str, Any], obs, final: bool) -> Tuple[bool, str]:
    """Compare an observed table ('ok', cols, rows) with the expectation.  final=True: the table is the result of
    the whole pipeline, whose later steps may have dropped key columns (then only the row count is checked)."""
    cols, rows = obs[1], obs[2]
    if exp["kind"] == "wext":
        return O.table_matches((exp["cols"], exp["rows"]), (cols, rows))
    if len(rows) != exp["n"]:
        return False, "expected %d row(s) (distinct key tuples %r), observed %d" % (exp["n"], exp["keys"], len(rows))
    by = exp["by"]
    if by and all(c in cols for c in by):
        idx = [list(cols).index(c) for c in by]
        got = [tuple(r[i] for i in idx) for r in rows]
        ok, why = C.frames_equiv((by, got), (by, exp["keys"]))
        if not ok:
            return False, "key tuples of the result are not the distinct key tuples of the input: " + why
    elif by and not final:
        return False, "group_by columns %r missing from the step result %r" % (by, cols)
    return True, ""


# --------------------------------------------------------------------------------------------------
# contracts
# --------------------------------------------------------------------------------------------------

_STATE: Dict[str, Any] = {"active": None}
_ATTACHED = False


def _models():
    import data_algebra.data_model
    import data_algebra.polars_model  # noqa: F401

    return (
        data_algebra.data_model.default_data_model(),
        data_algebra.data_model.lookup_data_model_for_key("default_Polars_model"),
    )


def _is_focus(op, kind: str) -> bool:
    if kind == "project":
        return op.node_name == "ProjectNode"
    return op.node_name == "ExtendNode" and (len(op.partition_by) > 0 or bool(op.windowed_situation))


def _step_post(call, outcome):
    if outcome.exception is not None:
        obs = O.outcome_raise(outcome.exception)
    else:
        obs = O.materialise(outcome.value)
    _STATE["step_obs"] = obs
    if obs[0] != "ok":
        _STATE["step_verdict"] = (False, "%s: %s" % (obs[1], obs[2]))
        return {"status": "raise", "detail": _STATE["step_verdict"][1]}
    _STATE["step_verdict"] = check(_STATE["exp"], obs, final=False)
    return None if _STATE["step_verdict"][0] else {"status": "fail", "detail": _STATE["step_verdict"][1]}


def _query_post(call, outcome):
    if outcome.exception is not None:
        obs = O.outcome_raise(outcome.exception)
    else:
        obs = O.materialise(outcome.value)
    _STATE["final_obs"] = obs
    if obs[0] != "ok":
        _STATE["final_verdict"] = (False, "%s: %s" % (obs[1], obs[2]))
        return {"status": "raise", "detail": _STATE["final_verdict"][1]}
    _STATE["final_verdict"] = check(_STATE["exp"], obs, final=True)
    return None if _STATE["final_verdict"][0] else {"status": "fail", "detail": _STATE["final_verdict"][1]}


def _ensure_attached():
    global _ATTACHED
    if _ATTACHED:
        return
    import data_algebra.db_model

    pm, plm = _models()
    for be, model in (("pandas", pm), ("polars", plm)):
        for node, kind in (("ProjectNode", "project"), ("ExtendNode", "wext")):

            def when(call, be=be, kind=kind):
                act = _STATE.get("active")
                return act is not None and (act == (be, kind) or (be == "polars" and act == ("polars-eager", kind))) and _is_focus(call.kwargs.get("op"), kind)

            wrap.attach_dispatch(model, node, wrap.contract(post=_step_post, name=CONTRACTS[(be, kind)], when=when))

    def when_q(call):
        a = _STATE.get("active")
        return a is not None and a[0] == "sqlite" and len(call.args) >= 2 and isinstance(call.args[1], str)

    wrap.attach(data_algebra.db_model.DBHandle, "read_query", wrap.contract(pre=lambda call: call.args[0].conn is not None, post=_query_post, name=CONTRACTS[("sqlite", "project")], when=when_q), factory=True)
    _ATTACHED = True


# --------------------------------------------------------------------------------------------------
# one case
# --------------------------------------------------------------------------------------------------

SCHEMA = C.SCHEMAS["d"]


def _run(be: str, ops, key: str, table) -> Tuple:
    """Evaluate pipeline `ops` on one back end -> ('ok', cols, rows) | ('raise', type, msg)."""
    if be == "pandas":
        return O.canon_out(C.run_pandas(ops, {"d": C.to_pandas(table, SCHEMA)}))
    if be == "polars":
        return O.canon_out(C.run_polars(ops, {"d": C.to_polars(table, SCHEMA)}))
    if be == "polars-eager":
        return O.canon_out(C.run_polars(ops, {"d": C.to_polars(table, SCHEMA)}, use_lazy_eval=False))
    ses = O.SqliteSession.get()
    ses.load("d", C.to_pandas(table, SCHEMA))
    return O.canon_out(ses.read_ops(key, ops))


def eval_backend(p: Dict[str, Any], table, be: str) -> Dict[str, Any]:
    """-> {'status': ok | fail | raise | input-raise, 'detail', 'level', 'inp', 'obs'}"""
    _ensure_attached()
    ops, prefix = built(p)
    _STATE["active"] = None
    if p["focus"] == 0:
        cols = list(SCHEMA.keys())
        inp = ("ok", cols, O.table_rows(table, cols))
    else:
        inp = _run(be, prefix, p["id"] + "#prefix", table)
    if inp[0] != "ok":
        return {"status": "input-raise", "detail": "%s: %s" % (inp[1], inp[2]), "inp": inp}
    exp = expect(p, inp[1], inp[2])
    _STATE.update({"active": (be, p["kind"]), "exp": exp, "step_obs": None, "step_verdict": None, "final_obs": None, "final_verdict": None})
    try:
        out = _run(be, ops, p["id"], table)
    finally:
        _STATE["active"] = None
    wrap.take_failures()
    res: Dict[str, Any] = {"inp": inp, "exp": exp, "obs": out}
    if be == "sqlite":
        if _STATE["final_verdict"] is None:
            if out[0] == "raise":  # to_sql raised before any query was sent
                return dict(res, status="raise", level="final", detail="%s: %s" % (out[1], out[2]))
            raise wrap.HarnessError("contract on DBHandle.read_query was not evaluated")
        ok, why = _STATE["final_verdict"]
        st = "ok" if ok else ("raise" if out[0] == "raise" else "fail")
        return dict(res, status=st, level="final", detail=why)
    if _STATE["step_verdict"] is None:
        if out[0] == "raise":
            return dict(res, status="raise", level="final", detail="%s: %s (before the step under contract ran)" % (out[1], out[2]))
        raise wrap.HarnessError("contract on %s was not evaluated" % CONTRACTS[(be, p["kind"])])
    res["step_obs"] = _STATE["step_obs"]
    ok, why = _STATE["step_verdict"]
    if not ok:
        return dict(res, status=("raise" if _STATE["step_obs"][0] == "raise" else "fail"), level="step", detail=why)
    if out[0] == "raise":
        return dict(res, status="raise", level="final", detail="%s: %s" % (out[1], out[2]))
    ok, why = check(exp, out, final=True)
    return dict(res, status="ok" if ok else "fail", level="final", detail=why)


# --------------------------------------------------------------------------------------------------
# classification (narrow: the observation must be exactly what the known defect produces)
# --------------------------------------------------------------------------------------------------


def _has_null_key(inp, keys) -> bool:
    idx = [inp[1].index(c) for c in keys]
    return any(r[i] is None for r in inp[2] for i in idx)


def classify(p: Dict[str, Any], be: str, res: Dict[str, Any], case: Dict[str, Any]) -> str:
    inp, exp = res.get("inp"), res.get("exp")
    keys = p["keys"]
    suffix = p["id"].split("/")[-1]
    if res["status"] == "fail" and inp is not None:
        if be == "pandas" and p["kind"] == "project" and keys and res["level"] == "step" and _has_null_key(inp, keys):
            # pandas groupby drops every group whose key contains a null: exactly the null-free key tuples remain
            obs = res["step_obs"]
            nn = [k for k in exp["keys"] if all(v is not None for v in k)]
            idx = [obs[1].index(c) for c in keys] if all(c in obs[1] for c in keys) else None
            if idx is not None and C.frames_equiv((keys, [tuple(r[i] for i in idx) for r in obs[2]]), (keys, nn))[0]:
                return "%s:pandas_base.PandasModelBase._project_step:null-group-key" % PID
        if be == "pandas" and p["kind"] == "wext" and keys and res["level"] == "step" and _has_null_key(inp, keys):
            # rows whose partition key contains a null get null in every aggregate output, all other cells are right
            obs = res["step_obs"]
            kidx = [exp["cols"].index(c) for c in keys]
            blanked = [tuple((None if (c in AGG and any(r[i] is None for i in kidx)) else v) for c, v in zip(exp["cols"], r)) for r in exp["rows"]]
            if O.table_matches((exp["cols"], blanked), (obs[1], obs[2]))[0]:
                return "%s:pandas_base.PandasModelBase._extend_step:null-partition-key" % PID
        if be == "sqlite" and p["kind"] == "project" and not keys and suffix != "none" and res["obs"][0] == "ok":
            # SQL left without any aggregate: one row per input row of the project
            if len(res["obs"][2]) == len(inp[2]) and len(inp[2]) != 1:
                return "%s:sql_model.SQLModel.project_to_near_sql:ungrouped-project-outputs-unused" % PID
    return "%s:unclassified:%s" % (PID, C.case_hash(dict(case, backend=be)))


# --------------------------------------------------------------------------------------------------
# driver
# --------------------------------------------------------------------------------------------------


def _worker(job):
    sc = job["sc"]
    plist = {p["id"]: p for p in pipelines()}
    p = plist[job["pid"]]
    tabs = tables(p["keys"], sc["max_rows"], sc["k_domain"])
    counts = collections.Counter()
    results = []
    samples = []
    for ti in job["tis"]:
        table = tabs[ti]
        for be in BACKENDS:
            try:
                r = eval_backend(p, table, be)
            except Exception as e:
                import traceback

                results.append({"harness": "%s: %s | %s" % (type(e).__name__, e, traceback.format_exc()[-500:]), "ti": ti, "be": be})
                continue
            counts["%s:%s" % (be, r["status"])] += 1
            if r["status"] in ("fail", "raise"):
                case = {"pipeline": p["id"], "spec": p["spec"], "data": {"d": table}}
                results.append({"be": be, "ti": ti, "status": r["status"], "level": r["level"], "detail": r["detail"][:400], "key": classify(p, be, r, case), "case": case})
            elif r["status"] == "ok" and not samples and len(table["x"]) >= 2:
                samples.append({"pipeline": C.describe(p["spec"]), "d": table, "backend": be, "expected_rows": r["exp"]["n"], "status": "ok"})
    return {"pid": job["pid"], "n": len(job["tis"]), "counts": dict(counts), "results": results, "samples": samples, "wrap": wrap.snapshot()}


def make_jobs(tier: str):
    sc = scope(tier)
    jobs = []
    for p in pipelines():
        n = len(tables(p["keys"], sc["max_rows"], sc["k_domain"]))
        per = 60
        for i in range(0, n, per):
            jobs.append({"pid": p["id"], "tis": list(range(i, min(n, i + per))), "sc": sc})
    return sc, jobs


def bounded(rep: Report, tier: str, seed: int) -> None:
    t0 = time.time()
    sc, jobs = make_jobs(tier)
    outs = O.run_parallel(_worker, jobs, chunksize=2)
    counts = collections.Counter()
    n_cases = 0
    for o in outs:
        wrap.merge(o["wrap"])
        n_cases += o["n"]
        for k, v in o["counts"].items():
            counts[k] += v
        for s in o["samples"]:
            rep.add_sample(s)
        for r in o["results"]:
            if "harness" in r:
                rep.errors.append("harness error on %s table #%d %s: %s" % (o["pid"], r["ti"], r["be"], r["harness"]))
                continue
            spec = r["case"]["spec"]
            what = "%s %s (%s level) on %s with d=%s: %s" % (r["be"], "raised" if r["status"] == "raise" else "violates the row/group contract", r["level"], C.describe(spec), {c: v for c, v in r["case"]["data"]["d"].items() if c != "y"}, r["detail"][:300])
            rep.violations.append(Violation(key=r["key"], what=what, replay={"module": "cbc.c09", "case": dict(r["case"], backend=r["be"])}))
    rep.evaluations += sum(counts.values())
    n_nontrivial = sum(v for k, v in counts.items() if k.split(":")[1] in ("ok", "fail"))
    rep.nontrivial_keys |= set((PID, i) for i in range(n_nontrivial))
    rep.violations.sort(key=lambda v: (len(v.replay["case"]["spec"]["steps"]), len(v.replay["case"]["data"]["d"]["x"]), v.key, len(v.replay["case"]["pipeline"]), repr(v.replay["case"])))
    O.cap_unclassified(rep)
    wrap.require_evaluated(rep, sorted(set(CONTRACTS.values())))
    rep.extra["status_counts"] = dict(sorted(counts.items()))
    rep.extra["pipelines"] = len(pipelines())
    rep.extra["pipeline_table_cases"] = n_cases
    rep.extra["contract_evaluations"] = dict(wrap.EVALS)
    print("C09 bounded: %d (pipeline, table) cases x %d backends %s in %.1fs" % (n_cases, len(BACKENDS), dict(sorted(counts.items())), time.time() - t0), file=sys.stderr)


def replay_case(case: Dict[str, Any]) -> bool:
    """Re-run one stored case natively; print what was observed; True iff it still fails."""
    plist = {p["id"]: p for p in pipelines()}
    p = plist.get(case["pipeline"])
    if p is None or p["spec"]["steps"] != case["spec"]["steps"]:
        raise wrap.HarnessError("stored pipeline %r is not produced by the enumerator any more" % (case["pipeline"],))
    table = case["data"]["d"]
    print("pipeline:", C.describe(p["spec"]))
    print("table d:", table)
    bad = False
    for be in BACKENDS:
        if case.get("backend") and be != case["backend"]:
            continue
        r = eval_backend(p, table, be)
        if r.get("inp") is not None and r["inp"][0] == "ok":
            print("%s: materialised input of the %s step: columns %r rows %r" % (be, p["kind"], r["inp"][1], r["inp"][2]))
        if r.get("exp"):
            e = r["exp"]
            print("%s: expected %s" % (be, ("%d row(s), key tuples %r" % (e["n"], e["keys"])) if e["kind"] == "project" else ("rows %r (columns %r)" % (e["rows"], e["cols"]))))
        for nm in ("step_obs", "obs"):
            o = r.get(nm)
            if o is not None:
                label = "step under contract" if nm == "step_obs" else "whole pipeline"
                print("%s: %s %s" % (be, label, ("returned columns %r rows %r" % (o[1], o[2])) if o[0] == "ok" else ("raised %s: %s" % (o[1], o[2]))))
        key = classify(p, be, r, {"pipeline": p["id"], "spec": p["spec"], "data": {"d": table}}) if r["status"] in ("fail", "raise") else ""
        print("%s verdict: %s %s %s" % (be, r["status"], key, r.get("detail", "")))
        bad = bad or r["status"] in ("fail", "raise")
    return bad
