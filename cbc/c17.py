"""C17 (bounded): record transforms are invertible and compose as documented.

Contract on the REAL `data_algebra.cdata.RecordMap.transform / inverse / compose / >>` (Pandas and Polars):

    for every strict record specification S and every record-keyed block table T made of complete records:
      (inverse, blocks first)  m = RecordMap(blocks_in=S):   m.inverse().transform(m.transform(T)) == T
      (inverse, rows first)    R = the row-record form of T:  m.transform(m.inverse().transform(R)) == R
      (general map)            g = RecordMap(blocks_in=S, blocks_out=S2):  g.inverse().transform(g.transform(T)) == T
      (compose)                m2.compose(m1).transform(X) == m2.transform(m1.transform(X)),  also for  m1 >> m2
      (row order)              the blocks->rows round trips also for the block table with its rows permuted
                               (all permutations for <= 4 rows, a deterministic spread of 6 otherwise)
      (back ends)              every transform above gives the same table on a Pandas frame and on a Polars frame
    tables compared as: same column set, same multiset of rows.
"""
from __future__ import annotations

import collections
import itertools
import json
import sys
import time
import traceback
from typing import Any, Dict, List, Optional, Tuple

from vlib.core import Report, Violation
from cbc import common as C
from cbc import oracles_c as O

PID = "C17"

FUNCTIONS_UNDER_CONTRACT = [
    {"file": "data_algebra/cdata.py", "function": "RecordMap.transform"},
    {"file": "data_algebra/cdata.py", "function": "RecordMap.inverse"},
    {"file": "data_algebra/cdata.py", "function": "RecordMap.compose"},
    {"file": "data_algebra/cdata.py", "function": "RecordMap.act_on"},
    {"file": "data_algebra/cdata.py", "function": "RecordSpecification.__init__"},
    {"file": "data_algebra/pandas_base.py", "function": "PandasModelBase.blocks_to_rowrecs"},
    {"file": "data_algebra/pandas_base.py", "function": "PandasModelBase.rowrecs_to_blocks"},
    {"file": "data_algebra/polars_model.py", "function": "PolarsModel.blocks_to_rowrecs"},
    {"file": "data_algebra/polars_model.py", "function": "PolarsModel.rowrecs_to_blocks"},
]

# --------------------------------------------------------------------------------------------------
# specifications and tables (plain data)
# --------------------------------------------------------------------------------------------------

KEY_PATTERNS = {
    (1, 2): [[("a",), ("b",)]],
    (1, 3): [[("a",), ("b",), ("c",)]],
    (2, 2): [[("a", "u"), ("a", "v")], [("a", "u"), ("b", "v")]],
    (2, 3): [[("a", "u"), ("a", "v"), ("b", "u")], [("a", "u"), ("b", "v"), ("c", "w")]],
}
RECORD_IDS = {0: [[()]], 1: [[(1,)], [(1,), (2,)]], 2: [[(1, "p")], [(1, "p"), (1, "q")], [(1, "p"), (2, "p")]]}


def gen_specs() -> List[Dict[str, Any]]:
    out = []
    for nck in (1, 2):
        for nr in (2, 3):
            for pat in KEY_PATTERNS[(nck, nr)]:
                for nv in (1, 2, 3):
                    for nk in (0, 1, 2):
                        ctrl = collections.OrderedDict()
                        for j in range(nck):
                            ctrl["ck%d" % (j + 1)] = [p[j] for p in pat]
                        for v in range(nv):
                            ctrl["v%d" % (v + 1)] = ["c%d%d" % (i + 1, v + 1) for i in range(nr)]
                        out.append({"control": ctrl, "record_keys": ["id%d" % (i + 1) for i in range(nk)], "control_table_keys": ["ck%d" % (j + 1) for j in range(nck)]})
    return out


def alt_layouts(rs) -> List[Tuple[str, Dict[str, Any]]]:
    """other strict layouts over the SAME content keys and record keys: the long (one value column) layout
    and, when there are >= 2 value columns, the layout with rows and value columns exchanged"""
    ck = O.rs_content_keys(rs)
    out = [("long", {"control": collections.OrderedDict([("measure", list(ck)), ("value", list(ck))]), "record_keys": list(rs["record_keys"]), "control_table_keys": ["measure"]})]
    keys = rs["control_table_keys"]
    vcols = [c for c in rs["control"] if c not in keys]
    n = len(rs["control"][vcols[0]])
    if len(vcols) >= 2:
        ctrl = collections.OrderedDict([("t", list(vcols))])
        for i in range(n):
            ctrl["r%d" % (i + 1)] = [rs["control"][vc][i] for vc in vcols]
        out.append(("transposed", {"control": ctrl, "record_keys": list(rs["record_keys"]), "control_table_keys": ["t"]}))
    return out


VALUE_SETS = {
    "float": [1.5, -2.0, 0.0, 3.25, None, 7.0, -0.5, 10.0],
    "str": ["x", "y", "", "zz", None, "w", "y", "q"],
}


def gen_row_tables(rs, tier: str) -> List[Dict[str, Any]]:
    """row-record tables (<= 2 records) conforming to rs: every record id pattern x value assignments"""
    ckeys = O.rs_content_keys(rs)
    nk = len(rs["record_keys"])
    out = []
    for ids in RECORD_IDS[nk]:
        ncell = len(ids) * len(ckeys)
        assigns = []
        for kind, vals in VALUE_SETS.items():
            if kind == "str" and tier == "quick" and (len(ckeys) > 2 or len(ids) > 1):
                continue
            if ncell <= 4:
                dom = [v for v in vals[:2]] + [None]
                combos = list(itertools.product(dom, repeat=ncell))
                if tier == "quick":
                    combos = combos[:: max(1, len(combos) // 4)]
                else:
                    combos = combos[::2]
                assigns += [(kind, list(c)) for c in combos]
            else:
                base = [vals[i % len(vals)] for i in range(ncell)]
                assigns.append((kind, base))  # distinct-ish values incl. one null
                assigns.append((kind, [vals[(i * 3 + 1) % 4] for i in range(ncell)]))  # no nulls
                if tier == "thorough":
                    assigns.append((kind, [vals[0]] * ncell))  # all equal
                    assigns.append((kind, [None] * ncell))
                    assigns.append((kind, [vals[(i * 5) % len(vals)] for i in range(ncell)]))
        for ai, (kind, cells) in enumerate(assigns):
            rows = []
            for i, rid in enumerate(ids):
                rows.append(tuple(rid) + tuple(cells[i * len(ckeys) : (i + 1) * len(ckeys)]))
            # the general-map / composition battery does not depend on the cell values: it is run for the
            # first two (thorough: six) value assignments of every record-id pattern, the inverse / permutation / agreement checks for all
            out.append({"cols": list(rs["record_keys"]) + ckeys, "rows": rows, "kind": kind, "battery": "full" if ai < (2 if tier == "quick" else 6) else "core"})
    # the empty table
    out.append({"cols": list(rs["record_keys"]) + ckeys, "rows": [], "kind": "float", "battery": "full"})
    return out


# --------------------------------------------------------------------------------------------------
# frames
# --------------------------------------------------------------------------------------------------


def _schema(rs, cols, kind):
    ctl = set(rs["control"].keys())
    sch = {}
    for c in cols:
        if c in rs["control_table_keys"] or c in ("measure", "t") or c.startswith("ck"):
            sch[c] = "str"
        elif c == "id1":
            sch[c] = "int"
        elif c == "id2":
            sch[c] = "str"
        else:
            sch[c] = kind
    return sch


def frame(backend: str, cols, rows, sch):
    tab = {c: [r[j] for r in rows] for j, c in enumerate(cols)}
    if backend == "pandas":
        return C.to_pandas(tab, sch)
    return C.to_polars(tab, sch)


def run(fn):
    import warnings

    try:
        with warnings.catch_warnings():
            warnings.simplefilter("ignore")
            r = fn()
            if type(r).__module__.split(".")[0] == "polars" and hasattr(r, "collect") and not hasattr(r, "rows"):
                r = r.collect()
            return ("ok", r)
    except Exception as e:
        return ("raise", type(e).__name__, str(e)[:200])
    except BaseException as e:
        if type(e).__name__ == "PanicException":
            return ("raise", type(e).__name__, str(e)[:200])
        raise


def row_permutations(n: int, nr: int) -> List[List[int]]:
    """row orders of a block table with n rows (record-major, nr rows per record) other than the identity"""
    import random

    ident = list(range(n))
    if n <= 1:
        return []
    if n <= 4:
        return [list(p) for p in itertools.permutations(ident) if list(p) != ident]
    out = [ident[::-1], ident[1:] + ident[:1]]
    out.append(sorted(ident, key=lambda i: (i % nr, i // nr)))  # control-key major
    out.append(sorted(ident, key=lambda i: (i % nr, (i // nr) if (i % nr) % 2 == 0 else -(i // nr))))  # alternating record direction
    for sd in (1, 2):
        q = list(ident)
        random.Random(n * 101 + sd).shuffle(q)
        out.append(q)
    uniq = []
    for q in out:
        if q != ident and q not in uniq:
            uniq.append(q)
    return uniq


# --------------------------------------------------------------------------------------------------
# one case = (specification, row table)
# --------------------------------------------------------------------------------------------------


def eval_case(rs, rt) -> Dict[str, Any]:
    import data_algebra.cdata as cd

    res: Dict[str, Any] = {"fails": [], "checks": 0}
    kind = rt["kind"]
    S = O.record_spec(rs)
    to_rows = cd.RecordMap(blocks_in=S)
    to_blocks = to_rows.inverse()
    R = (rt["cols"], rt["rows"])
    T = O.ref_rowrecs_to_blocks(rs, *R)  # the conforming block table (complete records) -- generation only
    sch_T = _schema(rs, T[0], kind)
    sch_R = _schema(rs, R[0], kind)
    layouts = alt_layouts(rs)
    results: Dict[Tuple[str, str], Any] = {}

    def check_eq(tag, backend, got, want_cols, want_rows):
        res["checks"] += 1
        if got[0] != "ok":
            res["fails"].append([tag, backend, "raise", "%s: %s" % (got[1], got[2])])
            return
        ok, why = C.frames_equiv(got[1], (list(want_cols), [tuple(r) for r in want_rows]))
        if not ok:
            res["fails"].append([tag, backend, "result", why[:300]])

    for be in ("pandas", "polars"):
        fT = frame(be, T[0], T[1], sch_T)
        fR = frame(be, R[0], R[1], sch_R)
        # inverse, blocks first
        r1 = run(lambda: to_rows.transform(fT))
        results[("to_rows", be)] = r1
        if r1[0] == "ok":
            back = run(lambda: to_blocks.transform(r1[1]))
            check_eq("inverse:blocks->rows->blocks", be, back, T[0], T[1])
        else:
            res["fails"].append(["inverse:blocks->rows->blocks", be, "raise", "%s: %s" % (r1[1], r1[2])])
        # inverse, rows first
        r2 = run(lambda: to_blocks.transform(fR))
        results[("to_blocks", be)] = r2
        if r2[0] == "ok":
            back = run(lambda: to_rows.transform(r2[1]))
            check_eq("inverse:rows->blocks->rows", be, back, R[0], R[1])
        else:
            res["fails"].append(["inverse:rows->blocks->rows", be, "raise", "%s: %s" % (r2[1], r2[2])])
        # general maps and composition
        for lname, rs2 in (layouts if rt.get("battery", "full") == "full" else []):
            S2 = O.record_spec(rs2)
            g = cd.RecordMap(blocks_in=S, blocks_out=S2)
            r3 = run(lambda: g.transform(fT))
            results[("general:" + lname, be)] = r3
            if r3[0] == "ok":
                back = run(lambda: g.inverse().transform(r3[1]))
                check_eq("inverse:general[%s]" % lname, be, back, T[0], T[1])
            else:
                res["fails"].append(["inverse:general[%s]" % lname, be, "raise", "%s: %s" % (r3[1], r3[2])])
            m1 = to_rows
            m2 = cd.RecordMap(blocks_out=S2)
            seq = run(lambda: m2.transform(m1.transform(fT)))
            for cname, mk in (("compose()", lambda: m2.compose(m1)), (">>", lambda: m1 >> m2)):
                comp = run(mk)
                res["checks"] += 1
                if comp[0] != "ok" or comp[1] is None:
                    res["fails"].append(["compose:%s[rows-then-%s]" % (cname, lname), be, "raise", "composition %s" % (comp[1:] if comp[0] != "ok" else "returned None",)])
                    continue
                got = run(lambda: comp[1].transform(fT))
                if seq[0] == "ok":
                    c, r = C.canon_rows(seq[1])
                    check_eq("compose:%s[rows-then-%s]" % (cname, lname), be, got, c, r)
                elif got[0] == "ok":
                    res["fails"].append(["compose:%s[rows-then-%s]" % (cname, lname), be, "result", "sequential application raises %s, the composed map returns a table" % seq[1]])
            # composing two general maps: (S -> S2) then (S2 -> rows)
            m3 = cd.RecordMap(blocks_in=S2)
            seq2 = run(lambda: m3.transform(g.transform(fT)))
            comp2 = run(lambda: g >> m3)
            res["checks"] += 1
            if comp2[0] != "ok" or comp2[1] is None:
                res["fails"].append(["compose:>>[%s-then-rows]" % lname, be, "raise", "composition %s" % (comp2[1:] if comp2[0] != "ok" else "returned None",)])
            else:
                got2 = run(lambda: comp2[1].transform(fT))
                if seq2[0] == "ok":
                    c, r = C.canon_rows(seq2[1])
                    check_eq("compose:>>[%s-then-rows]" % lname, be, got2, c, r)
        # rows first:  (rows -> S)  then  (S -> S2)
        for lname, rs2 in (layouts if rt.get("battery", "full") == "full" else []):
            gB = cd.RecordMap(blocks_in=S, blocks_out=O.record_spec(rs2))
            seq3 = run(lambda: gB.transform(to_blocks.transform(fR)))
            comp3 = run(lambda: to_blocks >> gB)
            res["checks"] += 1
            if comp3[0] != "ok" or comp3[1] is None:
                res["fails"].append(["compose:>>[rows-to-blocks-then-%s]" % lname, be, "raise", "composition %s" % (comp3[1:] if comp3[0] != "ok" else "returned None",)])
            else:
                got3 = run(lambda: comp3[1].transform(fR))
                if seq3[0] == "ok":
                    c, r = C.canon_rows(seq3[1])
                    check_eq("compose:>>[rows-to-blocks-then-%s]" % lname, be, got3, c, r)
    # the same block table with its rows in other orders: all permutations for <= 4 rows, a deterministic spread
    # otherwise (reversed, rotated, control-key major, control-key major with alternating record direction, shuffles)
    perms = row_permutations(len(T[1]), len(next(iter(rs["control"].values()))))
    if perms:
        g_long = cd.RecordMap(blocks_in=S, blocks_out=O.record_spec(layouts[0][1]))
        for be in ("pandas", "polars"):
            for pi, perm in enumerate(perms):
                fP = frame(be, T[0], [T[1][i] for i in perm], sch_T)
                rp = run(lambda: to_rows.transform(fP))
                results[("to_rows:permutation#%d" % pi, be)] = rp
                if rp[0] == "ok":
                    back = run(lambda: to_blocks.transform(rp[1]))
                    check_eq("inverse:permuted-blocks->rows->blocks", be, back, T[0], T[1])
                else:
                    res["fails"].append(["inverse:permuted-blocks->rows->blocks", be, "raise", "%s: %s" % (rp[1], rp[2])])
                if pi < 2:
                    rg = run(lambda: g_long.transform(fP))
                    results[("general:long:permutation#%d" % pi, be)] = rg
                    if rg[0] == "ok":
                        back = run(lambda: g_long.inverse().transform(rg[1]))
                        check_eq("inverse:general[long]:permuted-blocks", be, back, T[0], T[1])
                    else:
                        res["fails"].append(["inverse:general[long]:permuted-blocks", be, "raise", "%s: %s" % (rg[1], rg[2])])
        res["permutations"] = len(perms)
    # Pandas and Polars agree
    for tag in sorted(set(k[0] for k in results)):
        a, b = results[(tag, "pandas")], results[(tag, "polars")]
        res["checks"] += 1
        if a[0] == "ok" and b[0] == "ok":
            ok, why = C.frames_equiv(a[1], b[1])
            if not ok:
                res["fails"].append(["agree:" + tag, "pandas-vs-polars", "result", why[:300]])
        elif a[0] != b[0]:
            who, o = ("Pandas", a) if a[0] == "raise" else ("Polars", b)
            res["fails"].append(["agree:" + tag, "pandas-vs-polars", "raise", "only %s raises %s: %s" % (who, o[1], o[2][:120])])
    res["status"] = "fail" if res["fails"] else "ok"
    if res["fails"]:
        res["keys"] = classify(rs, rt, res)
    return res


# --------------------------------------------------------------------------------------------------
# classification
# --------------------------------------------------------------------------------------------------


def classify(rs, rt, res) -> Dict[str, List[str]]:
    keys: Dict[str, List[str]] = collections.OrderedDict()
    nrec = len(rt["rows"])
    has_null = any(v is None for r in rt["rows"] for v in r)
    for tag, be, kind, det in res["fails"]:
        msg = "[%s] %s %s: %s" % (be, tag, kind, det)
        st = known_trigger(rs, rt, tag, be, kind, det, nrec, has_null)
        if st is not None:
            keys.setdefault("%s:%s:%s" % (PID, st[0], st[1]), []).append(msg)
        else:
            keys.setdefault("%s:unclassified:%s" % (PID, O.uhash([tag.split("[")[0].split("#")[0], be, kind, det.split(":")[0] if kind == "raise" else "", nrec == 0, has_null, len(rs["record_keys"])])), []).append(msg)
    return keys


def known_trigger(rs, rt, tag, be, kind, det, nrec, has_null) -> Optional[Tuple[str, str]]:
    """narrow classifiers for the defects confirmed natively on the pinned tree"""
    import re

    # RecordMap.compose derives the composed specification from example_input(), whose cells / columns carry the
    # placeholder suffix ' value'; whenever the composed map has a ROW-record side, that side's column names keep
    # the suffix: rows come out as '<key> value' columns, or rows go in and '<key> value' columns are demanded.
    if tag.startswith("compose:"):
        ckeys = O.rs_content_keys(rs)
        if kind == "result":
            m = re.match(r"column sets differ: (\[.*?\]) vs (\[.*?\])", det)
            if m:
                import ast as _ast

                got, want = _ast.literal_eval(m.group(1)), _ast.literal_eval(m.group(2))
                if sorted(got) == sorted((c + " value") if c in ckeys else c for c in want):
                    return ("cdata.RecordMap.compose", "row-record-side-of-composed-map-keeps-example-value-suffix")
        if kind == "raise" and "missing required columns" in det:
            names = set(re.findall(r"'([^']*)'", det))
            if names and names <= set(c + " value" for c in ckeys):
                return ("cdata.RecordMap.compose", "row-record-side-of-composed-map-keeps-example-value-suffix")
    return None


# --------------------------------------------------------------------------------------------------
# driver
# --------------------------------------------------------------------------------------------------


def make_cases(tier: str, seed: int):
    out = []
    for si, rs in enumerate(gen_specs()):
        for ti, rt in enumerate(gen_row_tables(rs, tier)):
            out.append({"rs": rs, "rt": rt, "id": "spec%d/table%d" % (si, ti)})
    return out


def _worker(job):
    out = []
    for case in job:
        try:
            r = eval_case(case["rs"], case["rt"])
        except Exception as e:
            r = {"status": "harness-error", "detail": "%s: %s | %s" % (type(e).__name__, e, traceback.format_exc()[-700:])}
        r["id"] = case["id"]
        r["case"] = case if r["status"] in ("fail", "harness-error") else None
        out.append(r)
    return out


def _spec_str(rs) -> str:
    return "control=%s record_keys=%s control_table_keys=%s" % (json.dumps(rs["control"]), rs["record_keys"], rs["control_table_keys"])


def bounded(rep: Report, tier: str, seed: int) -> None:
    t0 = time.time()
    cases = make_cases(tier, seed)
    outs = O.pool_map(_worker, O.shards(cases, 8))
    counts = collections.Counter()
    checks = 0
    fam = collections.Counter()
    fam_ex: Dict[str, str] = {}
    for o in outs:
        for r in o:
            st = r["status"]
            counts[st] += 1
            if st == "harness-error":
                rep.errors.append("harness error on %s: %s" % (r["id"], r["detail"]))
                continue
            checks += r["checks"]
            rep.case(r["id"], nontrivial=(r["checks"] > 0))
            if st == "ok":
                rep.add_sample({"case": r["id"], "checks": r["checks"]})
            if st == "fail":
                for tag, be, kind, det in r["fails"]:
                    k = "%s|%s|%s" % (tag, be, kind)
                    fam[k] += 1
                    fam_ex.setdefault(k, "%s: %s" % (r["id"], det[:200]))
                for key, dets in r["keys"].items():
                    rep.violations.append(
                        Violation(
                            key=key,
                            what="%s ; row records %s %r: %s" % (_spec_str(r["case"]["rs"]), r["case"]["rt"]["cols"], r["case"]["rt"]["rows"], O.short("; ".join(dets[:2]), 400).replace("\n", " ").replace("\t", " ")),
                            replay={"module": "cbc.c17", "case": {"case_json": json.dumps(r["case"])}, "n_keys": len(r["keys"]), "size": len(json.dumps(r["case"]))},
                        )
                    )
    rep.violations.sort(key=lambda v: (v.replay.get("n_keys", 1), v.replay.get("size", 0), v.key, v.what))
    rep.extra["status_counts"] = dict(counts)
    rep.extra["specifications"] = len(gen_specs())
    rep.extra["contract_checks"] = checks
    rep.extra["failure_families"] = {k: [v, fam_ex[k]] for k, v in sorted(fam.items())}
    rep.extra["failing_cases_by_key"] = dict(collections.Counter(v.key for v in rep.violations))
    print("C17 bounded: %d cases (%d specifications) %s, %d contract checks, in %.1fs" % (len(cases), len(gen_specs()), dict(counts), checks, time.time() - t0), file=sys.stderr)


def replay_case(payload: Dict[str, Any]) -> bool:
    """Re-run one stored case natively; print what was observed; True iff it still fails."""
    case = json.loads(payload["case_json"])
    rs, rt = case["rs"], case["rt"]
    print("record specification:", _spec_str(rs))
    print("row-record table:", rt["cols"], rt["rows"])
    T = O.ref_rowrecs_to_blocks(rs, rt["cols"], [tuple(r) for r in rt["rows"]])
    print("block table      :", T[0], T[1])
    rt = dict(rt, rows=[tuple(r) for r in rt["rows"]])
    r = eval_case(rs, rt)
    for tag, be, kind, det in r["fails"]:
        print("FAIL [%s] %s %s: %s" % (be, tag, kind, det))
    print("verdict:", r["status"], list(r.get("keys", {}).keys()), "| checks:", r["checks"])
    return r["status"] == "fail"
