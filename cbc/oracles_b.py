"""cbc.oracles_b -- reference oracles and small infrastructure for the bounded checks C09 C16 C27 C05.

Everything in here is written from the property statements, the docstrings of `Term.*` in
data_algebra/expr_rep.py and the `expression` column of op_catalog.methods_table -- never from the
implementations under test.

Contents
--------
* infrastructure     run_parallel (at most 8 worker processes), SqliteSession (one real data_algebra SQLite
                     handle per worker process, tables re-loaded per case, every query goes through the real
                     DBHandle.read_query), OracleDB (a plain sqlite3 connection that never sees data_algebra),
                     frames (table dict -> pandas / polars frames with explicit schemas), outcome helpers
* joins (C16)        ref_join (row-list reference join with switches that reproduce KNOWN defects -- used only to
                     name them), native_join_sql (hand-written SQL join text for the sqlite3 oracle)
* groups (C09)       distinct_keys, ref_group_agg
* windows (C27/C05)  ref_window (partition, sort by order_by with reversals, compute the function)
* methods (C05)      DOC_MEANING: reference meaning of every catalogued method
"""
from __future__ import annotations

import functools
import math
import os
import sqlite3
import warnings
from typing import Any, Callable, Dict, Iterable, List, Optional, Sequence, Tuple

import numpy
import pandas

from cbc import common as C

warnings.filterwarnings("ignore")

MAX_WORKERS = 8

# --------------------------------------------------------------------------------------------------
# infrastructure
# --------------------------------------------------------------------------------------------------


def n_workers() -> int:
    return max(1, min(MAX_WORKERS, os.cpu_count() or 1))


def run_parallel(worker: Callable[[Any], Any], jobs: Sequence[Any], chunksize: int = 1) -> List[Any]:
    """cbc.common.run_parallel with at most MAX_WORKERS (8) processes (another engineer shares the machine).
    VERIF_SERIAL=1 runs in-process."""
    jobs = list(jobs)
    if os.environ.get("VERIF_SERIAL") == "1" or len(jobs) <= 1:
        return [worker(j) for j in jobs]
    import concurrent.futures
    import multiprocessing

    ctx = multiprocessing.get_context("spawn")
    with concurrent.futures.ProcessPoolExecutor(max_workers=n_workers(), mp_context=ctx) as ex:
        return list(ex.map(worker, jobs, chunksize=chunksize))


def outcome_raise(e: BaseException) -> Tuple[str, str, str]:
    """('raise', exception type name, message).  Long messages (pandas quotes the whole SQL text first) keep
    their head AND their tail, where the engine's own error is.  A HarnessError is never a back end raising."""
    if type(e).__name__ == "HarnessError":
        raise e
    msg = " ".join(str(e).split())
    if len(msg) > 420:
        msg = msg[:160] + " ... " + msg[-240:]
    return ("raise", type(e).__name__, msg)


def canon_out(o):
    """('ok', frame) -> ('ok', cols, rows); raises pass through."""
    if o[0] == "ok":
        c, r = C.canon_rows(o[1])
        return ("ok", list(c), r)
    return o


def materialise(value) -> Tuple:
    """Result object of a step / eval -> ('ok', cols, rows) | ('raise', type, msg).  A Polars LazyFrame is
    collected here; an error it raises on collection is the back end raising, not a harness error."""
    try:
        if type(value).__module__.split(".")[0] == "polars" and hasattr(value, "collect") and not hasattr(value, "rows"):
            value = value.collect()
        c, r = C.canon_rows(value)
        return ("ok", list(c), r)
    except Exception as e:
        return outcome_raise(e)
    except BaseException as e:  # polars PanicException
        if type(e).__name__ == "PanicException":
            return outcome_raise(e)
        raise


def frames(table: Dict[str, List[Any]], schema: Dict[str, str], kind: str):
    """table dict -> fresh pandas ('pandas') or eager polars ('polars') frame with the given schema."""
    if kind == "pandas":
        return C.to_pandas(table, schema)
    return C.to_polars(table, schema)


_SQL_TYPE = {"int64": "INTEGER", "float64": "REAL", "bool": "INTEGER"}


def _sql_cell(v):
    v = C.canon_value(v)
    if isinstance(v, bool):
        return int(v)
    return v


class SqliteSession:
    """One real data_algebra SQLite handle (data_algebra.SQLite.example_handle()) kept for the life of the
    worker process.  load() replaces a table (DROP / CREATE / INSERT with the column affinities pandas.to_sql
    would declare for the same frame; the first load of each distinct column layout is cross-checked against
    the library's own DBHandle.insert_table); read() runs a query through the REAL DBHandle.read_query."""

    _inst: Optional["SqliteSession"] = None

    def __init__(self):
        import data_algebra.SQLite

        self.handle = data_algebra.SQLite.example_handle()
        self._checked = set()
        self._sql_cache: Dict[str, Any] = {}

    @classmethod
    def get(cls) -> "SqliteSession":
        if cls._inst is None:
            cls._inst = SqliteSession()
        return cls._inst

    def load(self, name: str, frame: pandas.DataFrame) -> None:
        conn = self.handle.conn
        cols = list(frame.columns)
        decl = ", ".join('"%s" %s' % (c, _SQL_TYPE.get(str(frame[c].dtype), "TEXT")) for c in cols)
        conn.execute('DROP TABLE IF EXISTS "%s"' % name)
        conn.execute('CREATE TABLE "%s" (%s)' % (name, decl))
        data = [frame.iloc[:, j].tolist() for j in range(len(cols))]
        rows = [tuple(_sql_cell(data[j][i]) for j in range(len(cols))) for i in range(frame.shape[0])]
        if rows:
            conn.executemany('INSERT INTO "%s" VALUES (%s)' % (name, ", ".join("?" for _ in cols)), rows)
        conn.commit()  # pandas rolls the connection back when one of its own statements fails
        sig = (name, tuple((c, str(frame[c].dtype)) for c in cols), frame.shape[0] > 0)
        if sig not in self._checked:
            self._checked.add(sig)
            q = 'SELECT %s FROM "%s"' % (", ".join('"%s", typeof("%s")' % (c, c) for c in cols), name)
            mine = conn.execute(q).fetchall()
            self.handle.insert_table(frame, table_name="__chk", allow_overwrite=True)
            theirs = conn.execute(q.replace('"%s"' % name, '"__chk"')).fetchall()
            conn.execute('DROP TABLE IF EXISTS "__chk"')
            conn.commit()
            if mine != theirs:
                from cbc import wrap

                raise wrap.HarnessError("SqliteSession.load differs from DBHandle.insert_table: %r vs %r" % (mine[:3], theirs[:3]))

    def sql_for(self, key: str, ops) -> Any:
        """SQL text of `ops` from the REAL to_sql of the handle's model, generated once per pipeline (the text
        does not depend on the data); ('raise', type, msg) when to_sql raises."""
        if key not in self._sql_cache:
            try:
                with warnings.catch_warnings():
                    warnings.simplefilter("ignore")
                    self._sql_cache[key] = ("ok", self.handle.to_sql(ops))
            except Exception as e:
                self._sql_cache[key] = outcome_raise(e)
        return self._sql_cache[key]

    def read(self, q) -> Tuple:
        """handle.read_query(q) (q: pipeline or SQL text) -> ('ok', frame) | ('raise', type, msg)."""
        try:
            with warnings.catch_warnings():
                warnings.simplefilter("ignore")
                return ("ok", self.handle.read_query(q))
        except Exception as e:
            return outcome_raise(e)

    def read_ops(self, key: str, ops) -> Tuple:
        """Run pipeline `ops` (cache key `key`): real to_sql once, then the real read_query on the text."""
        s = self.sql_for(key, ops)
        if s[0] != "ok":
            return s
        return self.read(s[1])


class OracleDB:
    """A plain sqlite3 in-memory connection that never touches data_algebra: executes hand-written oracle SQL
    and, as a surrogate engine, SQL text generated for other dialects."""

    _inst: Optional["OracleDB"] = None

    def __init__(self):
        self.conn = sqlite3.connect(":memory:")

    @classmethod
    def get(cls) -> "OracleDB":
        if cls._inst is None:
            cls._inst = OracleDB()
        return cls._inst

    def load(self, name: str, cols: Sequence[str], rows: Sequence[Sequence[Any]]) -> None:
        self.conn.execute('DROP TABLE IF EXISTS "%s"' % name)
        self.conn.execute('CREATE TABLE "%s" (%s)' % (name, ", ".join('"%s"' % c for c in cols)))
        if rows:
            self.conn.executemany('INSERT INTO "%s" VALUES (%s)' % (name, ", ".join("?" for _ in cols)), [tuple(r) for r in rows])

    def query(self, sql: str) -> Tuple:
        """-> ('ok', cols, rows) | ('raise', type, msg)"""
        try:
            cur = self.conn.execute(sql)
            cols = [d[0] for d in cur.description]
            return ("ok", cols, [tuple(C.canon_value(v) for v in r) for r in cur.fetchall()])
        except Exception as e:
            return ("raise", type(e).__name__, str(e)[:300])


def table_rows(table: Dict[str, List[Any]], cols: Sequence[str]) -> List[Tuple[Any, ...]]:
    n = len(table[cols[0]]) if cols else 0
    return [tuple(table[c][i] for c in cols) for i in range(n)]


# --------------------------------------------------------------------------------------------------
# joins (C16)
# --------------------------------------------------------------------------------------------------


def on_pairs(on) -> List[Tuple[str, str]]:
    return [(o[0], o[1]) if isinstance(o, (list, tuple)) else (o, o) for o in on]


def ref_join(
    a_cols: Sequence[str],
    a_rows: Sequence[Sequence[Any]],
    b_cols: Sequence[str],
    b_rows: Sequence[Sequence[Any]],
    on,
    jointype: str,
    defect: Optional[str] = None,
) -> Tuple[List[str], List[Tuple[Any, ...]]]:
    """Reference natural_join over row lists = the standard SQL join
        SELECT COALESCE(a.c, b.c) AS c for every column c of both tables, other columns as they are
        FROM a <jointype> JOIN b ON a.k1 = b.k1' AND ...          (CROSS JOIN without ON)
    null keys never match; columns: those of a, then the columns of b not in a.

    defect (only for NAMING a known defect of the pinned tree, never for passing a case):
      'null-match'        null keys match null keys (pandas.merge)
      'cross-outer'       cross join done as an outer merge on a constant column: with exactly one side empty the
                          other side's rows come back padded with nulls
      'full-emulation'    SQLite full-join emulation: distinct key tuples of both sides LEFT JOIN a LEFT JOIN b
      'full-no-key-coalesce'  full join without coalescing same-named key columns (right-only rows lose the key)
    """
    jt = jointype.lower()
    pairs = on_pairs(on)
    a_cols, b_cols = list(a_cols), list(b_cols)
    ia = {c: j for j, c in enumerate(a_cols)}
    ib = {c: j for j, c in enumerate(b_cols)}
    cols = a_cols + [c for c in b_cols if c not in ia]
    same_keys = set(ca for ca, cb in pairs if ca == cb)

    def combine(ra, rb):
        out = []
        for c in cols:
            va = ra[ia[c]] if (ra is not None and c in ia) else None
            vb = rb[ib[c]] if (rb is not None and c in ib) else None
            if c in ia and c in ib:
                if defect == "full-no-key-coalesce" and c in same_keys:
                    out.append(va)
                else:
                    out.append(va if va is not None else vb)
            elif c in ia:
                out.append(va)
            else:
                out.append(vb)
        return tuple(out)

    def matches(ra, rb):
        for ca, cb in pairs:
            va, vb = ra[ia[ca]], rb[ib[cb]]
            if va is None or vb is None:
                if not (defect == "null-match" and va is None and vb is None):
                    return False
            elif not C.values_equiv(va, vb):
                return False
        return True

    if jt == "cross":
        if defect == "cross-outer" and (not a_rows or not b_rows):
            return cols, [combine(ra, None) for ra in a_rows] + [combine(None, rb) for rb in b_rows]
        return cols, [combine(ra, rb) for ra in a_rows for rb in b_rows]
    if jt == "full" and defect == "full-emulation":
        keys: Dict[Tuple, Tuple] = {}
        for r in a_rows:
            kv = tuple(r[ia[ca]] for ca, _ in pairs)
            keys.setdefault(tuple(C._cell_key(v) for v in kv), kv)
        for r in b_rows:
            kv = tuple(r[ib[cb]] for _, cb in pairs)
            keys.setdefault(tuple(C._cell_key(v) for v in kv), kv)
        out = []
        for kk, kv in keys.items():
            nullk = any(v is None for v in kv)
            la = [r for r in a_rows if (not nullk) and tuple(C._cell_key(r[ia[ca]]) for ca, _ in pairs) == kk] or [None]
            lb = [r for r in b_rows if (not nullk) and tuple(C._cell_key(r[ib[cb]]) for _, cb in pairs) == kk] or [None]
            for ra in la:
                for rb in lb:
                    row = list(combine(ra, rb))
                    for (ca, _), v in zip(pairs, kv):
                        row[cols.index(ca)] = v
                    out.append(tuple(row))
        return cols, out
    out = []
    matched_b = set()
    for ra in a_rows:
        hit = False
        for jb, rb in enumerate(b_rows):
            if matches(ra, rb):
                hit = True
                matched_b.add(jb)
                out.append(combine(ra, rb))
        if not hit and jt in ("left", "full"):
            out.append(combine(ra, None))
    if jt in ("right", "full"):
        for jb, rb in enumerate(b_rows):
            if jb not in matched_b:
                out.append(combine(None, rb))
    return cols, out


def native_join_sql(a_name: str, a_cols: Sequence[str], b_name: str, b_cols: Sequence[str], on, jointype: str) -> str:
    """Hand-written standard SQL for natural_join (sqlite >= 3.39 has native RIGHT and FULL JOIN)."""
    jt = jointype.upper()
    cols = list(a_cols) + [c for c in b_cols if c not in set(a_cols)]
    terms = []
    for c in cols:
        if c in a_cols and c in b_cols:
            terms.append('COALESCE(a."%s", b."%s") AS "%s"' % (c, c, c))
        elif c in a_cols:
            terms.append('a."%s" AS "%s"' % (c, c))
        else:
            terms.append('b."%s" AS "%s"' % (c, c))
    sql = 'SELECT %s FROM "%s" a %s JOIN "%s" b' % (", ".join(terms), a_name, jt, b_name)
    pairs = on_pairs(on)
    if pairs:
        sql += " ON " + " AND ".join('a."%s" = b."%s"' % (ca, cb) for ca, cb in pairs)
    return sql
