"""cbc.oracles_b -- reference oracles and small infrastructure for the bounded checks C09 C16 C27 C05.

Everything in here is written from the property statements, the docstrings of `Term.*` in
data_algebra/expr_rep.py and the `expression` column of op_catalog.methods_table -- never from the
implementations under test.

Contents
--------
* infrastructure     run_parallel (at most 8 worker processes), outcome_raise / materialise (a Polars LazyFrame is
                     collected; what it raises then is the back end raising), SqliteSession (one real data_algebra
                     SQLite handle per worker process, tables re-loaded per case -- cross-checked against
                     DBHandle.insert_table --, SQL text from the real to_sql once per pipeline, every query through the
                     real DBHandle.read_query), OracleDB (a plain sqlite3 connection that never sees data_algebra)
* joins (C16)        ref_join (row-list reference join with switches that reproduce KNOWN defects -- used only to
                     name them), native_join_sql (hand-written SQL join text for the sqlite3 oracle)
* groups (C09)       distinct_keys, ref_group_agg, ref_windowed_group, Either / ANY reference cells, table_matches
* windows (C27/C05)  ref_window_fn / ref_window (partition, sort by order_by with reversals, compute the function)
* contracts          ContractedBackends: run-time contracts on the real _extend_step / _project_step dispatch
                     entries of the live Pandas and Polars models and on DBHandle.read_query
* methods (C05)      doc_meaning(): reference meaning, domain and restriction note of every catalogued method
* reporting          cap_unclassified
"""
from __future__ import annotations

import functools
import math
import os
import sqlite3
import warnings
from typing import Any, Callable, Dict, Iterable, List, Optional, Sequence, Tuple

import numpy
import pandas

from cbc import common as C

warnings.filterwarnings("ignore")

MAX_WORKERS = 8

# --------------------------------------------------------------------------------------------------
# infrastructure
# --------------------------------------------------------------------------------------------------


def n_workers() -> int:
    return max(1, min(MAX_WORKERS, os.cpu_count() or 1))


def run_parallel(worker: Callable[[Any], Any], jobs: Sequence[Any], chunksize: int = 1) -> List[Any]:
    """cbc.common.run_parallel with at most MAX_WORKERS (8) processes (another engineer shares the machine).
    VERIF_SERIAL=1 runs in-process."""
    jobs = list(jobs)
    if os.environ.get("VERIF_SERIAL") == "1" or len(jobs) <= 1:
        return [worker(j) for j in jobs]
    import concurrent.futures
    import multiprocessing

    ctx = multiprocessing.get_context("spawn")
    with concurrent.futures.ProcessPoolExecutor(max_workers=n_workers(), mp_context=ctx) as ex:
        return list(ex.map(worker, jobs, chunksize=chunksize))


def outcome_raise(e: BaseException) -> Tuple[str, str, str]:
    """('raise', exception type name, message).  Long messages (pandas quotes the whole SQL text first) keep
    their head AND their tail, where the engine's own error is.  A HarnessError is never a back end raising."""
    if type(e).__name__ == "HarnessError":
        raise e
    msg = " ".join(str(e).split())
    if len(msg) > 420:
        msg = msg[:160] + " ... " + msg[-240:]
    return ("raise", type(e).__name__, msg)


def canon_out(o):
    """('ok', frame) -> ('ok', cols, rows); raises pass through."""
    if o[0] == "ok":
        c, r = C.canon_rows(o[1])
        return ("ok", list(c), r)
    return o


def materialise(value) -> Tuple:
    """Result object of a step / eval -> ('ok', cols, rows) | ('raise', type, msg).  A Polars LazyFrame is
    collected here; an error it raises on collection is the back end raising, not a harness error."""
    try:
        if type(value).__module__.split(".")[0] == "polars" and hasattr(value, "collect") and not hasattr(value, "rows"):
            value = value.collect()
        c, r = C.canon_rows(value)
        return ("ok", list(c), r)
    except Exception as e:
        return outcome_raise(e)
    except BaseException as e:  # polars PanicException
        if type(e).__name__ == "PanicException":
            return outcome_raise(e)
        raise


def frames(table: Dict[str, List[Any]], schema: Dict[str, str], kind: str):
    """table dict -> fresh pandas ('pandas') or eager polars ('polars') frame with the given schema."""
    if kind == "pandas":
        return C.to_pandas(table, schema)
    return C.to_polars(table, schema)


_SQL_TYPE = {"int64": "INTEGER", "float64": "REAL", "bool": "INTEGER"}


def _sql_type(col) -> str:
    """Column affinity pandas.to_sql declares for this column (object columns: by inferred content)."""
    t = _SQL_TYPE.get(str(col.dtype))
    if t is None:
        inf = pandas.api.types.infer_dtype(col, skipna=True)
        t = {"boolean": "INTEGER", "integer": "INTEGER", "floating": "REAL"}.get(inf, "TEXT")
    return t


def _sql_cell(v):
    v = C.canon_value(v)
    if isinstance(v, bool):
        return int(v)
    return v


class SqliteSession:
    """One real data_algebra SQLite handle (data_algebra.SQLite.example_handle()) kept for the life of the
    worker process.  load() replaces a table (DROP / CREATE / INSERT with the column affinities pandas.to_sql
    would declare for the same frame; the first load of each distinct column layout is cross-checked against
    the library's own DBHandle.insert_table); read() runs a query through the REAL DBHandle.read_query."""

    _inst: Optional["SqliteSession"] = None

    def __init__(self):
        import data_algebra.SQLite

        self.handle = data_algebra.SQLite.example_handle()
        self._checked = set()
        self._sql_cache: Dict[str, Any] = {}

    @classmethod
    def get(cls) -> "SqliteSession":
        if cls._inst is None:
            cls._inst = SqliteSession()
        return cls._inst

    def load(self, name: str, frame: pandas.DataFrame) -> None:
        conn = self.handle.conn
        cols = list(frame.columns)
        decl = ", ".join('"%s" %s' % (c, _sql_type(frame[c])) for c in cols)
        conn.execute('DROP TABLE IF EXISTS "%s"' % name)
        conn.execute('CREATE TABLE "%s" (%s)' % (name, decl))
        data = [frame.iloc[:, j].tolist() for j in range(len(cols))]
        rows = [tuple(_sql_cell(data[j][i]) for j in range(len(cols))) for i in range(frame.shape[0])]
        if rows:
            conn.executemany('INSERT INTO "%s" VALUES (%s)' % (name, ", ".join("?" for _ in cols)), rows)
        conn.commit()  # pandas rolls the connection back when one of its own statements fails
        sig = (name, tuple((c, str(frame[c].dtype)) for c in cols), frame.shape[0] > 0)
        if sig not in self._checked:
            self._checked.add(sig)
            q = 'SELECT %s FROM "%s"' % (", ".join('"%s", typeof("%s")' % (c, c) for c in cols), name)
            mine = conn.execute(q).fetchall()
            self.handle.insert_table(frame, table_name="__chk", allow_overwrite=True)
            theirs = conn.execute(q.replace('"%s"' % name, '"__chk"')).fetchall()
            conn.execute('DROP TABLE IF EXISTS "__chk"')
            conn.commit()
            if mine != theirs:
                from cbc import wrap

                raise wrap.HarnessError("SqliteSession.load differs from DBHandle.insert_table: %r vs %r" % (mine[:3], theirs[:3]))

    def sql_for(self, key: str, ops) -> Any:
        """SQL text of `ops` from the REAL to_sql of the handle's model, generated once per pipeline (the text
        does not depend on the data); ('raise', type, msg) when to_sql raises."""
        if key not in self._sql_cache:
            try:
                with warnings.catch_warnings():
                    warnings.simplefilter("ignore")
                    self._sql_cache[key] = ("ok", self.handle.to_sql(ops))
            except Exception as e:
                self._sql_cache[key] = outcome_raise(e)
        return self._sql_cache[key]

    def read(self, q) -> Tuple:
        """handle.read_query(q) (q: pipeline or SQL text) -> ('ok', frame) | ('raise', type, msg)."""
        try:
            with warnings.catch_warnings():
                warnings.simplefilter("ignore")
                return ("ok", self.handle.read_query(q))
        except Exception as e:
            return outcome_raise(e)

    def read_ops(self, key: str, ops) -> Tuple:
        """Run pipeline `ops` (cache key `key`): real to_sql once, then the real read_query on the text."""
        s = self.sql_for(key, ops)
        if s[0] != "ok":
            return s
        return self.read(s[1])


class OracleDB:
    """A plain sqlite3 in-memory connection that never touches data_algebra: executes hand-written oracle SQL
    and, as a surrogate engine, SQL text generated for other dialects."""

    _inst: Optional["OracleDB"] = None

    def __init__(self):
        self.conn = sqlite3.connect(":memory:")

    @classmethod
    def get(cls) -> "OracleDB":
        if cls._inst is None:
            cls._inst = OracleDB()
        return cls._inst

    def load(self, name: str, cols: Sequence[str], rows: Sequence[Sequence[Any]]) -> None:
        self.conn.execute('DROP TABLE IF EXISTS "%s"' % name)
        self.conn.execute('CREATE TABLE "%s" (%s)' % (name, ", ".join('"%s"' % c for c in cols)))
        if rows:
            self.conn.executemany('INSERT INTO "%s" VALUES (%s)' % (name, ", ".join("?" for _ in cols)), [tuple(r) for r in rows])

    def query(self, sql: str) -> Tuple:
        """-> ('ok', cols, rows) | ('raise', type, msg)"""
        try:
            cur = self.conn.execute(sql)
            cols = [d[0] for d in cur.description]
            return ("ok", cols, [tuple(C.canon_value(v) for v in r) for r in cur.fetchall()])
        except Exception as e:
            return ("raise", type(e).__name__, str(e)[:300])


def table_rows(table: Dict[str, List[Any]], cols: Sequence[str]) -> List[Tuple[Any, ...]]:
    n = len(table[cols[0]]) if cols else 0
    return [tuple(table[c][i] for c in cols) for i in range(n)]


# --------------------------------------------------------------------------------------------------
# joins (C16)
# --------------------------------------------------------------------------------------------------


def on_pairs(on) -> List[Tuple[str, str]]:
    return [(o[0], o[1]) if isinstance(o, (list, tuple)) else (o, o) for o in on]


def ref_join(
    a_cols: Sequence[str],
    a_rows: Sequence[Sequence[Any]],
    b_cols: Sequence[str],
    b_rows: Sequence[Sequence[Any]],
    on,
    jointype: str,
    defect: Optional[str] = None,
) -> Tuple[List[str], List[Tuple[Any, ...]]]:
    """Reference natural_join over row lists = the standard SQL join
        SELECT COALESCE(a.c, b.c) AS c for every column c of both tables, other columns as they are
        FROM a <jointype> JOIN b ON a.k1 = b.k1' AND ...          (CROSS JOIN without ON)
    null keys never match; columns: those of a, then the columns of b not in a.

    defect (only for NAMING a known defect of the pinned tree, never for passing a case):
      'null-match'        null keys match null keys (pandas.merge)
      'cross-outer'       cross join done as an outer merge on a constant column: with exactly one side empty the
                          other side's rows come back padded with nulls
      'full-emulation'    SQLite full-join emulation: distinct key tuples of both sides LEFT JOIN a LEFT JOIN b
      'full-no-key-coalesce'  full join without coalescing same-named key columns (right-only rows lose the key)
    """
    jt = jointype.lower()
    pairs = on_pairs(on)
    a_cols, b_cols = list(a_cols), list(b_cols)
    ia = {c: j for j, c in enumerate(a_cols)}
    ib = {c: j for j, c in enumerate(b_cols)}
    cols = a_cols + [c for c in b_cols if c not in ia]
    same_keys = set(ca for ca, cb in pairs if ca == cb)

    def combine(ra, rb):
        out = []
        for c in cols:
            va = ra[ia[c]] if (ra is not None and c in ia) else None
            vb = rb[ib[c]] if (rb is not None and c in ib) else None
            if c in ia and c in ib:
                if defect == "full-no-key-coalesce" and c in same_keys:
                    out.append(va)
                else:
                    out.append(va if va is not None else vb)
            elif c in ia:
                out.append(va)
            else:
                out.append(vb)
        return tuple(out)

    def matches(ra, rb):
        for ca, cb in pairs:
            va, vb = ra[ia[ca]], rb[ib[cb]]
            if va is None or vb is None:
                if not (defect == "null-match" and va is None and vb is None):
                    return False
            elif not C.values_equiv(va, vb):
                return False
        return True

    if jt == "cross":
        if defect == "cross-outer" and (not a_rows or not b_rows):
            return cols, [combine(ra, None) for ra in a_rows] + [combine(None, rb) for rb in b_rows]
        return cols, [combine(ra, rb) for ra in a_rows for rb in b_rows]
    if jt == "full" and defect == "full-emulation":
        keys: Dict[Tuple, Tuple] = {}
        for r in a_rows:
            kv = tuple(r[ia[ca]] for ca, _ in pairs)
            keys.setdefault(tuple(C._cell_key(v) for v in kv), kv)
        for r in b_rows:
            kv = tuple(r[ib[cb]] for _, cb in pairs)
            keys.setdefault(tuple(C._cell_key(v) for v in kv), kv)
        out = []
        for kk, kv in keys.items():
            nullk = any(v is None for v in kv)
            la = [r for r in a_rows if (not nullk) and tuple(C._cell_key(r[ia[ca]]) for ca, _ in pairs) == kk] or [None]
            lb = [r for r in b_rows if (not nullk) and tuple(C._cell_key(r[ib[cb]]) for _, cb in pairs) == kk] or [None]
            for ra in la:
                for rb in lb:
                    row = list(combine(ra, rb))
                    for (ca, _), v in zip(pairs, kv):
                        row[cols.index(ca)] = v
                    out.append(tuple(row))
        return cols, out
    out = []
    matched_b = set()
    for ra in a_rows:
        hit = False
        for jb, rb in enumerate(b_rows):
            if matches(ra, rb):
                hit = True
                matched_b.add(jb)
                out.append(combine(ra, rb))
        if not hit and jt in ("left", "full"):
            out.append(combine(ra, None))
    if jt in ("right", "full"):
        for jb, rb in enumerate(b_rows):
            if jb not in matched_b:
                out.append(combine(None, rb))
    return cols, out


def native_join_sql(a_name: str, a_cols: Sequence[str], b_name: str, b_cols: Sequence[str], on, jointype: str) -> str:
    """Hand-written standard SQL for natural_join (sqlite >= 3.39 has native RIGHT and FULL JOIN)."""
    jt = jointype.upper()
    cols = list(a_cols) + [c for c in b_cols if c not in set(a_cols)]
    terms = []
    for c in cols:
        if c in a_cols and c in b_cols:
            terms.append('COALESCE(a."%s", b."%s") AS "%s"' % (c, c, c))
        elif c in a_cols:
            terms.append('a."%s" AS "%s"' % (c, c))
        else:
            terms.append('b."%s" AS "%s"' % (c, c))
    sql = 'SELECT %s FROM "%s" a %s JOIN "%s" b' % (", ".join(terms), a_name, jt, b_name)
    pairs = on_pairs(on)
    if pairs:
        sql += " ON " + " AND ".join('a."%s" = b."%s"' % (ca, cb) for ca, cb in pairs)
    return sql


# --------------------------------------------------------------------------------------------------
# groups and group aggregates (C09, C27, C05)
# --------------------------------------------------------------------------------------------------


def key_of(row: Sequence[Any], idx: Sequence[int]) -> Tuple:
    """Grouping identity of a row: null is a key value of its own, 1 == 1.0."""
    return tuple(C._cell_key(row[i]) for i in idx)


def distinct_keys(cols: Sequence[str], rows: Sequence[Sequence[Any]], by: Sequence[str]) -> List[Tuple[Any, ...]]:
    """Distinct combinations of the values of columns `by` (first-occurrence order), null a value of its own."""
    idx = [list(cols).index(c) for c in by]
    seen: Dict[Tuple, Tuple] = {}
    for r in rows:
        seen.setdefault(key_of(r, idx), tuple(r[i] for i in idx))
    return list(seen.values())


class Anything:
    """A reference cell that the documentation leaves undetermined for this input: every observed value is accepted
    (the restriction is recorded in the report)."""

    def __repr__(self):
        return "Anything"


ANY = Anything()


class Either:
    """A reference value that leaves a documented choice open: the observed cell must equal one of `options`."""

    def __init__(self, *options):
        self.options = options

    def __repr__(self):
        return "Either%r" % (self.options,)


def ref_group_agg(meth: str, vals: Sequence[Any]) -> Any:
    """Documented meaning of the group aggregates over the values of ONE group (Term.* docstrings):
    sum 'sum of items', mean, min, max, count 'number of non-NA cells', size 'number of items'.
    Missing values are skipped; min/max/mean of no values are missing.  The sum of a group without any non-null
    value is 0 on Pandas/Polars and NULL in SQL (the documented destination convention, see C01): Either(0, None)."""
    nn = [v for v in vals if v is not None]
    if meth == "sum":
        return sum(nn) if nn else Either(0, None)
    if meth == "mean":
        return (sum(nn) / float(len(nn))) if nn else None
    if meth == "min":
        return min(nn) if nn else None
    if meth == "max":
        return max(nn) if nn else None
    if meth == "count":
        return len(nn)
    if meth in ("size", "_size"):
        return len(vals)
    raise ValueError("ref_group_agg: unknown aggregate %r" % (meth,))


def cell_matches(expected: Any, observed: Any, tol: float = 1e-8) -> bool:
    if isinstance(expected, Anything):
        return True
    if isinstance(expected, Either):
        return any(C.values_equiv(o, observed, tol) for o in expected.options)
    return C.values_equiv(expected, observed, tol)


def rows_match(exp_rows: Sequence[Sequence[Any]], obs_rows: Sequence[Sequence[Any]]) -> Tuple[bool, str]:
    """Multiset equality of rows where expected cells may be Either(...): maximum bipartite matching."""
    if len(exp_rows) != len(obs_rows):
        return False, "row counts differ: expected %d, observed %d" % (len(exp_rows), len(obs_rows))
    n = len(exp_rows)
    adj = [[j for j in range(n) if len(exp_rows[i]) == len(obs_rows[j]) and all(cell_matches(e, o) for e, o in zip(exp_rows[i], obs_rows[j]))] for i in range(n)]
    match = [-1] * n

    def aug(i, seen):
        for j in adj[i]:
            if j in seen:
                continue
            seen.add(j)
            if match[j] < 0 or aug(match[j], seen):
                match[j] = i
                return True
        return False

    for i in range(n):
        if not aug(i, set()):
            return False, "no observed row matches expected row %r; expected %r observed %r" % (
                tuple(exp_rows[i]),
                [tuple(r) for r in exp_rows][:6],
                sorted([tuple(r) for r in obs_rows], key=C.row_sort_key)[:6],
            )
    return True, ""


def table_matches(exp: Tuple[Sequence[str], Sequence[Sequence[Any]]], obs: Tuple[Sequence[str], Sequence[Sequence[Any]]]) -> Tuple[bool, str]:
    """Same column set (no duplicates) and same multiset of rows; expected cells may be Either(...)."""
    ec, er = list(exp[0]), exp[1]
    oc, orows = list(obs[0]), obs[1]
    if len(set(oc)) != len(oc):
        return False, "duplicate column names: %r" % (oc,)
    if set(ec) != set(oc):
        return False, "column sets differ: expected %r observed %r" % (ec, oc)
    idx = [oc.index(c) for c in ec]
    return rows_match(er, [tuple(r[i] for i in idx) for r in orows])


def ref_windowed_group(cols: Sequence[str], rows: Sequence[Sequence[Any]], partition_by: Sequence[str], ops: Dict[str, Tuple[str, Optional[str]]]):
    """Reference windowed extend with unordered group aggregates: every input row is kept and gets, for each
    output column, the aggregate over the rows of its partition (null partition keys form a partition).
    ops: {output column: (method, argument column or None)} -> (columns, rows)."""
    cols = list(cols)
    idx = [cols.index(c) for c in partition_by]
    groups: Dict[Tuple, List[Sequence[Any]]] = {}
    for r in rows:
        groups.setdefault(key_of(r, idx), []).append(r)
    new = [k for k in ops if k not in cols]
    out_cols = cols + new
    out = []
    for r in rows:
        g = groups[key_of(r, idx)]
        vals = dict(zip(cols, r))
        for k, (meth, arg) in ops.items():
            vals[k] = ref_group_agg(meth, [q[cols.index(arg)] if arg is not None else 1 for q in g])
        out.append(tuple(vals[c] for c in out_cols))
    return out_cols, out


# --------------------------------------------------------------------------------------------------
# reference window evaluator (C27, C05)
# --------------------------------------------------------------------------------------------------

#: ordered window functions (need order_by) and unordered group aggregates usable in a windowed extend
ORDERED_FNS = ("cumsum", "cummax", "cummin", "cumprod", "_row_number", "cumcount", "shift", "rank", "first", "last", "bfill", "ffill")
GROUP_FNS = ("sum", "mean", "min", "max", "count", "size", "_size")


def sort_partition(rows: List[Sequence[Any]], idx_order: Sequence[int], descending: Sequence[bool]) -> List[Sequence[Any]]:
    """Rows of one partition in the declared order: order_by columns left to right, reversed columns descending.
    Precondition (checked by the callers' generators): no nulls in order columns and no ties."""

    def cmp(r1, r2):
        for i, d in zip(idx_order, descending):
            a, b = r1[i], r2[i]
            if a == b:
                continue
            c = -1 if a < b else 1
            return -c if d else c
        return 0

    return sorted(rows, key=functools.cmp_to_key(cmp))


def ref_window_fn(fn: str, vals: Sequence[Any], arg: Any = None) -> List[Any]:
    """Values of one window function for the rows of ONE partition, `vals` = the argument column in the declared
    order.  Meanings from the Term.* docstrings (expr_rep.py):
      cumsum/cumprod/cummax/cummin  cumulative sum/product/maximum/minimum of the items so far (missing items are
                                    skipped: the running value so far is returned at a missing item; missing while
                                    nothing was seen yet)
      _row_number                   1, 2, 3, ... in the declared order
      cumcount                      cumulative number of non-NA cells
      shift(n)                      the item n rows earlier in the declared order (n < 0: later), missing outside
      rank                          rank of the item among the items of its partition, 1 = smallest (only defined
                                    here for partitions of distinct non-missing items)
      first / last                  first / last item of the partition in the declared order
      ffill / bfill                 missing items replaced by the previous / next non-missing item in the declared order
      sum mean min max count size   group aggregates over the whole partition (ref_group_agg), same value on every row"""
    n = len(vals)
    if fn in GROUP_FNS:
        a = ref_group_agg(fn, vals)
        return [a] * n
    if fn in ("cumsum", "cumprod", "cummax", "cummin"):
        f = {"cumsum": lambda a, b: a + b, "cumprod": lambda a, b: a * b, "cummax": max, "cummin": min}[fn]
        out, acc = [], None
        for v in vals:
            if v is not None:
                acc = v if acc is None else f(acc, v)
            out.append(acc)
        return out
    if fn == "_row_number":
        return list(range(1, n + 1))
    if fn == "cumcount":
        out, c = [], 0
        for v in vals:
            c += 0 if v is None else 1
            out.append(c)
        return out
    if fn == "shift":
        k = 1 if arg is None else int(arg)
        return [vals[i - k] if 0 <= i - k < n else None for i in range(n)]
    if fn == "rank":
        if any(v is None for v in vals) or len(set(vals)) != len(vals):
            return [ANY] * n  # how ties / missing items are ranked is not documented
        return [1 + sum(1 for w in vals if w < v) for v in vals]
    if fn == "first":
        return [vals[0]] * n if n else []
    if fn == "last":
        return [vals[-1]] * n if n else []
    if fn == "ffill":
        out, last = [], None
        for v in vals:
            if v is not None:
                last = v
            out.append(last)
        return out
    if fn == "bfill":
        return list(reversed(ref_window_fn("ffill", list(reversed(vals)))))
    raise ValueError("ref_window_fn: unknown function %r" % (fn,))


def ref_window(
    cols: Sequence[str],
    rows: Sequence[Sequence[Any]],
    partition_by: Sequence[str],
    order_by: Sequence[str],
    reverse: Sequence[str],
    ops: Dict[str, Tuple[str, Optional[str], Any]],
) -> Tuple[List[str], List[Tuple[Any, ...]]]:
    """Reference windowed extend: partition the rows, sort each partition by order_by (reversed columns
    descending), compute every op = (function, argument column or None, extra argument) -> (columns, rows).
    Every input row is kept."""
    cols = list(cols)
    pidx = [cols.index(c) for c in partition_by]
    oidx = [cols.index(c) for c in order_by]
    desc = [c in set(reverse) for c in order_by]
    parts: Dict[Tuple, List[int]] = {}
    for i, r in enumerate(rows):
        parts.setdefault(key_of(r, pidx), []).append(i)
    new = [k for k in ops if k not in cols]
    out_cols = cols + new
    res: List[Dict[str, Any]] = [dict(zip(cols, r)) for r in rows]
    for members in parts.values():
        srt = sort_partition([tuple(rows[i]) + (i,) for i in members], oidx, desc) if oidx else [tuple(rows[i]) + (i,) for i in members]
        for k, (fn, argc, extra) in ops.items():
            vals = [r[cols.index(argc)] if argc is not None else 1 for r in srt]
            for r, v in zip(srt, ref_window_fn(fn, vals, extra)):
                res[r[-1]][k] = v
    return out_cols, [tuple(d[c] for c in out_cols) for d in res]


# --------------------------------------------------------------------------------------------------
# contracted execution of a single-root pipeline on the three back ends (C27, C05)
# --------------------------------------------------------------------------------------------------


class ContractedBackends:
    """Attaches run-time contracts (cbc.wrap) to the REAL step functions that execute the ROOT node of a pipeline:

        Pandas   model._method_dispatch_table[<node>]   (PandasModelBase._extend_step / _project_step)
        Polars   model._method_dispatch_table[<node>]   (PolarsModel._extend_step / _project_step)
        SQLite   DBHandle.read_query

    run(backend, ops, sql_key, tables, check) evaluates `ops` for real; the wrapper's postcondition materialises
    what the real function returned (a Polars LazyFrame is collected) and applies check(obs) -> (ok, why).
    Returns {'obs': ('ok', cols, rows) | ('raise', type, msg), 'ok': bool | None, 'why': str}."""

    NODE_FN = {"ExtendNode": "_extend_step", "ProjectNode": "_project_step"}

    def __init__(self, nodes: Sequence[str] = ("ExtendNode", "ProjectNode")):
        self.nodes = tuple(nodes)
        self.state: Dict[str, Any] = {"active": None}
        self.attached = False

    def name(self, be: str, node: str = "ExtendNode") -> str:
        if be == "sqlite":
            return "DBHandle.read_query[SQLite]"
        return "%s.%s" % ("PandasModelBase" if be == "pandas" else "PolarsModel", self.NODE_FN[node])

    def names(self) -> List[str]:
        return sorted(set([self.name("sqlite")] + [self.name(be, n) for be in ("pandas", "polars") for n in self.nodes]))

    def _post(self, call, outcome):
        st = self.state
        obs = outcome_raise(outcome.exception) if outcome.exception is not None else materialise(outcome.value)
        st["obs"] = obs
        if obs[0] != "ok":
            st["verdict"] = (None, "%s: %s" % (obs[1], obs[2]))
            return {"status": "raise", "detail": st["verdict"][1]}
        st["verdict"] = st["check"](obs)
        return None if st["verdict"][0] else {"status": "fail", "detail": st["verdict"][1]}

    def ensure_attached(self):
        if self.attached:
            return
        import data_algebra.data_model
        import data_algebra.db_model
        import data_algebra.polars_model  # noqa: F401
        from cbc import wrap

        models = {
            "pandas": data_algebra.data_model.default_data_model(),
            "polars": data_algebra.data_model.lookup_data_model_for_key("default_Polars_model"),
        }
        for be, model in models.items():
            for node in self.nodes:

                def when(call, be=be):
                    return self.state.get("active") == be and call.kwargs.get("op") is self.state.get("ops")

                wrap.attach_dispatch(model, node, wrap.contract(post=self._post, name=self.name(be, node), when=when))

        def when_q(call):
            return self.state.get("active") == "sqlite" and len(call.args) >= 2 and isinstance(call.args[1], str)

        wrap.attach(
            data_algebra.db_model.DBHandle,
            "read_query",
            wrap.contract(pre=lambda call: call.args[0].conn is not None, post=self._post, name=self.name("sqlite"), when=when_q),
            factory=True,
        )
        self.attached = True

    def run(self, be: str, ops, sql_key: str, tables: Dict[str, Tuple[Dict[str, List[Any]], Dict[str, str]]], check: Callable) -> Dict[str, Any]:
        from cbc import wrap

        self.ensure_attached()
        st = self.state
        st.update({"active": be, "ops": ops, "check": check, "obs": None, "verdict": None})
        try:
            if be == "pandas":
                out = canon_out(C.run_pandas(ops, {n: C.to_pandas(t, s) for n, (t, s) in tables.items()}))
            elif be == "polars":
                out = canon_out(C.run_polars(ops, {n: C.to_polars(t, s) for n, (t, s) in tables.items()}))
            else:
                ses = SqliteSession.get()
                sql = ses.sql_for(sql_key, ops)
                if sql[0] != "ok":
                    out = sql
                else:
                    for n, (t, s) in tables.items():
                        ses.load(n, C.to_pandas(t, s))
                    out = canon_out(ses.read(sql[1]))
        finally:
            st["active"] = None
        wrap.take_failures()
        if st["verdict"] is None:
            if out[0] == "raise":  # raised before the function under contract was reached (e.g. in to_sql / the builder)
                return {"obs": out, "ok": None, "why": "%s: %s" % (out[1], out[2])}
            raise wrap.HarnessError("the contract on %s was not evaluated" % self.name(be, getattr(ops, "node_name", "ExtendNode") if be != "sqlite" else "ExtendNode"))
        return {"obs": st["obs"], "ok": st["verdict"][0], "why": st["verdict"][1]}


# --------------------------------------------------------------------------------------------------
# documented meaning of every catalogued method (C05)
# --------------------------------------------------------------------------------------------------
# Sources (never the implementations):
#   * docstrings of Term.* in data_algebra/expr_rep.py, and the section comments there which point to the
#     definitions the method families follow: "math functions / more numpy stuff" -> numpy routines.math
#     (missing in -> missing out), "pandas style definitions" -> pandas GroupBy reference (aggregates skip
#     missing items), "emulating numeric types" -> Python operators;
#   * the `expression` column of op_catalog.methods_table (operand types, literal arguments);
#   * the comment on mod/remainder in sql_model.py: "use destination semantics" for signs.
# Where these leave a value open, the method's DOMAIN is restricted (`dom`) and the restriction recorded (`note`).

import datetime as _dt

NUM_GRID = [None, 0.0, -1.0, 1.0, 2.5, -0.0, 1e6]
NUMX_GRID = NUM_GRID + [float("inf"), float("-inf")]  # is_inf / is_bad / is_nan only
INT_GRID = [None, 0, -1, 1, 1000000]
BOOL_GRID = [None, True, False]
STR_GRID = [None, "a", "", "abc"]
DATE_GRID = [None, _dt.date(2020, 2, 29), _dt.date(2021, 1, 3), _dt.date(1999, 12, 31)]  # 2021-01-03 is a Sunday
DATETIME_GRID = [None, _dt.datetime(2020, 2, 29, 23, 59, 58), _dt.datetime(2021, 1, 3, 0, 0, 0)]
STRDATE_GRID = [None, "2020-02-29", "1999-12-31"]
STRDATETIME_GRID = [None, "2020-02-29 23:59:58", "1999-12-31 00:00:00"]
NUMR_GRID = NUM_GRID + [1234.5678, -1234.5678, 15.5, 25.0, 0.125, 1249.99]  # rounding methods: several digits on both sides of the point
STR2_GRID = STR_GRID + ["abcdef"]
STRDATE2_GRID = [None, "2020/02/29", "1999/12/31"]
STRDATETIME2_GRID = [None, "2020-02-29T23:59:58", "1999-12-31T00:00:00"]
GRIDS = {"numr": NUMR_GRID, "str2": STR2_GRID, "strdate2": STRDATE2_GRID, "strdatetime2": STRDATETIME2_GRID, "num": NUM_GRID, "numx": NUMX_GRID, "int": INT_GRID, "bool": BOOL_GRID, "str": STR_GRID, "date": DATE_GRID, "datetime": DATETIME_GRID, "strdate": STRDATE_GRID, "strdatetime": STRDATETIME_GRID}
#: value domains of the groups (<= 3 rows incl. nulls) used for aggregators and window functions
GROUP_GRIDS = {"num": [None, -1.0, 1.0, 2.5], "bool": [None, True, False], "numnan": [None, 1.0, float("nan")]}  # numnan: count only (NaN is a missing cell: 'non-NA cells')


class Method:
    """One catalogued method use.
    cls/catalog_expr  op_class and expression of the catalog row this entry covers
    expr              the expression evaluated (operand columns a0, a1, a2; aggregates / windows: value column v)
    args              operand types (scalar methods) / [value type] or [] (aggregates, windows)
    ref               scalar: ref(*operands) -> value; aggregate (p, up): ref(values of the group) -> value;
                      window (g, w, and the whole-column `e` sum): ref(values in window order) -> list of values
    dom               restriction of the operand values (scalar) / of the group's values; None = everything
    note              why the domain is restricted (goes to rep.extra['domain_restrictions'])
    skip              reason why nothing can be compared at all (documentation pins no value)"""

    def __init__(self, cls, catalog_expr, expr, args, ref, dom=None, note=None, skip=None, vid="catalog", consts=()):
        self.cls, self.catalog_expr, self.expr, self.args, self.ref, self.dom, self.note, self.skip = cls, catalog_expr, expr, list(args), ref, dom, note, skip
        self.vid = vid  # 'catalog' = the catalog's own expression; other ids = the same method with other CONSTANT parameters / operand grids
        self.consts = tuple(consts)  # constant operands written into `expr` (in operand order, after the column operands)
        self.variants: List["Method"] = []

    @property
    def key(self) -> str:
        return "%s|%s" % (self.cls, self.catalog_expr)

    @property
    def uid(self) -> str:
        return self.key if self.vid == "catalog" else "%s#%s" % (self.key, self.vid)


def _all_nn(*a):
    return all(v is not None for v in a)


def _prop(f):
    """numpy style: a missing operand gives a missing result."""

    def g(*a):
        if any(v is None for v in a):
            return None
        return f(*a)

    return g


def _finite(f, *a):
    try:
        v = f(*a)
    except (OverflowError, ValueError, ZeroDivisionError):
        return False
    return isinstance(v, (int, float)) and not isinstance(v, complex) and v == v and abs(v) < 1e300


NN = "null operands: behaviour not documented"
NOTE_MOD = "negative operands / zero divisor: sql_model.py documents 'destination semantics'"


def _sign(a):
    return 0 if a == 0 else (1 if a > 0 else -1)


def _pow_dom(a, b):
    if not _all_nn(a, b):
        return False
    if a > 0 or (a == 0 and b > 0) or (a < 0 and float(b).is_integer()):
        return _finite(math.pow, a, b)
    return False


def _fmax(a, b, f):
    if a is None:
        return b
    if b is None:
        return a
    return f(a, b)


def _prior_sunday(d):
    return d - _dt.timedelta(days=(d.weekday() + 1) % 7)


def _scalar_methods() -> List[Method]:
    E = []

    def add(cat, expr, args, ref, dom=None, note=None, skip=None):
        E.append(Method("e", cat, expr, args, ref, dom, note, skip))

    nn2 = lambda a, b: _all_nn(a, b)  # noqa: E731
    nn1 = lambda a: a is not None  # noqa: E731
    add("x != y", "a0 != a1", ["num", "num"], lambda a, b: a != b, nn2, NN)
    add("row_id % q", "a0 % a1", ["int", "int"], lambda a, b: a % b, lambda a, b: _all_nn(a, b) and a >= 0 and b > 0, NOTE_MOD + "; " + NN)
    add("x %/% y", "a0 %/% a1", ["num", "num"], lambda a, b: a / b, lambda a, b: _all_nn(a, b) and b != 0, "division by zero and " + NN)
    add("x * y", "a0 * a1", ["num", "num"], lambda a, b: a * b, nn2, NN)
    add("x ** y", "a0 ** a1", ["num", "num"], lambda a, b: math.pow(a, b), _pow_dom, "only real, finite powers (positive base, 0 ** positive, negative base with integer exponent); " + NN)
    add("x + y", "a0 + a1", ["num", "num"], lambda a, b: a + b, nn2, NN)
    add("-x", "-a0", ["num"], lambda a: -a, nn1, NN)
    add("x - y", "a0 - a1", ["num", "num"], lambda a, b: a - b, nn2, NN)
    add("x / y", "a0 / a1", ["num", "num"], lambda a, b: a / b, lambda a, b: _all_nn(a, b) and b != 0, "division by zero and " + NN)
    add("row_id // q", "a0 // a1", ["int", "int"], lambda a, b: a // b, lambda a, b: _all_nn(a, b) and a >= 0 and b > 0, "negative operands / zero divisor not documented; " + NN)
    add("x < y", "a0 < a1", ["num", "num"], lambda a, b: a < b, nn2, NN)
    add("x <= y", "a0 <= a1", ["num", "num"], lambda a, b: a <= b, nn2, NN)
    add("not a", "not a0", ["bool"], lambda a: not a, nn1, NN)
    add("x == y", "a0 == a1", ["num", "num"], lambda a, b: a == b, nn2, NN)
    add("x > y", "a0 > a1", ["num", "num"], lambda a, b: a > b, nn2, NN)
    add("x >= y", "a0 >= a1", ["num", "num"], lambda a, b: a >= b, nn2, NN)
    add("z.abs()", "a0.abs()", ["num"], _prop(abs))
    add("a and b", "a0 and a1", ["bool", "bool"], lambda a, b: a and b, nn2, NN)
    add("x.arccos()", "a0.arccos()", ["num"], _prop(math.acos), lambda a: a is None or -1 <= a <= 1, "outside [-1, 1] undefined")
    add("x.arccosh()", "a0.arccosh()", ["num"], _prop(math.acosh), lambda a: a is None or a >= 1, "below 1 undefined")
    add("x.arcsin()", "a0.arcsin()", ["num"], _prop(math.asin), lambda a: a is None or -1 <= a <= 1, "outside [-1, 1] undefined")
    add("x.arcsinh()", "a0.arcsinh()", ["num"], _prop(math.asinh))
    add("x.arctan()", "a0.arctan()", ["num"], _prop(math.atan))
    add("x.arctan2(y)", "a0.arctan2(a1)", ["num", "num"], _prop(math.atan2))
    add("x.arctanh()", "a0.arctanh()", ["num"], _prop(math.atanh), lambda a: a is None or -1 < a < 1, "outside (-1, 1) undefined")
    add("y.around(2)", "a0.around(2)", ["num"], _prop(lambda a: round(a, 2)))
    add("y.as_int64()", "a0.as_int64()", ["num"], lambda a: int(a), lambda a: a is not None and float(a).is_integer(), "'Cast as int': rounding of non-integral values and the cast of missing values are not documented")
    add("y.as_str()", "a0.as_str()", ["str"], lambda a: a, nn1, "'Cast as string': the text form of numbers and of missing values is not documented; only strings")
    add("date_col_1.base_Sunday()", "a0.base_Sunday()", ["date"], _prior_sunday, nn1, NN)
    add("y.ceil()", "a0.ceil()", ["num"], _prop(lambda a: float(math.ceil(a))))
    add("z.ceil()", "a0.ceil()", ["num"], _prop(lambda a: float(math.ceil(a))))
    add("z %?% 2", "a0 %?% 2", ["num"], lambda a: 2 if a is None else a)
    add("z.coalesce(2)", "a0.coalesce(2)", ["num"], lambda a: 2 if a is None else a)
    add("z.coalesce_0()", "a0.coalesce_0()", ["num"], lambda a: 0 if a is None else a)
    add('g %+% "_" %+% s2', 'a0 %+% "_" %+% a1', ["str", "str"], lambda a, b: a + "_" + b, nn2, NN)
    add("g.concat(s2)", "a0.concat(a1)", ["str", "str"], lambda a, b: a + b, nn2, NN)
    big = lambda a: a is None or abs(a) <= 700  # noqa: E731
    add("x.cos()", "a0.cos()", ["num"], _prop(math.cos))
    add("x.cosh()", "a0.cosh()", ["num"], _prop(math.cosh), big, "results beyond the float range")
    add("date_col_0.date_diff(date_col_1)", "a0.date_diff(a1)", ["date", "date"], lambda a, b: Either((a - b).days, (b - a).days), nn2, "sign of the difference not documented; " + NN)
    add("datetime_col_0.datetime_to_date()", "a0.datetime_to_date()", ["datetime"], lambda a: a.date(), nn1, NN)
    add("date_col_0.dayofmonth()", "a0.dayofmonth()", ["date"], lambda a: a.day, nn1, NN)
    add("date_col_0.dayofweek()", "a0.dayofweek()", ["date"], lambda a: 1 + ((a.weekday() + 1) % 7), nn1,
        "numbering taken from the SQL the library itself emits for this method, EXTRACT(DAYOFWEEK FROM x): 1 = Sunday ... 7 = Saturday; " + NN)
    add("date_col_0.dayofyear()", "a0.dayofyear()", ["date"], lambda a: a.timetuple().tm_yday, nn1, NN)
    add("x.exp()", "a0.exp()", ["num"], _prop(math.exp), big, "results beyond the float range")
    add("y.expm1()", "a0.expm1()", ["num"], _prop(math.expm1), big, "results beyond the float range")
    add("y.floor()", "a0.floor()", ["num"], _prop(lambda a: float(math.floor(a))))
    add("z.floor()", "a0.floor()", ["num"], _prop(lambda a: float(math.floor(a))))
    add("row_id.fmax(x)", "a0.fmax(a1)", ["num", "num"], lambda a, b: _fmax(a, b, max))
    add("row_id.fmin(x)", "a0.fmin(a1)", ["num", "num"], lambda a, b: _fmax(a, b, min))
    add("date_col_0.format_date()", "a0.format_date()", ["date"], lambda a: a.strftime("%Y-%m-%d"), nn1, NN)
    add("datetime_col_0.format_datetime()", "a0.format_datetime()", ["datetime"], lambda a: a.strftime("%Y-%m-%d %H:%M:%S"), nn1, NN)
    add("a.if_else(x, y)", "a0.if_else(a1, a2)", ["bool", "num", "num"], lambda c, a, b: None if c is None else (a if c else b))
    add("z.is_bad()", "a0.is_bad()", ["numx"], lambda a: a is None or math.isinf(a) or a != a)
    add("row_id.is_in({1, 3})", "a0.is_in({1, 3})", ["int"], lambda a: a in (1, 3), nn1, NN)
    add("y.is_inf()", "a0.is_inf()", ["numx"], lambda a: math.isinf(a), nn1, NN)
    add("y.is_nan()", "a0.is_nan()", ["numx"], lambda a: a != a, nn1, "Pandas does not distinguish missing from NaN: only non-missing items")
    add("z.is_null()", "a0.is_null()", ["num"], lambda a: a is None)
    add("x.log()", "a0.log()", ["num"], _prop(math.log), lambda a: a is None or a > 0, "non-positive arguments undefined")
    add("x.log10()", "a0.log10()", ["num"], _prop(math.log10), lambda a: a is None or a > 0, "non-positive arguments undefined")
    add("x.log1p()", "a0.log1p()", ["num"], _prop(math.log1p), lambda a: a is None or a > -1, "arguments <= -1 undefined")
    add('g.mapv({"a": 1, "b": 2, "z": 26}, 0)', 'a0.mapv({"a": 1, "b": 2, "z": 26}, 0)', ["str"], lambda a: {"a": 1, "b": 2, "z": 26}.get(a, 0), nn1, NN)
    add("row_id.maximum(x)", "a0.maximum(a1)", ["num", "num"], _prop(max))
    add("row_id.minimum(x)", "a0.minimum(a1)", ["num", "num"], _prop(min))
    add("row_id.mod(2)", "a0.mod(2)", ["int"], lambda a: a % 2, lambda a: a is not None and a >= 0, NOTE_MOD + "; " + NN)
    add("date_col_0.month()", "a0.month()", ["date"], lambda a: a.month, nn1, NN)
    add("a or b", "a0 or a1", ["bool", "bool"], lambda a, b: a or b, nn2, NN)
    add("str_date_col.parse_date()", "a0.parse_date()", ["strdate"], lambda a: _dt.datetime.strptime(a, "%Y-%m-%d").date(), nn1, NN)
    add("str_datetime_col.parse_datetime()", "a0.parse_datetime()", ["strdatetime"], lambda a: _dt.datetime.strptime(a, "%Y-%m-%d %H:%M:%S"), nn1, NN)
    add("date_col_0.quarter()", "a0.quarter()", ["date"], lambda a: (a.month - 1) // 3 + 1, nn1, NN)
    add("row_id.remainder(2)", "a0.remainder(2)", ["int"], lambda a: a % 2, lambda a: a is not None and a >= 0, NOTE_MOD + "; " + NN)
    add("y.round()", "a0.round()", ["num"], _prop(lambda a: float(round(a))), lambda a: a is None or abs(a - math.floor(a) - 0.5) > 1e-9, "'nearest integer, subject to some rules': exact halves")
    add("z.sign()", "a0.sign()", ["num"], _prop(_sign))
    add("x.sin()", "a0.sin()", ["num"], _prop(math.sin))
    add("x.sinh()", "a0.sinh()", ["num"], _prop(math.sinh), big, "results beyond the float range")
    add("x.sqrt()", "a0.sqrt()", ["num"], _prop(math.sqrt), lambda a: a is None or a >= 0, "negative arguments undefined")
    add("x.tanh()", "a0.tanh()", ["num"], _prop(math.tanh))
    add("datetime_col_0.timestamp_diff(datetime_col_1)", "a0.timestamp_diff(a1)", ["datetime", "datetime"], lambda a, b: Either((a - b).total_seconds(), (b - a).total_seconds()), nn2, "sign of the difference not documented; " + NN)
    add("g.trimstr(0, 2)", "a0.trimstr(0, 2)", ["str"], lambda a: a[0:2], nn1, NN)
    add("date_col_0.weekofyear()", "a0.weekofyear()", ["date"], None, skip="'Convert date to week of year': the week numbering scheme is not documented")
    add("a.where(x, y)", "a0.where(a1, a2)", ["bool", "num", "num"], lambda c, a, b: a if c is True else b)
    add("date_col_0.year()", "a0.year()", ["date"], lambda a: a.year, nn1, NN)
    return E


def _median(nn):
    s = sorted(nn)
    n = len(s)
    return None if n == 0 else (s[n // 2] if n % 2 else (s[n // 2 - 1] + s[n // 2]) / 2.0)


def _var(nn):
    n = len(nn)
    if n < 2:
        return None
    m = sum(nn) / float(n)
    return sum((v - m) ** 2 for v in nn) / float(n - 1)


def _agg_ref(name):
    """Aggregate meanings ('pandas style definitions': missing items are skipped; count = non-NA cells; size = items)."""

    def f(vals):
        nn = [v for v in vals if v is not None]
        if name in ("sum", "mean", "min", "max", "count", "size", "_size"):
            return ref_group_agg(name, vals)
        if name == "median":
            return _median(nn)
        if name == "nunique":
            return len(set(nn))
        if name == "var":
            return _var(nn)
        if name == "std":
            v = _var(nn)
            return None if v is None else math.sqrt(v)
        if name == "all":
            return all(nn)
        if name == "any":
            return any(nn)
        if name == "any_value":
            return Either(*vals)
        if name == "one_sum":
            return len(vals)
        raise ValueError(name)

    return f


def _const(f):
    """group aggregate used as a window function: the same value on every row of the partition."""
    return lambda vals: [f(vals)] * len(vals)


def _win(fn, extra=None):
    return lambda vals: ref_window_fn(fn, vals, extra)


NOTE_NONNULL_GROUP = "missing items: documented meaning undetermined (numpy propagates, pandas skips, SQL keeps the running value); only groups without missing items"


def _group_methods() -> List[Method]:
    M = []
    nonnull = lambda vals: all(v is not None for v in vals)  # noqa: E731
    for cls, wrap_ in (("g", _const), ("p", lambda f: f)):
        if cls == "g":
            M.append(Method("g", "_count()", "_count()", [], None, skip="_count() has no documentation (not a Term method, no docstring)"))
            M.append(Method("g", "_ngroup()", "_ngroup()", [], None, skip="_ngroup() has no documentation (not a Term method, no docstring)"))
        M.append(Method(cls, "_size()", "_size()", [], wrap_(_agg_ref("_size"))))
        if cls == "p":
            M.append(Method("p", "a.all()", "v.all()", ["bool"], _agg_ref("all"), nonnull, "missing items in all(): 'True if all items True' does not say whether a missing item counts"))
            # any(): 'True if any items True' is determinate with missing items too (a missing item is not a True item); all() is not ('all items True': is a missing item True?)
            M.append(Method("p", "a.any()", "v.any()", ["bool"], lambda vals: any(v is True for v in vals)))
        M.append(Method(cls, "z.count()", "v.count()", ["num"], wrap_(_agg_ref("count"))))
        for nm in ("max", "mean", "median", "min", "nunique"):
            M.append(Method(cls, "x.%s()" % nm, "v.%s()" % nm, ["num"], wrap_(_agg_ref(nm))))
        M.append(Method(cls, "x.size()", "v.size()", ["num"], wrap_(_agg_ref("size"))))
        M.append(Method(cls, "x.std()", "v.std()", ["num"], wrap_(_agg_ref("std"))))
        M.append(Method(cls, "(1).sum()", "(1).sum()", [], wrap_(_agg_ref("one_sum"))))
        M.append(Method(cls, "x.sum()", "v.sum()", ["num"], wrap_(_agg_ref("sum"))))
        M.append(Method(cls, "x.var()", "v.var()", ["num"], wrap_(_agg_ref("var"))))
    M.append(Method("e", "x.sum()", "v.sum()", ["num"], _const(_agg_ref("sum"))))  # whole-column sum on every row
    M.append(Method("u", "_uniform()", "_uniform()", [], None, skip="_uniform() is random: no value to compare"))
    M.append(Method("up", "x.any_value()", "v.any_value()", ["num"], _agg_ref("any_value")))
    M.append(Method("w", "_row_number()", "_row_number()", [], _win("_row_number")))
    M.append(Method("w", "z.bfill()", "v.bfill()", ["num"], _win("bfill")))
    M.append(Method("w", "z.cumcount()", "v.cumcount()", ["num"], _win("cumcount")))
    for nm in ("cummax", "cummin", "cumprod", "cumsum"):
        M.append(Method("w", "x.%s()" % nm, "v.%s()" % nm, ["num"], _win(nm), nonnull, NOTE_NONNULL_GROUP))
    M.append(Method("w", "z.ffill()", "v.ffill()", ["num"], _win("ffill")))
    M.append(Method("w", "x.first()", "v.first()", ["num"], _win("first"), nonnull, "first/last: whether missing items are skipped is not documented; only groups without missing items"))
    M.append(Method("w", "x.last()", "v.last()", ["num"], _win("last"), nonnull, "first/last: whether missing items are skipped is not documented; only groups without missing items"))
    M.append(Method("w", "x.rank()", "v.rank()", ["num"], _win("rank"), lambda vals: nonnull(vals) and len(set(vals)) == len(vals), "rank of ties and of missing items not documented; only groups of distinct non-missing items"))
    M.append(Method("w", "x.shift()", "v.shift()", ["num"], _win("shift", 1)))
    return M


def _round_ref(n: int):
    """x rounded to n decimals (n < 0: to tens, hundreds).  'Return rounded values (given number of decimals)' does
    not say how exact halves are rounded: for a half both neighbours are accepted (Either), every other value is pinned."""
    import decimal

    def f(a):
        if a is None:
            return None
        if a != a or a in (float("inf"), float("-inf")):
            return a
        q = decimal.Decimal(1).scaleb(-n)
        d = decimal.Decimal(repr(float(a)))
        lo = float(d.quantize(q, rounding=decimal.ROUND_HALF_EVEN))
        hi = float(d.quantize(q, rounding=decimal.ROUND_HALF_UP))
        return lo if lo == hi else Either(lo, hi)

    return f


NOTE_CONST = "constant parameter variant (not the catalog's literal)"
NOTE_EMPTY = "an empty is_in list / empty mapv dictionary cannot be written: the expression parser raises on [] and {}; coalesce(None) is refused by the builder (the both-null case is covered by coalesce of two columns)"


def _variant_methods() -> List[Method]:
    """The catalogued methods again with OTHER constant parameters than the catalog's literal: negative, zero and
    positive constants, boundary values of second / third arguments, and wider operand grids where the constant
    interacts with the magnitude of the operand.  Each variant names the catalog row it belongs to."""
    V: List[Method] = []
    nn1 = lambda a: a is not None  # noqa: E731
    nn2 = lambda a, b: _all_nn(a, b)  # noqa: E731

    def add(cls, cat, vid, expr, args, ref, dom=None, note=None, consts=()):
        V.append(Method(cls, cat, expr, args, ref, dom, note or NOTE_CONST, None, vid, consts))

    # --- rounding: decimals in {-2..2} x operands with digits on both sides of the point
    for n in (-2, -1, 0, 1, 2):
        add("e", "y.around(2)", "decimals=%d" % n, "a0.around(%d)" % n, ["numr"], _round_ref(n), None, "exact halves: either neighbour accepted (rounding rule of halves not documented)", consts=(n,))
    add("e", "y.round()", "wide-grid", "a0.round()", ["numr"], _round_ref(0), None, "exact halves: either neighbour accepted ('subject to some rules')")
    for nm, f in (("floor", math.floor), ("ceil", math.ceil)):
        add("e", "y.%s()" % nm, "wide-grid", "a0.%s()" % nm, ["numr"], _prop(lambda a, f=f: float(f(a))), None, "wider operand grid")
    # --- powers with a constant exponent (the SQL formatter special-cases the exponent 1)
    for c, txt in ((1, "1"), (2, "2"), (0, "0"), (-1, "(-1)"), (0.5, "0.5")):
        add("e", "x ** y", "exponent=%s" % c, "a0 ** %s" % txt, ["num"], lambda a, c=c: math.pow(a, c), lambda a, c=c: _pow_dom(a, c), "only real, finite powers; " + NN, consts=(c,))
    # --- binary operators and two-argument methods with a constant second operand
    arith = {"+": lambda a, b: a + b, "-": lambda a, b: a - b, "*": lambda a, b: a * b, "/": lambda a, b: a / b, "%/%": lambda a, b: a / b}
    cmpo = {"==": lambda a, b: a == b, "!=": lambda a, b: a != b, "<": lambda a, b: a < b, "<=": lambda a, b: a <= b, ">": lambda a, b: a > b, ">=": lambda a, b: a >= b}
    for op, f in list(arith.items()) + list(cmpo.items()):
        for c, txt in ((-1, "(-1)"), (0, "0"), (2.5, "2.5")):
            if op in ("/", "%/%") and c == 0:
                continue
            add("e", "x %s y" % op, "const=%s" % c, "a0 %s %s" % (op, txt), ["num"], lambda a, f=f, c=c: f(a, c), nn1, NN, consts=(c,))
    for nm, f in (("maximum", _prop(max)), ("minimum", _prop(min)), ("fmax", lambda a, b: _fmax(a, b, max)), ("fmin", lambda a, b: _fmax(a, b, min))):
        for c, txt in ((0, "0"), (-1, "(-1)"), (2.5, "2.5")):
            add("e", "row_id.%s(x)" % nm, "const=%s" % c, "a0.%s(%s)" % (nm, txt), ["num"], lambda a, f=f, c=c: f(a, c), consts=(c,))
    for c in (1, 2, 3):
        add("e", "row_id % q", "const=%d" % c, "a0 %% %d" % c, ["int"], lambda a, c=c: a % c, lambda a: a is not None and a >= 0, NOTE_MOD + "; " + NN, consts=(c,))
        add("e", "row_id // q", "const=%d" % c, "a0 // %d" % c, ["int"], lambda a, c=c: a // c, lambda a: a is not None and a >= 0, "negative operands not documented; " + NN, consts=(c,))
        if c != 2:
            add("e", "row_id.mod(2)", "const=%d" % c, "a0.mod(%d)" % c, ["int"], lambda a, c=c: a % c, lambda a: a is not None and a >= 0, NOTE_MOD + "; " + NN, consts=(c,))
            add("e", "row_id.remainder(2)", "const=%d" % c, "a0.remainder(%d)" % c, ["int"], lambda a, c=c: a % c, lambda a: a is not None and a >= 0, NOTE_MOD + "; " + NN, consts=(c,))
    # --- coalesce: both operands columns (null with null), other constants
    add("e", "z.coalesce(2)", "two-columns", "a0.coalesce(a1)", ["num", "num"], lambda a, b: b if a is None else a, None, "second operand a column (covers coalesce of null with null); " + NOTE_EMPTY)
    add("e", "z %?% 2", "two-columns", "a0 %?% a1", ["num", "num"], lambda a, b: b if a is None else a, None, "second operand a column (covers coalesce of null with null)")
    for c, txt in ((0, "0"), (-1.5, "(-1.5)")):
        add("e", "z.coalesce(2)", "const=%s" % c, "a0.coalesce(%s)" % txt, ["num"], lambda a, c=c: c if a is None else a, consts=(c,))
    # --- if_else / where with constant branches
    add("e", "a.if_else(x, y)", "const-branches", "a0.if_else(1, 2)", ["bool"], lambda c: None if c is None else (1 if c else 2), consts=(1, 2))
    add("e", "a.where(x, y)", "const-branches", "a0.where(1, 2)", ["bool"], lambda c: 1 if c is True else 2, consts=(1, 2))
    # --- is_in: list syntax, singleton, other members, strings
    add("e", "row_id.is_in({1, 3})", "list", "a0.is_in([1, 3])", ["int"], lambda a: a in (1, 3), nn1, NN + "; " + NOTE_EMPTY)
    add("e", "row_id.is_in({1, 3})", "singleton", "a0.is_in({1})", ["int"], lambda a: a == 1, nn1, NN)
    add("e", "row_id.is_in({1, 3})", "members=0,-1,1000000", "a0.is_in({0, -1, 1000000})", ["int"], lambda a: a in (0, -1, 1000000), nn1, NN)
    add("e", "row_id.is_in({1, 3})", "strings", 'a0.is_in({"a", "abc"})', ["str"], lambda a: a in ("a", "abc"), nn1, NN)
    # --- mapv: default omitted (missing for unmapped values), negative default, the empty string as a key
    add("e", 'g.mapv({"a": 1, "b": 2, "z": 26}, 0)', "no-default", 'a0.mapv({"a": 1, "b": 2, "z": 26})', ["str"], lambda a: {"a": 1, "b": 2, "z": 26}.get(a), nn1, NN + "; " + NOTE_EMPTY)
    add("e", 'g.mapv({"a": 1, "b": 2, "z": 26}, 0)', "default=-1", 'a0.mapv({"a": 1, "abc": 3}, -1)', ["str"], lambda a: {"a": 1, "abc": 3}.get(a, -1), nn1, NN)
    add("e", 'g.mapv({"a": 1, "b": 2, "z": 26}, 0)', "empty-string-key", 'a0.mapv({"": 7, "a": 1}, 0)', ["str"], lambda a: {"": 7, "a": 1}.get(a, 0), nn1, NN)
    # --- trimstr: other start / stop constants (start inclusive, stop exclusive)
    for st, en in ((0, 1), (1, 3), (0, 0), (2, 10), (2, 4)):
        add("e", "g.trimstr(0, 2)", "start=%d,stop=%d" % (st, en), "a0.trimstr(%d, %d)" % (st, en), ["str2"], lambda a, st=st, en=en: a[st:en], nn1, NN + "; negative positions not documented", consts=(st, en))
    # --- concat with constants
    add("e", "g.concat(s2)", "const=_", 'a0.concat("_")', ["str"], lambda a: a + "_", nn1, NN, consts=("_",))
    add("e", 'g %+% "_" %+% s2', "const=empty", 'a0 %+% ""', ["str"], lambda a: a, nn1, NN, consts=("",))
    # --- date formats other than the defaults
    add("e", "date_col_0.format_date()", "format=%Y/%m/%d", 'a0.format_date("%Y/%m/%d")', ["date"], lambda a: a.strftime("%Y/%m/%d"), nn1, NN)
    add("e", "date_col_0.format_date()", "format=%d.%m.%y", 'a0.format_date("%d.%m.%y")', ["date"], lambda a: a.strftime("%d.%m.%y"), nn1, NN)
    add("e", "datetime_col_0.format_datetime()", "format=%H:%M", 'a0.format_datetime("%H:%M")', ["datetime"], lambda a: a.strftime("%H:%M"), nn1, NN)
    add("e", "str_date_col.parse_date()", "format=%Y/%m/%d", 'a0.parse_date("%Y/%m/%d")', ["strdate2"], lambda a: _dt.datetime.strptime(a, "%Y/%m/%d").date(), nn1, NN)
    add("e", "str_datetime_col.parse_datetime()", "format=T", 'a0.parse_datetime("%Y-%m-%dT%H:%M:%S")', ["strdatetime2"], lambda a: _dt.datetime.strptime(a, "%Y-%m-%dT%H:%M:%S"), nn1, NN)
    # --- shift amounts: further back, forward (negative), beyond the partition
    for k in (1, 2, 3, -1, -2):
        V.append(Method("w", "x.shift()", "v.shift(%d)" % k, ["num"], _win("shift", k), None, NOTE_CONST + "; shift(0) is refused by the builder", None, "periods=%d" % k, (k,)))
    # --- count over groups that hold NaN: documented 'number of non-NA cells' -- NaN is NA (native Polars frames keep NaN apart from null)
    for cls, wrap_ in (("g", _const), ("p", lambda f: f)):
        V.append(Method(cls, "z.count()", "v.count()", ["numnan"], wrap_(lambda vals: len([v for v in vals if v is not None and v == v])), None, "groups with NaN items", None, "nan-items"))
    # --- sum of a constant
    for cls, wrap_ in (("g", _const), ("p", lambda f: f)):
        for c, txt in ((0, "(0)"), (2, "(2)"), (-1, "(-1)")):
            V.append(Method(cls, "(1).sum()", "%s.sum()" % txt, [], wrap_(lambda vals, c=c: c * len(vals)), None, NOTE_CONST, None, "const=%d" % c, (c,)))
    return V


def doc_meaning() -> Dict[str, Method]:
    """(op_class|catalog expression) -> Method for every row of op_catalog.methods_table; Method.variants holds
    the same method with other constant parameters / operand grids (see _variant_methods)."""
    out: Dict[str, Method] = {}
    for m in _scalar_methods() + _group_methods():
        if m.key in out:
            raise ValueError("duplicate doc_meaning entry " + m.key)
        out[m.key] = m
    seen = set()
    for v in _variant_methods():
        if v.key not in out:
            raise ValueError("variant for an unknown catalog row " + v.key)
        if v.uid in seen:
            raise ValueError("duplicate variant " + v.uid)
        seen.add(v.uid)
        out[v.key].variants.append(v)
    return out


# --------------------------------------------------------------------------------------------------
# reporting helper
# --------------------------------------------------------------------------------------------------


def cap_unclassified(rep, limit: int = 25) -> None:
    """Every failing case that no narrow classifier matches has its own key `CNN:unclassified:<hash>` and is
    therefore a new VIOLATION.  A single defect can produce many thousands of them (one replay file and one output
    line each), so only the first `limit` (rep.violations must already be sorted, simplest witness first) are kept as
    Violation objects; the total and the number left out are recorded in rep.extra -- the run still fails."""
    uncl = [v for v in rep.violations if ":unclassified:" in v.key]
    if len(uncl) <= limit:
        if uncl:
            rep.extra["unclassified_failing_cases"] = len(uncl)
        return
    keep = set(id(v) for v in uncl[:limit])
    rep.violations[:] = [v for v in rep.violations if ":unclassified:" not in v.key or id(v) in keep]
    rep.extra["unclassified_failing_cases"] = len(uncl)
    rep.extra["unclassified_failing_cases_not_listed"] = len(uncl) - limit
    for v in rep.violations:
        if id(v) in keep:
            v.what += " [one of %d unclassified failing cases; only the %d simplest are listed]" % (len(uncl), limit)
