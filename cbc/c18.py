"""C18 (bounded): results ignore input row order (and the pandas index); order_rows orders and limits.

Contracts on the REAL entry points, per back end b in {Pandas, Polars, SQLite}:

  (I)  ViewRepresentation.eval / DBHandle.read_query on permuted or re-indexed inputs:
           post: result  ==(multiset)  result of the same back end on the original inputs
  (O)  for pipelines ending in order_rows(cols, reverse, limit): every returned table (original and every
       variant) is sorted by cols with the given reversals (ties free; per column nulls may sit first or
       last, consistently) and, with limit=n, is a valid first-n selection of what the same back end
       returns for the pipeline without its final order_rows.

Variants: every permutation of the rows of table d (<= 4 rows: all of them), the reversal and one rotation
of every other input table, and for Pandas three re-indexings of all inputs (shuffled ints, string labels,
duplicate labels).  Cases whose window orderings are not total within each partition on the data, or whose
mid-chain limit cuts through ties, are not determined and are counted as skipped.

Null placement observed per back end (documented, not flagged): Pandas sort_values puts nulls last for both
directions; SQLite puts NULL first ascending and last descending; Polars puts nulls first for both and
treats a float NaN (0.0/0.0) as a value greater than every number (so NaN sorts last ascending).
"""
from __future__ import annotations

import collections
import itertools
import sys
import time
from typing import Any, Dict, List, Optional, Tuple

import pandas

from vlib.core import Report, Violation
from cbc import common as C
from cbc import wrap

PID = "C18"
BACKENDS = ("Pandas",)
NAME_EVAL = "ViewRepresentation.eval"
NAME_SQL = "DBHandle.read_query[SQLite]"
RUN_BACKENDS = ("pandas", "polars", "sqlite")

FUNCTIONS_UNDER_CONTRACT = [
    {"file": "data_algebra/view_representations.py", "function": "ViewRepresentation.eval"},
    {"file": "data_algebra/db_model.py", "function": "DBHandle.read_query"},
    {"file": "data_algebra/pandas_base.py", "function": "PandasModelBase._table_step"},
    {"file": "data_algebra/pandas_base.py", "function": "PandasModelBase._extend_step"},
    {"file": "data_algebra/pandas_base.py", "function": "PandasModelBase._order_rows_step"},
    {"file": "data_algebra/polars_model.py", "function": "PolarsModel._order_rows_step"},
    {"file": "data_algebra/sql_model.py", "function": "SQLModel.order_to_near_sql"},
]

_STATE: Dict[str, Any] = {}
_ATTACHED = False


# --------------------------------------------------------------------------------------------------
# variants
# --------------------------------------------------------------------------------------------------


def permute_table(tab: Dict[str, List[Any]], perm) -> Dict[str, List[Any]]:
    return {c: [v[i] for i in perm] for c, v in tab.items()}


def variants(spec, data) -> List[Tuple[str, Dict[str, Any]]]:
    """[(name, permuted data)]: all permutations of d, reversal and rotation of the other tables."""
    tabs = C.spec_tables(spec)
    out = []
    main = spec["table"]
    n = len(next(iter(data[main].values())))
    for perm in itertools.permutations(range(n)):
        if list(perm) == list(range(n)):
            continue
        nd = dict(data)
        nd[main] = permute_table(data[main], perm)
        out.append(("perm(%s)=%s" % (main, "".join(map(str, perm))), nd))
    for t in tabs:
        if t == main:
            continue
        m = len(next(iter(data[t].values())))
        if m >= 2:
            for nm, perm in (("rev", list(reversed(range(m)))), ("rot", list(range(1, m)) + [0])):
                if perm == list(range(m)):
                    continue
                nd = dict(data)
                nd[t] = permute_table(data[t], perm)
                out.append(("%s(%s)" % (nm, t), nd))
    return out


REINDEXINGS = ("shuffled-ints", "string-labels", "duplicate-labels")


def reindex(frame: pandas.DataFrame, how: str) -> pandas.DataFrame:
    n = frame.shape[0]
    f = frame.copy()
    if how == "shuffled-ints":
        f.index = [((i * 7 + 3) % max(n, 1)) * 10 + 5 for i in range(n)][::-1] if n else []
    elif how == "string-labels":
        f.index = ["r%d" % (n - i) for i in range(n)]
    elif how == "duplicate-labels":
        f.index = [0 for _ in range(n)]
    else:
        raise ValueError(how)
    return f


# --------------------------------------------------------------------------------------------------
# contracts
# --------------------------------------------------------------------------------------------------


def _post_common(outcome, ops_last_node) -> Optional[str]:
    st = _STATE
    if outcome.exception is not None:
        st["out"] = C._outcome_raise(outcome.exception)
    else:
        # Polars keeps NaN (e.g. 0.0/0.0) as a float VALUE that sorts after every number, distinct from null
        # (which it sorts first): keep the two apart so that the sortedness check judges what Polars did
        cols, rows = C.canon_rows(outcome.value, keep_nan=True)
        st["out"] = ("ok", cols, rows)
    st["seen"] = True
    mode = st.get("mode")
    if mode == "base":
        why = None
        if st["out"][0] == "ok" and st.get("order") is not None and st.get("full") is not None:
            why = _order_check(st["out"], st["full"], st["order"])
        st["why"] = why
        return why
    # variant: compare with the base result of the same back end
    base = st["base"]
    why = None
    if base[0] == "raise" or st["out"][0] == "raise":
        if base[0] != st["out"][0]:
            why = "raise/return differs between original and variant input: original %s, variant %s" % (base[:2], st["out"][:2])
    else:
        if st.get("order") is not None and st.get("full") is not None:
            why = _order_check(st["out"], st["full"], st["order"])
        if why is None:
            if st.get("compare_multiset", True):
                ok, w = C.frames_equiv((base[1], base[2]), (st["out"][1], st["out"][2]))
                if not ok:
                    why = "result changed with the input row order/index: " + w
            else:
                # limit cutting through ties: both are valid selections (checked above); keys must agree
                oc = st["order"]["columns"]
                kb = sorted(map(C.row_sort_key, C.key_sequence(base[1], base[2], oc)))
                kv = sorted(map(C.row_sort_key, C.key_sequence(st["out"][1], st["out"][2], oc)))
                if kb != kv:
                    why = "order keys of the limited result changed with the input row order"
    st["why"] = why
    return why


def _order_check(out, full, order) -> Optional[str]:
    ok, why = C.check_order_limit(out[1], out[2], full[1], full[2], list(order["columns"]), list(order.get("reverse") or []), order.get("limit"))
    return None if ok else "order_rows: " + why


def _ensure_attached():
    global _ATTACHED
    if _ATTACHED:
        return
    import data_algebra.db_model
    import data_algebra.view_representations as vr

    def when(call):
        return _STATE.get("active", False)

    def when_sql(call):
        return _STATE.get("active", False) and len(call.args) >= 2 and isinstance(call.args[1], vr.ViewRepresentation)

    wrap.attach(vr.ViewRepresentation, "eval", wrap.contract(post=lambda c, o: _post_common(o, None), name=NAME_EVAL, when=when), factory=True)
    wrap.attach(data_algebra.db_model.DBHandle, "read_query", wrap.contract(post=lambda c, o: _post_common(o, None), name=NAME_SQL, when=when_sql), factory=True)
    _ATTACHED = True


def _run(backend: str, ops, spec, data, frames=None):
    """Run under the contract; returns (out, why)."""
    _STATE["active"] = True
    _STATE["seen"] = False
    try:
        if backend == "pandas":
            raw = C.run_pandas(ops, frames if frames is not None else C.pandas_frames(spec, data))
        elif backend == "polars":
            raw = C.run_polars(ops, C.polars_frames(spec, data), lazy=False)
        else:
            raw = C.run_sqlite(ops, frames if frames is not None else C.pandas_frames(spec, data), via_ops=True)
    finally:
        _STATE["active"] = False
    wrap.take_failures()
    if not _STATE.get("seen"):
        if raw[0] == "raise":
            # raised before the contracted function produced an outcome (e.g. to_sql failed inside run_sqlite)
            return raw, None
        raise wrap.HarnessError("contract not evaluated for backend " + backend)
    return _STATE["out"], _STATE.get("why")


def eval_case(spec: Dict[str, Any], data: Dict[str, Any]) -> Dict[str, Any]:
    _ensure_attached()
    ops = C.build(spec)
    pc = C.PrefixCache(spec, data, keep_nan=True)
    skip, info = C.data_preconditions(spec, pc, backends=RUN_BACKENDS)
    if skip is not None:
        return {"status": "skipped:" + skip, "evals": [], "fails": []}
    order = C.last_order_step(spec)
    nsteps = len(spec["steps"])
    evals: List[Tuple[str, str, str]] = []  # (backend, variant, status)
    fails: List[Dict[str, Any]] = []
    vs = variants(spec, data)
    for be in RUN_BACKENDS:
        full = None
        compare_multiset = True
        if order is not None:
            f = pc.rows(nsteps - 1, backend=be)
            if f[0] == "ok":
                full = f
                if order.get("limit") is not None and not C.limit_cut_is_determined(f[1], f[2], order["columns"], order.get("reverse"), order["limit"]):
                    compare_multiset = False
        _STATE.clear()
        _STATE.update({"mode": "base", "order": order, "full": full})
        base, why = _run(be, ops, spec, data)
        if base[0] == "raise":
            evals.append((be, "original", "raised"))
            continue
        evals.append((be, "original", "ok" if why is None else "fail"))
        if why is not None:
            fails.append({"backend": be, "variant": "original", "detail": why})
        todo: List[Tuple[str, Dict[str, Any], Optional[Dict[str, pandas.DataFrame]]]] = [(nm, nd, None) for nm, nd in vs]
        if be in ("pandas", "sqlite"):
            for how in REINDEXINGS:
                frames = {t: reindex(fr, how) for t, fr in C.pandas_frames(spec, data).items()}
                todo.append(("reindex:" + how, data, frames))
        for nm, nd, frames in todo:
            _STATE.clear()
            _STATE.update({"mode": "variant", "order": order, "full": full, "base": base, "compare_multiset": compare_multiset})
            out, why = _run(be, ops, spec, nd, frames=frames)
            if out[0] == "raise" and base[0] != "raise" and why is None:
                why = "raise/return differs between original and variant input: variant raised %s: %s" % (out[1], out[2][:120])
            evals.append((be, nm, "ok" if why is None else "fail"))
            if why is not None:
                fails.append({"backend": be, "variant": nm, "detail": why, "variant_data": {t: nd[t] for t in C.spec_tables(spec)} if frames is None else None})
    res = {"status": "fail" if fails else "ok", "evals": evals, "fails": fails}
    for f in fails:
        f["key"] = classify(spec, data, f)
    return res


def classify(spec, data, f) -> str:
    return "%s:unclassified:%s" % (PID, C.case_hash({"spec": spec, "backend": f["backend"], "kind": f["detail"].split(":")[0]}))


def _worker(job):
    pool = C.data_pool(*job["pool_args"])
    out = []
    for spec, di in job["cases"]:
        data = pool[di]
        try:
            r = eval_case(spec, data)
        except Exception as e:
            import traceback

            r = {"status": "harness-error", "evals": [], "fails": [], "detail": "%s: %s | %s" % (type(e).__name__, e, traceback.format_exc()[-700:])}
        r["ids"] = spec["meta"]["ids"]
        r["di"] = di
        r["spec"] = spec if r["status"] in ("fail", "harness-error") else None
        out.append(r)
    return {"results": out, "wrap": wrap.snapshot()}


def scope(tier: str):
    if tier == "quick":
        return {"depths": [1, 2], "max_rows": 3, "cap": 40, "per_spec": {1: 3, 2: 1, 3: 0}}
    return {"depths": [1, 2, 3], "max_rows": 4, "cap": 64, "per_spec": {1: 6, 2: 1, 3: 1}}


def make_cases(tier: str, seed: int):
    sc = scope(tier)
    pool = C.data_pool(sc["max_rows"], seed, sc["cap"])
    # data sets with something to permute: d has >= 2 rows
    good = [i for i, ds in enumerate(pool) if len(ds["d"]["k"]) >= 2]
    cases = []
    idx = 0
    for depth in sc["depths"]:
        per = sc["per_spec"][depth]
        for spec in C.gen_pipelines(depth, tier, two_table=True, backends=BACKENDS):
            # quick tier: every second operator pair (which half is chosen by the seed); thorough: all pairs and
            # every second triple of the reduced grid
            if not ((tier == "quick" and depth >= 2 and (idx + seed) % 2 == 1) or (tier != "quick" and depth >= 3 and (idx + seed) % 2 == 1)):
                for j in range(per):
                    cases.append((spec, good[(idx * 3 + seed * 5 + j * 7) % len(good)]))
            idx += 1
    return sc, cases


def bounded(rep: Report, tier: str, seed: int) -> None:
    t0 = time.time()
    sc, cases = make_cases(tier, seed)
    pool_args = (sc["max_rows"], seed, sc["cap"])
    jobs = [{"cases": sh, "pool_args": pool_args} for sh in C.shard(cases, C.n_workers() * 8) if sh]
    outs = C.run_parallel(_worker, jobs, chunksize=1)
    counts = collections.Counter()
    ecounts = collections.Counter()
    pool = C.data_pool(*pool_args)
    for o in outs:
        wrap.merge(o["wrap"])
        for r in o["results"]:
            st = r["status"]
            counts[st] += 1
            if st == "harness-error":
                rep.errors.append("harness error on %s data#%d: %s" % (r["ids"], r["di"], r["detail"]))
                continue
            if st.startswith("skipped"):
                rep.case((tuple(r["ids"]), r["di"], "-", "-"), nontrivial=False)
                continue
            for be, vn, est in r["evals"]:
                ecounts["%s %s" % (be, est)] += 1
                rep.case((tuple(r["ids"]), r["di"], be, vn), nontrivial=(est in ("ok", "fail") and vn != "original"))
            if st == "ok":
                rep.add_sample({"pipeline": "+".join(r["ids"]), "data": r["di"], "evaluations": len(r["evals"])})
            for f in r["fails"]:
                spec = r["spec"]
                data = {t: pool[r["di"]][t] for t in C.spec_tables(spec)}
                rep.violations.append(
                    Violation(
                        key=f["key"],
                        what="%s, %s input: %s -- pipeline %s on %s" % (f["backend"], f["variant"], f["detail"][:300], C.describe(spec), _short(data)),
                        replay={"module": "cbc.c18", "case": {"spec": spec, "data": data, "backend": f["backend"], "variant": f["variant"]}},
                    )
                )
    C.sort_violations(rep)
    wrap.require_evaluated(rep, [NAME_EVAL, NAME_SQL])
    rep.extra["case_status_counts"] = dict(counts)
    rep.extra["evaluation_counts"] = dict(ecounts)
    rep.extra["contract_evaluations"] = dict(wrap.EVALS)
    print("C18 bounded: %d cases %s evals %s in %.1fs" % (len(cases), dict(counts), dict(ecounts), time.time() - t0), file=sys.stderr)


def _short(data) -> str:
    return "; ".join("%s=%s" % (t, {c: v for c, v in tab.items()}) for t, tab in data.items())[:300]


def replay_case(case: Dict[str, Any]) -> bool:
    spec, data = case["spec"], case["data"]
    print("pipeline:", C.describe(spec))
    for t, tab in data.items():
        print("table %s: %r" % (t, tab))
    r = eval_case(spec, data)
    print("status:", r["status"])
    for be, vn, st in r["evals"]:
        if st != "ok":
            print("  %s %s: %s" % (be, vn, st))
    for f in r["fails"]:
        print("FAIL %s %s [%s]: %s" % (f["backend"], f["variant"], f["key"], f["detail"][:500]))
    return r["status"] == "fail"
