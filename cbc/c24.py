"""C24 bounded ride-along: every operation sequence up to a length bound over a 3-element alphabet, on the real
OrderedSet, against a (set, first-insertion list) model.  Covers the inherited MutableSet mixins too (which pyvc
does not reach).  bounded: sequence length <= 4 (quick) / 5 (thorough), elements {'a','b','c'}."""
import itertools
from vlib.core import Report, Violation

ELEMS = ["a", "b", "c"]


def _model_apply(model, op):
    s, order = model
    kind = op[0]
    if kind == "add":
        if op[1] not in s:
            s.add(op[1]); order.append(op[1])
    elif kind in ("discard",):
        if op[1] in s:
            s.discard(op[1]); order.remove(op[1])
    elif kind == "remove":
        if op[1] not in s:
            return "KeyError"
        s.discard(op[1]); order.remove(op[1])
    elif kind == "update":
        for e in op[1]:
            if e not in s:
                s.add(e); order.append(e)
    elif kind == "ior":
        for e in op[1]:
            if e not in s:
                s.add(e); order.append(e)
    elif kind == "isub":
        for e in op[1]:
            if e in s:
                s.discard(e); order.remove(e)
    elif kind == "iand":
        for e in list(order):
            if e not in op[1]:
                s.discard(e); order.remove(e)
    elif kind == "clear":
        s.clear(); del order[:]
    elif kind == "pop":
        if not order:
            return "KeyError"
        # MutableSet.pop removes the first element of iteration
        e = order[0]
        s.discard(e); order.remove(e)
    return None


def _real_apply(o, op, OrderedSet):
    kind = op[0]
    try:
        if kind == "add":
            o.add(op[1])
        elif kind == "discard":
            o.discard(op[1])
        elif kind == "remove":
            o.remove(op[1])
        elif kind == "update":
            o.update(op[1])
        elif kind == "ior":
            o |= OrderedSet(op[1])
        elif kind == "isub":
            o -= OrderedSet(op[1])
        elif kind == "iand":
            o &= OrderedSet(op[1])
        elif kind == "clear":
            o.clear()
        elif kind == "pop":
            o.pop()
    except KeyError:
        return o, "KeyError"
    return o, None


def ops_alphabet():
    ops = []
    for e in ELEMS:
        ops += [("add", e), ("discard", e), ("remove", e)]
    for l in (["b", "a"], ["c", "c", "a"], []):
        ops += [("update", l)]
    ops += [("ior", ["c", "b"]), ("isub", ["a", "c"]), ("iand", ["b", "c"]), ("clear",), ("pop",)]
    return ops


def check_sequence(seq, OrderedSet, ordered_union, ordered_intersect, ordered_diff):
    """returns None or a description of the first disagreement."""
    import copy as _copy
    for init in ([], ["b", "a", "b"]):
        o = OrderedSet(init)
        model = (set(), [])
        _model_apply(model, ("update", init))
        for i, op in enumerate(seq):
            exp_exc = _model_apply(model, op)
            o, got_exc = _real_apply(o, op, OrderedSet)
            if exp_exc != got_exc:
                return "init=%r ops=%r step %d: exception %r, model %r" % (init, seq[: i + 1], i, got_exc, exp_exc)
            s, order = model
            if list(o) != order:
                return "init=%r ops=%r step %d: iteration %r, model %r" % (init, seq[: i + 1], i, list(o), order)
            if len(o) != len(s) or any((e in o) != (e in s) for e in ELEMS):
                return "init=%r ops=%r step %d: len/contains disagree (%r vs %r)" % (init, seq[: i + 1], i, list(o), sorted(s))
        s, order = model
        c1, c2 = o.copy(), _copy.copy(o)
        if list(c1) != order or list(c2) != order:
            return "init=%r ops=%r: copy order %r/%r, model %r" % (init, seq, list(c1), list(c2), order)
        c1.add("zz")
        if list(o) != order:
            return "init=%r ops=%r: mutating a copy changed the original" % (init, seq)
        for other in (["c", "a"], ["a", "b", "c", "d"], []):
            oo = OrderedSet(other)
            so = set(other)
            exp = {"le": s <= so, "ge": s >= so, "lt": s < so, "gt": s > so, "eq": s == so, "disjoint": s.isdisjoint(so)}
            got = {"le": o <= oo, "ge": o >= oo, "lt": o < oo, "gt": o > oo, "eq": o == oo, "disjoint": o.isdisjoint(oo)}
            if exp != got:
                return "init=%r ops=%r other=%r: comparisons %r, model %r" % (init, seq, other, got, exp)
            un = order + [e for e in dict.fromkeys(other) if e not in s]
            if list(o.union(oo)) != un:
                return "init=%r ops=%r other=%r: union() %r, model %r" % (init, seq, other, list(o.union(oo)), un)
            # inherited binary operators build a NEW set; the property fixes their members, not the order they were inserted in
            if set(o | oo) != (s | so) or set(o & oo) != (s & so) or set(o - oo) != (s - so) or set(o ^ oo) != (s ^ so):
                return "init=%r ops=%r other=%r: | & - ^ members wrong (%r, %r, %r, %r)" % (init, seq, other, list(o | oo), list(o & oo), list(o - oo), list(o ^ oo))
            for r in (o | oo, o & oo, o - oo, o ^ oo):
                if len(list(r)) != len(set(r)) or len(r) != len(set(r)):
                    return "init=%r ops=%r other=%r: operator result iterates duplicates" % (init, seq, other)
    return None


def check_helpers(a, b, ordered_union, ordered_intersect, ordered_diff):
    da = list(dict.fromkeys(a))
    db = list(dict.fromkeys(b))
    exp = {
        "union": da + [e for e in db if e not in set(a)],
        "intersect": [e for e in da if e in set(b)],
        "diff": [e for e in da if e not in set(b)],
    }
    got = {"union": list(ordered_union(a, b)), "intersect": list(ordered_intersect(a, b)), "diff": list(ordered_diff(a, b))}
    if got != exp:
        return "a=%r b=%r: helpers %r, spec %r" % (a, b, got, exp)
    # the same with OrderedSet / tuple arguments; arguments must come back unchanged and the result must be a new object
    from data_algebra.OrderedSet import OrderedSet
    for wrap_a in (OrderedSet, tuple):
        for wrap_b in (OrderedSet, tuple):
            for fname, fn in (("union", ordered_union), ("intersect", ordered_intersect), ("diff", ordered_diff)):
                xa, xb = wrap_a(a), wrap_b(b)
                r = fn(xa, xb)
                if list(r) != exp[fname]:
                    return "a=%s%r b=%s%r: %s gives %r, spec %r" % (wrap_a.__name__, a, wrap_b.__name__, b, fname, list(r), exp[fname])
                if list(xa) != (da if wrap_a is OrderedSet else list(a)) or list(xb) != (db if wrap_b is OrderedSet else list(b)):
                    return "a=%s%r b=%s%r: %s modified an argument (now %r / %r)" % (wrap_a.__name__, a, wrap_b.__name__, b, fname, list(xa), list(xb))
                if r is xa or r is xb:
                    return "a=%s%r b=%s%r: %s returned one of its arguments" % (wrap_a.__name__, a, wrap_b.__name__, b, fname)
    return None


def bounded(rep: Report, tier: str, seed: int) -> None:
    from data_algebra.OrderedSet import OrderedSet, ordered_union, ordered_intersect, ordered_diff
    maxlen = 3 if tier == "quick" else 4
    alphabet = ops_alphabet()
    n_fail = 0
    for n in range(0, maxlen + 1):
        for seq in itertools.product(alphabet, repeat=n):
            msg = check_sequence(list(seq), OrderedSet, ordered_union, ordered_intersect, ordered_diff)
            rep.case(("seq", n, repr(seq)), nontrivial=n > 0)
            if n == 2 and len(rep.samples) < 3:
                rep.add_sample({"ops": [list(o) for o in seq]})
            if msg and n_fail < 3:
                n_fail += 1
                rep.violations.append(Violation(key="C24:OrderedSet:operation-sequence-disagrees-with-set-model", what=msg,
                                                replay={"module": "cbc.c24", "case": {"kind": "seq", "ops": [list(o) for o in seq]}}))
    hl = 3 if tier == "quick" else 4
    pool = ELEMS + ["d"]
    h_fail = 0
    for la in range(0, hl + 1):
        for a in itertools.product(pool, repeat=la):
            for lb in range(0, hl + 1):
                for b in itertools.product(pool, repeat=lb):
                    msg = check_helpers(list(a), list(b), ordered_union, ordered_intersect, ordered_diff)
                    rep.case(("helpers", a, b), nontrivial=la > 0 and lb > 0)
                    if msg and h_fail < 3:
                        h_fail += 1
                        rep.violations.append(Violation(key="C24:ordered-helpers:result-differs-from-spec", what=msg,
                                                        replay={"module": "cbc.c24", "case": {"kind": "helpers", "a": list(a), "b": list(b)}}))
    rep.add_sample({"a": ["b", "a", "b"], "b": ["c", "a"]})


def replay_case(case) -> bool:
    from data_algebra.OrderedSet import OrderedSet, ordered_union, ordered_intersect, ordered_diff
    if case["kind"] == "seq":
        msg = check_sequence([tuple(o) if len(o) < 2 or not isinstance(o[1], list) else (o[0], o[1]) for o in case["ops"]], OrderedSet, ordered_union, ordered_intersect, ordered_diff)
    else:
        msg = check_helpers(case["a"], case["b"], ordered_union, ordered_intersect, ordered_diff)
    print(msg or "case passes on this tree")
    return bool(msg)
