"""C21 (bounded): solution helpers compute what their documentation promises.

Contract on the REAL pipelines built by data_algebra.solutions, evaluated on Pandas (`ops.eval`) and on SQLite
(`read_query(ops)`), each compared with an independent reference computation (plain Python):

    rank_to_average                 every row gets the mean of the 1-based positions of its tie group (rows with equal
                                    order keys) in the ascending order of its partition
    last_observed_carried_forward   every missing value becomes the latest earlier non-missing value of its partition
                                    (in the given order), stays missing when there is none; other values unchanged
    replicate_rows_query            every row is emitted exactly `count` times, numbered 0 .. count-1
    def_multi_column_map            every listed column is mapped through the mapping table keyed by (column name, value);
                                    unmapped values become null, or coalesce_value when given; optional new column names
"""
from __future__ import annotations

import collections
import itertools
import json
import sys
import time
import traceback
from typing import Any, Dict, List, Optional, Tuple

from vlib.core import Report, Violation
from cbc import common as C
from cbc import oracles_c as O

PID = "C21"

FUNCTIONS_UNDER_CONTRACT = [
    {"file": "data_algebra/solutions.py", "function": "rank_to_average"},
    {"file": "data_algebra/solutions.py", "function": "last_observed_carried_forward"},
    {"file": "data_algebra/solutions.py", "function": "replicate_rows_query"},
    {"file": "data_algebra/solutions.py", "function": "def_multi_column_map"},
]

# --------------------------------------------------------------------------------------------------
# reference computations (tables are {"cols": [...], "rows": [tuples]})
# --------------------------------------------------------------------------------------------------


def ref_rank_to_average(cols, rows, order_by, partition_by, rank_col):
    ip = [cols.index(c) for c in partition_by]
    io = [cols.index(c) for c in order_by]
    parts: Dict[Tuple, List[int]] = collections.OrderedDict()
    for i, r in enumerate(rows):
        parts.setdefault(tuple(r[j] for j in ip), []).append(i)
    rank = [None] * len(rows)
    for idx in parts.values():
        srt = sorted(idx, key=lambda i: tuple(rows[i][j] for j in io))
        pos = {i: p + 1 for p, i in enumerate(srt)}
        groups: Dict[Tuple, List[int]] = {}
        for i in idx:
            groups.setdefault(tuple(rows[i][j] for j in io), []).append(i)
        for g in groups.values():
            m = sum(pos[i] for i in g) / float(len(g))
            for i in g:
                rank[i] = m
    return list(cols) + [rank_col], [tuple(r) + (rank[i],) for i, r in enumerate(rows)]


def _missing(v) -> bool:
    return v is None or v == "nan" or (isinstance(v, float) and v != v)


def ref_locf(cols, rows, order_by, partition_by, value_col):
    ip = [cols.index(c) for c in partition_by]
    io = [cols.index(c) for c in order_by]
    iv = cols.index(value_col)
    parts: Dict[Tuple, List[int]] = collections.OrderedDict()
    for i, r in enumerate(rows):
        parts.setdefault(tuple(r[j] for j in ip), []).append(i)
    out = [list(r) for r in rows]
    for idx in parts.values():
        last = None
        for i in sorted(idx, key=lambda i: tuple(rows[i][j] for j in io)):
            if _missing(rows[i][iv]):  # only MISSING values are filled; +-inf is a value
                out[i][iv] = last
            else:
                last = rows[i][iv]
    return list(cols), [tuple(r) for r in out]


def ref_replicate(cols, rows, count_col, seq_col):
    ic = cols.index(count_col)
    out = []
    for r in rows:
        for s in range(int(r[ic])):
            out.append(tuple(r) + (s,))
    return list(cols) + [seq_col], out


def ref_multi_map(cols, rows, mapping_rows, row_keys, cols_to_map, coalesce_value, cols_back):
    mp = {(cn, cv): mv for cn, cv, mv in mapping_rows}
    out_cols = list(row_keys) + list(cols_back if cols_back is not None else cols_to_map)
    out = []
    for r in rows:
        d = dict(zip(cols, r))
        vals = []
        for c in cols_to_map:
            v = mp.get((c, d[c])) if d[c] is not None else None
            if v is None and coalesce_value is not None:
                v = coalesce_value
            vals.append(v)
        out.append(tuple(d[k] for k in row_keys) + tuple(vals))
    return out_cols, out


# --------------------------------------------------------------------------------------------------
# case generation
# --------------------------------------------------------------------------------------------------


def gen_cases(tier: str, seed: int) -> List[Dict[str, Any]]:
    out = []
    # ---- rank_to_average: all tables <= 4 rows over 2 partitions x 3 order values (ties!), with / without partition
    dom = [(p, x) for p in ("a", "b") for x in (1, 2, 3)]
    n_max = 4
    for n in range(0, n_max + 1):
        for k, rows in enumerate(itertools.product(dom, repeat=n)):
            if tier == "quick" and n == 4 and k % 4 != seed % 4:
                continue
            for part in (["p"], []):
                out.append({"helper": "rank_to_average", "cols": ["p", "x"], "rows": [list(r) for r in rows], "partition_by": part, "order_by": ["x"]})
    # two order columns (tie groups over pairs)
    dom2 = [(p, x, y) for p in ("a", "b") for x in (1, 2) for y in (1, 2)]
    for n in (2, 3):
        for k, rows in enumerate(itertools.product(dom2, repeat=n)):
            if n == 3 and k % (4 if tier == "quick" else 1) != 0:
                continue
            out.append({"helper": "rank_to_average", "cols": ["p", "x", "y"], "rows": [list(r) for r in rows], "partition_by": ["p"], "order_by": ["x", "y"]})
    # ---- last_observed_carried_forward: distinct order keys, 2 partitions; values: missing (None and NaN -- the same
    #      thing in a Pandas float column and in SQLite), ordinary numbers and +-inf (values, NOT missing: never filled,
    #      and carried forward like any other value)
    INF = float("inf")
    vdom = (None, 1.0, 2.0, INF, -INF, "nan")
    for n in range(0, 5):
        perms = [list(range(1, n + 1)), list(range(n, 0, -1))] + ([[2, 4, 1, 3][:n] if n == 4 else [2, 3, 1][:n]] if n >= 3 else [])
        perms = [list(p) for p in collections.OrderedDict.fromkeys(tuple(p) for p in perms)]
        k = 0
        for t in perms:
            for ps in itertools.product(("a", "b"), repeat=n):
                for vs in itertools.product(vdom, repeat=n):
                    k += 1
                    if n == 3 and k % (6 if tier == "quick" else 1) != seed % (6 if tier == "quick" else 1):
                        continue
                    if n == 4 and k % (150 if tier == "quick" else 12) != seed % 12:
                        continue
                    if all(v is not None and v != "nan" for v in vs) and k % 5 != 0:
                        continue  # nothing to fill: keep a few
                    rows = [[ps[i], t[i], vs[i]] for i in range(n)]
                    for part in (["p"], None):
                        out.append({"helper": "last_observed_carried_forward", "cols": ["p", "t", "v"], "rows": rows, "partition_by": part, "order_by": ["t"]})
    # ---- replicate_rows_query: counts 1 .. max_count
    for max_count in (1, 2, 3, 4, 5, 8):
        for n in range(0, 4 if max_count <= 5 else 3):
            for k, cs in enumerate(itertools.product(range(1, max_count + 1), repeat=n)):
                if tier == "quick" and n == 3 and k % 3 != seed % 3:
                    continue
                rows = [["r%d" % i, c] for i, c in enumerate(cs)]
                out.append({"helper": "replicate_rows_query", "cols": ["id", "cnt"], "rows": rows, "max_count": max_count})
    # ---- def_multi_column_map
    mappings = {
        "full": [["c1", "a", 1.0], ["c1", "b", 2.0], ["c2", "a", 10.0], ["c2", "b", 20.0]],
        "partial": [["c1", "a", 1.0], ["c2", "b", 20.0]],
        "one-column-only": [["c1", "a", 1.0], ["c1", "b", 2.0]],
    }
    vals = ("a", "b", "z", None)
    for n in range(0, 4):
        for k, cells in enumerate(itertools.product(vals, repeat=2 * n)):
            if n == 3 and k % (16 if tier == "quick" else 4) != seed % 4:
                continue
            if n == 2 and tier == "quick" and k % 2 != 0:
                continue
            rows = [[i + 1, cells[2 * i], cells[2 * i + 1]] for i in range(n)]
            for mname in mappings:
                for coal, back in ((None, None), (0.0, None), (None, ["m1", "m2"]), (-1.0, ["m1", "m2"])):
                    if (k + len(mname)) % 2 == 0 and (coal, back) not in ((None, None), (0.0, None)):
                        continue
                    out.append({"helper": "def_multi_column_map", "cols": ["id", "c1", "c2"], "rows": rows, "mapping": mappings[mname], "mapping_name": mname, "coalesce_value": coal, "cols_to_map_back": back})
    return out


# --------------------------------------------------------------------------------------------------
# building and running
# --------------------------------------------------------------------------------------------------

_TYPES = {"p": "str", "x": "int", "y": "int", "t": "int", "v": "float", "id": "str", "cnt": "int", "c1": "str", "c2": "str"}


def _frame(cols, rows, types=None):
    types = types or _TYPES
    cell = lambda v: float("nan") if v == "nan" else v  # noqa: E731  ("nan" marks an explicit NaN cell in stored cases)
    return C.to_pandas({c: [cell(r[j]) for r in rows] for j, c in enumerate(cols)}, {c: types[c] for c in cols})


def build(case):
    """-> (ops, {table name: pandas frame}, expected (cols, rows))"""
    import pandas
    import data_algebra.solutions as sol
    from data_algebra import TableDescription

    cols, rows = case["cols"], [tuple(r) for r in case["rows"]]
    h = case["helper"]
    if h == "def_multi_column_map":
        types = dict(_TYPES, id="int")
    else:
        types = _TYPES
    d = TableDescription(table_name="d", column_names=cols)
    tabs = {"d": _frame(cols, rows, types)}
    if h == "rank_to_average":
        kw = {"partition_by": case["partition_by"]} if case["partition_by"] else {}  # no partition: the helper's DEFAULT
        ops = sol.rank_to_average(d, order_by=case["order_by"], rank_column_name="rk", **kw)
        want = ref_rank_to_average(cols, rows, case["order_by"], case["partition_by"], "rk")
    elif h == "last_observed_carried_forward":
        kw = {"partition_by": case["partition_by"]} if case["partition_by"] else {}  # every optional parameter at its DEFAULT
        ops = sol.last_observed_carried_forward(d, order_by=case["order_by"], value_column_name="v", **kw)
        want = ref_locf(cols, rows, case["order_by"], case["partition_by"] or [], "v")
    elif h == "replicate_rows_query":
        ops, count_frame = sol.replicate_rows_query(d, count_column_name="cnt", seq_column_name="seq", join_temp_name="jt", max_count=case["max_count"])
        tabs["jt"] = count_frame
        want = ref_replicate(cols, rows, "cnt", "seq")
    elif h == "def_multi_column_map":
        mt = TableDescription(table_name="m", column_names=["column_name", "column_value", "mapped_value"])
        kw = {}
        if case["coalesce_value"] is not None:
            kw["coalesce_value"] = case["coalesce_value"]
        if case["cols_to_map_back"] is not None:
            kw["cols_to_map_back"] = case["cols_to_map_back"]
        ops = sol.def_multi_column_map(d, mapping_table=mt, row_keys=["id"], cols_to_map=["c1", "c2"], **kw)
        mrows = [tuple(r) for r in case["mapping"]]
        tabs["m"] = pandas.DataFrame({"column_name": [r[0] for r in mrows], "column_value": [r[1] for r in mrows], "mapped_value": [float(r[2]) for r in mrows]})
        want = ref_multi_map(cols, rows, mrows, ["id"], ["c1", "c2"], case["coalesce_value"], case["cols_to_map_back"])
    else:
        raise ValueError(h)
    return ops, tabs, want


_HANDLE = None


def _sqlite(ops, tabs):
    global _HANDLE
    import warnings
    import data_algebra.SQLite

    if _HANDLE is None:
        _HANDLE = data_algebra.SQLite.example_handle()
    h = _HANDLE
    try:
        with warnings.catch_warnings():
            warnings.simplefilter("ignore")
            try:
                for k, v in tabs.items():
                    h.insert_table(v, table_name=k, allow_overwrite=True)
                return ("ok", h.read_query(ops))
            except Exception as e:
                return C._outcome_raise(e)
    finally:
        try:
            for nm in [r[0] for r in h.conn.execute("SELECT name FROM sqlite_master WHERE type = 'table'").fetchall()]:
                h.conn.execute('DROP TABLE "%s"' % nm)
            h.conn.commit()
        except Exception:
            try:
                h.close()
            finally:
                _HANDLE = None


def eval_case(case) -> Dict[str, Any]:
    res: Dict[str, Any] = {"fails": [], "compared": 0}
    try:
        ops, tabs, want = build(case)
    except Exception as e:
        res["fails"].append(["build", "raise", "%s: %s" % (type(e).__name__, str(e)[:200])])
        res["status"] = "fail"
        res["keys"] = classify(case, res)
        return res
    for be in ("pandas", "sqlite"):
        r = C.run_pandas(ops, {k: v.copy() for k, v in tabs.items()}) if be == "pandas" else _sqlite(ops, tabs)
        if r[0] != "ok":
            res["fails"].append([be, "raise", "%s: %s" % (r[1], r[2][:200])])
            continue
        res["compared"] += 1
        ok, why = C.frames_equiv(r[1], (want[0], want[1]))
        if not ok:
            res["fails"].append([be, "result", why[:320]])
    res["status"] = "fail" if res["fails"] else "ok"
    if res["fails"]:
        res["keys"] = classify(case, res)
    return res


# --------------------------------------------------------------------------------------------------
# classification
# --------------------------------------------------------------------------------------------------


def classify(case, res) -> Dict[str, List[str]]:
    keys: Dict[str, List[str]] = collections.OrderedDict()
    for be, kind, det in res["fails"]:
        msg = "[%s] %s: %s" % (be, kind, det)
        st = known_trigger(case, be, kind, det)
        if st is not None:
            keys.setdefault("%s:%s:%s" % (PID, st[0], st[1]), []).append(msg)
        else:
            keys.setdefault("%s:unclassified:%s" % (PID, O.uhash([case["helper"], be, kind, det.split(":")[0] if kind == "raise" else "", len(case["rows"]) == 0])), []).append(msg)
    return keys


def known_trigger(case, be, kind, det) -> Optional[Tuple[str, str]]:
    """narrow classifiers for the defects confirmed natively on the pinned tree"""
    # same defect as C01:util.guess_carried_scalar_type:all-null-column -- a column without any non-null value is typed
    # float (type of NaN): when EVERY value to be mapped is null, the unpivoted column_value column is "float" and the
    # Pandas natural_join against the string-keyed mapping table refuses the key types
    if (
        case["helper"] == "def_multi_column_map"
        and be == "pandas"
        and kind == "raise"
        and det.startswith("ValueError: join: incompatible column types")
        and "column_value" in det
        and len(case["rows"]) > 0
        and all(r[1] is None and r[2] is None for r in case["rows"])
    ):
        return ("util.guess_carried_scalar_type", "all-null-column")
    return None


# --------------------------------------------------------------------------------------------------
# driver
# --------------------------------------------------------------------------------------------------


def _worker(job):
    out = []
    for case in job:
        try:
            r = eval_case(case)
        except Exception as e:
            r = {"status": "harness-error", "detail": "%s: %s | %s" % (type(e).__name__, e, traceback.format_exc()[-700:]), "compared": 0}
        r["case"] = case if r["status"] in ("fail", "harness-error") else None
        r["helper"] = case["helper"]
        r["id"] = O.uhash(case)
        out.append(r)
    return out


def describe(case) -> str:
    extra = {k: v for k, v in case.items() if k not in ("helper", "cols", "rows", "mapping")}
    return "%s(%s) on d %s %r%s" % (case["helper"], ", ".join("%s=%r" % kv for kv in sorted(extra.items())), case["cols"], [tuple(r) for r in case["rows"]], (" mapping table %r" % case["mapping"]) if "mapping" in case else "")


def bounded(rep: Report, tier: str, seed: int) -> None:
    t0 = time.time()
    cases = gen_cases(tier, seed)
    outs = O.pool_map(_worker, O.shards(cases, 8))
    counts = collections.Counter()
    by_helper = collections.Counter()
    fam = collections.Counter()
    fam_ex: Dict[str, str] = {}
    for o in outs:
        for r in o:
            st = r["status"]
            counts[st] += 1
            by_helper[r["helper"] + ":" + st] += 1
            if st == "harness-error":
                rep.errors.append("harness error on %s: %s" % (r["helper"], r["detail"]))
                continue
            rep.case(r["helper"] + "|" + r["id"], nontrivial=(r["compared"] > 0))
            if st == "ok":
                rep.add_sample({"helper": r["helper"], "results_compared_with_reference": r["compared"]})
            if st == "fail":
                for be, kind, det in r["fails"]:
                    k = "%s|%s|%s" % (r["helper"], be, kind)
                    fam[k] += 1
                    fam_ex.setdefault(k, "%s: %s" % (describe(r["case"])[:200], det[:200]))
                for key, dets in r["keys"].items():
                    rep.violations.append(
                        Violation(
                            key=key,
                            what=("%s: %s" % (describe(r["case"]), O.short("; ".join(dets[:2]), 400))).replace("\n", " "),
                            replay={"module": "cbc.c21", "case": {"case_json": json.dumps(r["case"])}, "n_keys": len(r["keys"]), "size": len(r["case"]["rows"])},
                        )
                    )
    rep.violations.sort(key=lambda v: (v.replay.get("n_keys", 1), v.replay.get("size", 0), len(v.what), v.key, v.what))
    rep.extra["status_counts"] = dict(counts)
    rep.extra["by_helper"] = dict(by_helper)
    rep.extra["failure_families"] = {k: [v, fam_ex[k]] for k, v in sorted(fam.items())}
    rep.extra["failing_cases_by_key"] = dict(collections.Counter(v.key for v in rep.violations))
    print("C21 bounded: %d cases %s in %.1fs" % (len(cases), dict(by_helper), time.time() - t0), file=sys.stderr)


def replay_case(payload: Dict[str, Any]) -> bool:
    """Re-run one stored case natively; print what was observed; True iff it still fails."""
    case = json.loads(payload["case_json"])
    print(describe(case))
    ops, tabs, want = build(case)
    print("pipeline:", " ".join(ops.to_python(pretty=False).split())[:600])
    print("reference result:", want[0], sorted(want[1], key=C.row_sort_key))
    for be in ("pandas", "sqlite"):
        r = C.run_pandas(ops, {k: v.copy() for k, v in tabs.items()}) if be == "pandas" else _sqlite(ops, tabs)
        if r[0] == "ok":
            c, rows = C.canon_rows(r[1])
            print("%-6s result:" % be, c, sorted(rows, key=C.row_sort_key))
        else:
            print("%-6s raises %s: %s" % (be, r[1], r[2][:200]))
    r = eval_case(case)
    for be, kind, det in r["fails"]:
        print("FAIL [%s] %s: %s" % (be, kind, det))
    print("verdict:", r["status"], list(r.get("keys", {}).keys()))
    return r["status"] == "fail"
