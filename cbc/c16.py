"""C16 (bounded): natural_join matches SQL join semantics on every backend.

Contracts (run-time pre/post wrappers, cbc.wrap) on the REAL

    PandasModelBase._natural_join_step      (dispatch-table entry of the live default Pandas model)
    PolarsModel._natural_join_step          (dispatch-table entry of the live default Polars model)
    DBHandle.read_query                     (SQLiteModel: RIGHT / FULL joins are emulated by the library)

    post(result) :=  frames_equiv(result, ref_join(a, b, on, jointype))      [columns + multiset of rows]

plus the generic SQL path with native RIGHT/FULL JOIN: PostgreSQLModel().to_sql(ops) text executed by the
sqlite3 3.40 library as a surrogate engine (a text sqlite3 cannot parse is counted as skipped, never as passed).

Two independent oracles, which must agree with each other on every case (else: harness error):
  (i)  cbc.oracles_b.ref_join      -- reference join over row lists
  (ii) cbc.oracles_b.native_join_sql -- hand-written `SELECT COALESCE(a.c, b.c) ... FROM a FULL JOIN b ON a.k = b.k`
       executed on a plain sqlite3 connection (native RIGHT / FULL JOIN).
"""
from __future__ import annotations

import collections
import itertools
import sys
import time
from typing import Any, Dict, List, Optional, Tuple

from vlib.core import Report, Violation
from cbc import common as C
from cbc import wrap
from cbc import oracles_b as O

PID = "C16"
BACKENDS = ("pandas", "polars", "sqlite", "pgsql")
CONTRACTS = {
    "pandas": "PandasModelBase._natural_join_step",
    "polars": "PolarsModel._natural_join_step",
    "sqlite": "DBHandle.read_query[SQLiteModel]",
    "pgsql": "PostgreSQLModel.to_sql[text run on sqlite3 surrogate]",
}
FUNCTIONS_UNDER_CONTRACT = [
    {"file": "data_algebra/pandas_base.py", "function": "PandasModelBase._natural_join_step"},
    {"file": "data_algebra/polars_model.py", "function": "PolarsModel._natural_join_step"},
    {"file": "data_algebra/db_model.py", "function": "DBHandle.read_query"},
    {"file": "data_algebra/SQLite.py", "function": "SQLiteModel.natural_join_to_near_sql"},
    {"file": "data_algebra/SQLite.py", "function": "SQLiteModel._emit_right_join_as_left_join"},
    {"file": "data_algebra/SQLite.py", "function": "SQLiteModel._emit_full_join_as_complex"},
    {"file": "data_algebra/sql_model.py", "function": "SQLModel.natural_join_to_near_sql"},
]

KEY_DOMAIN = [None, 1, 2]
V_DOMAIN = [None, 10, 20]
JOINTYPES = ["inner", "left", "right", "full"]
#: key specifications: columns of a / b (without the private column), join keys
KEYSPECS: Dict[str, Dict[str, Any]] = {
    "same": {"a": ["k", "v"], "b": ["k", "v"], "on": ["k"], "nkeys": 1},
    "diff": {"a": ["k", "v"], "b": ["k2", "v"], "on": [["k", "k2"]], "nkeys": 1},
    "two": {"a": ["k", "j", "v"], "b": ["k", "j", "v"], "on": ["k", "j"], "nkeys": 2},
    "none": {"a": ["k", "v"], "b": ["k2", "v"], "on": [], "nkeys": 1},
}
COMBOS = [(jt, ks) for ks in ("same", "diff", "two") for jt in JOINTYPES] + [("cross", "none")]


def scope(tier: str) -> Dict[str, Any]:
    if tier == "quick":
        return {"max_rows": 2, "full_sum": 4, "big_shard": 1, "two_pairs": 2500}
    # thorough: all pairs with rows(a)+rows(b) <= 5, a seed-rotated 1/4 shard of the 3x3-row pairs
    return {"max_rows": 3, "full_sum": 5, "big_shard": 4, "two_pairs": 12000}


def row_domain(ks: str) -> List[Tuple[Any, ...]]:
    nk = KEYSPECS[ks]["nkeys"]
    return list(itertools.product(*([KEY_DOMAIN] * nk + [V_DOMAIN])))


_TABLE_CACHE: Dict[Tuple[str, int], List[Tuple[Tuple[Any, ...], ...]]] = {}


def tables(ks: str, max_rows: int) -> List[Tuple[Tuple[Any, ...], ...]]:
    """ALL tables with <= max_rows rows over the row domain, as multisets of rows (row order is not an input
    of a join; the private column added below numbers the rows, so duplicates stay distinguishable)."""
    key = (ks, max_rows)
    if key not in _TABLE_CACHE:
        dom = row_domain(ks)
        out = []
        for n in range(max_rows + 1):
            out.extend(itertools.combinations_with_replacement(dom, n))
        _TABLE_CACHE[key] = out
    return _TABLE_CACHE[key]


def side(ks: str, which: str, rows) -> Tuple[List[str], List[Tuple[Any, ...]], Dict[str, str]]:
    """(columns, rows incl. the private column, schema) of the left ('a': private p = 100+i) or right
    ('b': private q = 200+i) table."""
    cols = list(KEYSPECS[ks][which]) + ["p" if which == "a" else "q"]
    base = 100 if which == "a" else 200
    full = [tuple(r) + (base + i,) for i, r in enumerate(rows)]
    return cols, full, {c: "int" for c in cols}


def as_table(cols, rows) -> Dict[str, List[Any]]:
    return {c: [r[j] for r in rows] for j, c in enumerate(cols)}


_OPS_CACHE: Dict[Tuple[str, str], Any] = {}


def build_ops(jt: str, ks: str):
    from data_algebra import TableDescription

    if (jt, ks) not in _OPS_CACHE:
        spec = KEYSPECS[ks]
        a = TableDescription(table_name="a", column_names=spec["a"] + ["p"])
        b = TableDescription(table_name="b", column_names=spec["b"] + ["q"])
        on = [tuple(o) if isinstance(o, list) else o for o in spec["on"]]
        _OPS_CACHE[(jt, ks)] = a.natural_join(b, on=on, jointype=jt)
    return _OPS_CACHE[(jt, ks)]


def describe(jt: str, ks: str) -> str:
    spec = KEYSPECS[ks]
    return "a%r.natural_join(b%r, on=%r, jointype=%r)" % (spec["a"] + ["p"], spec["b"] + ["q"], spec["on"], jt)


# --------------------------------------------------------------------------------------------------
# contracts
# --------------------------------------------------------------------------------------------------

_STATE: Dict[str, Any] = {"active": None}
_ATTACHED = False


def _models():
    import data_algebra.data_model
    import data_algebra.polars_model  # noqa: F401

    return (
        data_algebra.data_model.default_data_model(),
        data_algebra.data_model.lookup_data_model_for_key("default_Polars_model"),
    )


def _post_for(backend: str):
    def post(call, outcome):
        _STATE["evaluated"] = backend
        if outcome.exception is not None:
            obs = O.outcome_raise(outcome.exception)
        else:
            obs = O.materialise(outcome.value)  # a Polars LazyFrame raises its errors only when collected
        _STATE["obs"] = obs
        if obs[0] != "ok":
            return {"status": "raise", "detail": "%s: %s" % (obs[1], obs[2])}
        ok, why = C.frames_equiv((obs[1], obs[2]), _STATE["expected"])
        _STATE["ok"] = ok
        _STATE["why"] = why
        return None if ok else {"status": "rows", "detail": why}

    return post


def _ensure_attached():
    global _ATTACHED
    if _ATTACHED:
        return
    import data_algebra.db_model

    pm, plm = _models()
    for be, model in (("pandas", pm), ("polars", plm)):

        def when(call, be=be):
            op = call.kwargs.get("op")
            return _STATE.get("active") == be and op is _STATE.get("ops")

        wrap.attach_dispatch(model, "NaturalJoinNode", wrap.contract(post=_post_for(be), name=CONTRACTS[be], when=when))

    def when_q(call):
        return _STATE.get("active") == "sqlite" and len(call.args) >= 2 and isinstance(call.args[1], str)

    def pre_q(call):
        return call.args[0].conn is not None

    wrap.attach(data_algebra.db_model.DBHandle, "read_query", wrap.contract(pre=pre_q, post=_post_for("sqlite"), name=CONTRACTS["sqlite"], when=when_q), factory=True)
    _ATTACHED = True


_PG_SQL: Dict[Tuple[str, str], Any] = {}


def pg_sql(jt: str, ks: str):
    if (jt, ks) not in _PG_SQL:
        import data_algebra.PostgreSQL

        try:
            _PG_SQL[(jt, ks)] = ("ok", data_algebra.PostgreSQL.PostgreSQLModel().to_sql(build_ops(jt, ks)))
        except Exception as e:
            _PG_SQL[(jt, ks)] = O.outcome_raise(e)
    return _PG_SQL[(jt, ks)]


def _run_backend(be: str, jt: str, ks: str, A, B, expected) -> Dict[str, Any]:
    """Evaluate one backend on one case under its contract -> {'status': ok|fail|raise|skipped, 'obs', 'detail'}"""
    ops = build_ops(jt, ks)
    a_cols, a_rows, a_schema = A
    b_cols, b_rows, b_schema = B
    _STATE.update({"active": be, "ops": ops, "expected": expected, "evaluated": None, "obs": None})
    try:
        if be in ("pandas", "polars"):
            kind = be
            tabs = {"a": O.frames(as_table(a_cols, a_rows), a_schema, kind), "b": O.frames(as_table(b_cols, b_rows), b_schema, kind)}
            out = C.run_pandas(ops, tabs) if be == "pandas" else C.run_polars(ops, tabs)
            if _STATE["evaluated"] != be:
                raise wrap.HarnessError("contract on %s was not evaluated" % CONTRACTS[be])
            obs = _STATE["obs"]
            # the join is the root of the pipeline: what eval returns is what the step returned
            if (out[0] == "ok") != (obs[0] == "ok") and not (out[0] == "raise" and obs[0] == "raise"):
                raise wrap.HarnessError("eval outcome differs from the step outcome: %r vs %r" % (out[0], obs[0]))
        elif be == "sqlite":
            ses = O.SqliteSession.get()
            s = ses.sql_for("%s/%s" % (jt, ks), ops)
            if s[0] != "ok":
                obs = s  # to_sql itself raised: read_query(ops) raises the same way for every input
            else:
                ses.load("a", O.frames(as_table(a_cols, a_rows), a_schema, "pandas"))
                ses.load("b", O.frames(as_table(b_cols, b_rows), b_schema, "pandas"))
                ses.read(s[1])
                if _STATE["evaluated"] != be:
                    raise wrap.HarnessError("contract on %s was not evaluated" % CONTRACTS[be])
                obs = _STATE["obs"]
        else:  # pgsql text on the sqlite3 surrogate (tables already loaded into OracleDB by the caller)
            s = pg_sql(jt, ks)
            if s[0] != "ok":
                obs = s
            else:
                obs = O.OracleDB.get().query(s[1])
                if obs[0] == "raise" and obs[1] == "OperationalError" and ("syntax error" in obs[2] or "near " in obs[2]):
                    return {"status": "skipped", "obs": obs, "detail": "sqlite3 cannot parse the PostgreSQL text: " + obs[2]}
                wrap.EVALS[CONTRACTS["pgsql"]] += 1
    finally:
        _STATE["active"] = None
    wrap.take_failures()
    if obs[0] != "ok":
        return {"status": "raise", "obs": obs, "detail": "%s: %s" % (obs[1], obs[2])}
    ok, why = C.frames_equiv((obs[1], obs[2]), expected)
    return {"status": "ok" if ok else "fail", "obs": obs, "detail": why}


# --------------------------------------------------------------------------------------------------
# classification of failures (narrow: the observed result must be EXACTLY what the known defect produces)
# --------------------------------------------------------------------------------------------------


def _null_key(ks: str, which: str, rows) -> bool:
    nk = KEYSPECS[ks]["nkeys"]
    return any(v is None for r in rows for v in r[:nk])


def classify(be: str, jt: str, ks: str, A, B, res, case) -> str:
    a_cols, a_rows, _ = A
    b_cols, b_rows, _ = B
    on = KEYSPECS[ks]["on"]
    obs = res["obs"]

    def produced_by(defect: str) -> bool:
        return obs[0] == "ok" and C.frames_equiv((obs[1], obs[2]), O.ref_join(a_cols, a_rows, b_cols, b_rows, on, jt, defect=defect))[0]

    if obs[0] == "raise":
        if be == "sqlite" and ks == "diff" and jt == "full" and obs[1] == "AssertionError":
            return "%s:SQLite.SQLiteModel._emit_full_join_as_complex:differently-named-keys" % PID
        if be == "sqlite" and ks == "diff" and jt == "right" and "no such column" in obs[2]:
            return "%s:SQLite.SQLiteModel._emit_right_join_as_left_join:differently-named-keys" % PID
        if be == "polars" and jt == "cross" and obs[1] == "ValueError" and "cross join should not pass join keys" in obs[2]:
            return "%s:polars_model.PolarsModel._natural_join_step:cross-join" % PID
        if be == "polars" and jt == "full" and ks == "diff" and obs[1] == "DuplicateError" and "column 'k2' is duplicate" in obs[2]:
            return "%s:polars_model.PolarsModel._natural_join_step:full-join-differently-named-keys" % PID
    else:
        if be == "pandas" and jt != "cross" and _null_key(ks, "a", a_rows) and _null_key(ks, "b", b_rows) and produced_by("null-match"):
            return "%s:pandas_base.PandasModelBase._natural_join_step:null-join-key" % PID
        if be == "pandas" and jt == "cross" and (not a_rows) != (not b_rows) and produced_by("cross-outer"):
            return "%s:pandas_base.PandasModelBase._natural_join_step:cross-join-with-empty-side" % PID
        if be == "sqlite" and jt == "full" and (_null_key(ks, "a", a_rows) or _null_key(ks, "b", b_rows)) and produced_by("full-emulation"):
            return "%s:SQLite.SQLiteModel._emit_full_join_as_complex:null-join-key" % PID
        if be == "polars" and jt == "full" and ks in ("same", "two") and produced_by("full-no-key-coalesce"):
            return "%s:polars_model.PolarsModel._natural_join_step:full-join-right-only-row" % PID
    return "%s:unclassified:%s" % (PID, C.case_hash(dict(case, backend=be)))


# --------------------------------------------------------------------------------------------------
# one case
# --------------------------------------------------------------------------------------------------


def eval_case(jt: str, ks: str, ra, rb, keep_obs: bool = False) -> Dict[str, Any]:
    """-> {'oracle': 'ok', 'backends': {backend: {'status', 'detail', 'key'?}}} ; raises HarnessError when the two
    oracles disagree."""
    _ensure_attached()
    A = side(ks, "a", ra)
    B = side(ks, "b", rb)
    on = KEYSPECS[ks]["on"]
    expected = O.ref_join(A[0], A[1], B[0], B[1], on, jt)
    odb = O.OracleDB.get()
    odb.load("a", A[0], A[1])
    odb.load("b", B[0], B[1])
    nat = odb.query(O.native_join_sql("a", A[0], "b", B[0], on, jt))
    if nat[0] != "ok":
        raise wrap.HarnessError("native oracle SQL failed: %r" % (nat,))
    ok, why = C.frames_equiv((nat[1], nat[2]), expected, check_column_order=True)
    if not ok:
        raise wrap.HarnessError("the two oracles disagree on %s %s a=%r b=%r: %s" % (jt, ks, A[1], B[1], why))
    case = {"jointype": jt, "keyspec": ks, "a": [list(r) for r in ra], "b": [list(r) for r in rb]}
    out = {}
    for be in BACKENDS:
        r = _run_backend(be, jt, ks, A, B, expected)
        e = {"status": r["status"], "detail": r["detail"][:300]}
        if keep_obs:
            e["obs"] = r["obs"]
        if r["status"] in ("fail", "raise"):
            e["key"] = classify(be, jt, ks, A, B, r, case)
        out[be] = e
    return {"backends": out, "case": case}


# --------------------------------------------------------------------------------------------------
# driver
# --------------------------------------------------------------------------------------------------


def pair_selected(ks: str, ia: int, ib: int, na: int, nb: int, sc: Dict[str, Any], seed: int, n_tab: int) -> bool:
    if ks == "two":
        # too large to enumerate: a deterministic, seed-rotated stride through the full pair space
        total = n_tab * n_tab
        stride = max(1, total // sc["two_pairs"])
        return ((ia * n_tab + ib) + seed) % stride == 0
    if na + nb <= sc["full_sum"]:
        return True
    return ((ia * 31 + ib) + seed) % sc["big_shard"] == 0


def _worker(job):
    jt, ks, ias, sc, seed = job["jt"], job["ks"], job["ias"], job["sc"], job["seed"]
    tabs = tables(ks, sc["max_rows"])
    results = []
    counts = collections.Counter()
    samples = []
    n_cases = 0
    for ia in ias:
        ra = tabs[ia]
        for ib, rb in enumerate(tabs):
            if not pair_selected(ks, ia, ib, len(ra), len(rb), sc, seed, len(tabs)):
                continue
            n_cases += 1
            try:
                r = eval_case(jt, ks, ra, rb)
            except Exception as e:
                import traceback

                results.append({"harness": "%s: %s | %s" % (type(e).__name__, e, traceback.format_exc()[-500:]), "ia": ia, "ib": ib})
                continue
            for be, e in r["backends"].items():
                counts[(be, e["status"])] += 1
                if e["status"] in ("fail", "raise"):
                    results.append({"be": be, "ia": ia, "ib": ib, "status": e["status"], "key": e["key"], "detail": e["detail"], "case": r["case"]})
            if len(samples) < 1 and ra and rb:
                samples.append({"join": describe(jt, ks), "a": r["case"]["a"], "b": r["case"]["b"], "status": {be: e["status"] for be, e in r["backends"].items()}})
    return {"jt": jt, "ks": ks, "n_cases": n_cases, "counts": {"%s:%s" % k: v for k, v in counts.items()}, "results": results, "samples": samples, "wrap": wrap.snapshot()}


def make_jobs(tier: str, seed: int):
    sc = scope(tier)
    jobs = []
    for jt, ks in COMBOS:
        n = len(tables(ks, sc["max_rows"]))
        per = max(1, n // 12)
        idx = list(range(n))
        for i in range(0, n, per):
            jobs.append({"jt": jt, "ks": ks, "ias": idx[i : i + per], "sc": sc, "seed": seed})
    return sc, jobs


def bounded(rep: Report, tier: str, seed: int) -> None:
    t0 = time.time()
    sc, jobs = make_jobs(tier, seed)
    # interleave combos so that the expensive ones are spread over the workers
    jobs.sort(key=lambda j: (j["ias"][0], j["jt"], j["ks"]))
    outs = O.run_parallel(_worker, jobs, chunksize=1)
    counts = collections.Counter()
    per_combo = collections.Counter()
    n_cases = 0
    for o in outs:
        wrap.merge(o["wrap"])
        n_cases += o["n_cases"]
        per_combo["%s/%s" % (o["jt"], o["ks"])] += o["n_cases"]
        for k, v in o["counts"].items():
            counts[k] += v
        for s in o["samples"]:
            rep.add_sample(s)
        for r in o["results"]:
            if "harness" in r:
                rep.errors.append("harness error on %s/%s tables #%d,#%d: %s" % (o["jt"], o["ks"], r["ia"], r["ib"], r["harness"]))
                continue
            what = "%s %s on %s with a=%r b=%r: %s" % (r["be"], "raised" if r["status"] == "raise" else "returned other rows than the SQL join", describe(o["jt"], o["ks"]), r["case"]["a"], r["case"]["b"], r["detail"][:300])
            rep.violations.append(Violation(key=r["key"], what=what, replay={"module": "cbc.c16", "case": dict(r["case"], backend=r["be"])}))
    # evidence: one case per (combo, table pair, backend); nontrivial iff the backend returned and was compared
    for k, v in counts.items():
        be, st = k.split(":")
        rep.evaluations += v
    rep.nontrivial_keys |= set(("n", i) for i in range(sum(v for k, v in counts.items() if k.split(":")[1] in ("ok", "fail"))))
    rep.violations.sort(key=lambda v: (len(v.replay["case"]["a"]) + len(v.replay["case"]["b"]), v.key, repr(v.replay["case"])))
    O.cap_unclassified(rep)
    wrap.require_evaluated(rep, [CONTRACTS[b] for b in BACKENDS])
    rep.extra["status_counts"] = dict(sorted(counts.items()))
    rep.extra["table_pairs_per_combo"] = dict(per_combo)
    rep.extra["table_pairs"] = n_cases
    rep.extra["contract_evaluations"] = dict(wrap.EVALS)
    rep.extra["scope"] = sc
    print("C16 bounded: %d table pairs x %d backends %s in %.1fs" % (n_cases, len(BACKENDS), dict(sorted(counts.items())), time.time() - t0), file=sys.stderr)


def replay_case(case: Dict[str, Any]) -> bool:
    """Re-run one stored case natively; print what was observed; True iff it still fails."""
    jt, ks = case["jointype"], case["keyspec"]
    ra = [tuple(r) for r in case["a"]]
    rb = [tuple(r) for r in case["b"]]
    A = side(ks, "a", ra)
    B = side(ks, "b", rb)
    print("pipeline:", describe(jt, ks))
    print("a columns %r rows %r" % (A[0], A[1]))
    print("b columns %r rows %r" % (B[0], B[1]))
    exp = O.ref_join(A[0], A[1], B[0], B[1], KEYSPECS[ks]["on"], jt)
    print("SQL join (reference + native sqlite3 oracle): columns %r rows %r" % (exp[0], sorted(exp[1], key=C.row_sort_key)))
    r = eval_case(jt, ks, ra, rb, keep_obs=True)
    bad = False
    for be, e in r["backends"].items():
        if case.get("backend") and be != case["backend"]:
            continue
        o = e["obs"]
        if o[0] == "ok":
            print("%s returned columns %r rows %r" % (be, o[1], sorted(o[2], key=C.row_sort_key)))
        else:
            print("%s raised %s: %s" % (be, o[1], o[2]))
        print("%s verdict: %s %s %s" % (be, e["status"], e.get("key", ""), e["detail"]))
        bad = bad or e["status"] in ("fail", "raise")
    return bad
