"""C19 (bounded): evaluation never modifies the caller's tables and is repeatable.

Contracts on the REAL entry points `ViewRepresentation.eval`, `.transform`, `.ex` and `.act_on`
(`df >> ops` dispatches to `ops.act_on(df)` through `ShiftPipeAction.__rrshift__`):

    post (I): every input frame the caller handed in is unchanged -- values, dtypes, column index and row
              index for Pandas (compared with a deep snapshot taken before the call, dtype- and NaN-aware);
              values and schema for Polars (eager frames; lazy frames are collected before and after);
    post (R): a second evaluation of the same call returns the same table (multiset of rows, and the same
              key sequence when the pipeline ends in order_rows).

Some inputs carry a non-default pandas index (string labels, duplicate labels, shuffled ints).
"""
from __future__ import annotations

import collections
import sys
import time
from typing import Any, Dict, List, Optional, Tuple

import pandas

from vlib.core import Report, Violation
from cbc import common as C
from cbc import wrap
from cbc.c18 import reindex, REINDEXINGS

PID = "C19"
BACKENDS = ("Pandas",)
ENTRY_POINTS = ("eval", "transform", "ex", "rshift")
NAMES = {
    "eval": "ViewRepresentation.eval",
    "transform": "ViewRepresentation.transform",
    "ex": "ViewRepresentation.ex",
    "rshift": "ViewRepresentation.act_on",
}

FUNCTIONS_UNDER_CONTRACT = [
    {"file": "data_algebra/view_representations.py", "function": "ViewRepresentation.eval"},
    {"file": "data_algebra/view_representations.py", "function": "ViewRepresentation.transform"},
    {"file": "data_algebra/view_representations.py", "function": "ViewRepresentation.ex"},
    {"file": "data_algebra/view_representations.py", "function": "ViewRepresentation.act_on"},
    {"file": "data_algebra/pandas_base.py", "function": "PandasModelBase._table_step"},
    {"file": "data_algebra/polars_model.py", "function": "PolarsModel._table_step"},
]

_STATE: Dict[str, Any] = {}
_ATTACHED = False


# --------------------------------------------------------------------------------------------------
# snapshots
# --------------------------------------------------------------------------------------------------


class Snapshot:
    """Deep snapshot of one caller-owned frame."""

    def __init__(self, frame):
        self.is_polars = C._is_polars(frame)
        if self.is_polars:
            self.lazy = not hasattr(frame, "rows")
            df = frame.collect() if self.lazy else frame
            self.copy = df.clone()
            self.schema = list(df.schema.items())
            self.rows = df.rows()
        else:
            self.copy = frame.copy(deep=True)
            self.dtypes = [str(t) for t in frame.dtypes]
            self.columns = list(frame.columns)
            self.columns_type = type(frame.columns).__name__
            self.index = list(frame.index)
            self.index_dtype = str(frame.index.dtype)
            self.index_type = type(frame.index).__name__
            self.index_name = frame.index.name
            self.cells = C.canon_rows(frame)[1]
            self.shape = tuple(frame.shape)

    def diff(self, frame) -> Optional[str]:
        """None if `frame` still equals the snapshot, else what changed."""
        if self.is_polars:
            df = frame.collect() if not hasattr(frame, "rows") else frame
            if list(df.schema.items()) != self.schema:
                return "polars schema changed: %r -> %r" % (self.schema, list(df.schema.items()))
            if not df.equals(self.copy, null_equal=True):
                return "polars values changed: %r -> %r" % (self.rows[:4], df.rows()[:4])
            return None
        if tuple(frame.shape) != self.shape:
            return "shape changed %r -> %r (columns %r -> %r)" % (self.shape, tuple(frame.shape), self.columns, list(frame.columns))
        if list(frame.columns) != self.columns or type(frame.columns).__name__ != self.columns_type:
            return "column index changed: %r -> %r" % (self.columns, list(frame.columns))
        if [str(t) for t in frame.dtypes] != self.dtypes:
            return "dtypes changed: %r -> %r" % (self.dtypes, [str(t) for t in frame.dtypes])
        if list(frame.index) != self.index or str(frame.index.dtype) != self.index_dtype or type(frame.index).__name__ != self.index_type or frame.index.name != self.index_name:
            return "row index changed: %r (%s) -> %r (%s)" % (self.index, self.index_type, list(frame.index), type(frame.index).__name__)
        if not frame.equals(self.copy):
            return "values changed: %r -> %r" % (self.cells[:4], C.canon_rows(frame)[1][:4])
        return None


# --------------------------------------------------------------------------------------------------
# contract
# --------------------------------------------------------------------------------------------------


def _ensure_attached():
    global _ATTACHED
    if _ATTACHED:
        return
    import data_algebra.view_representations as vr

    def when(call):
        return _STATE.get("active", False)

    def mk_post(entry):
        def post(call, outcome):
            _STATE.setdefault("seen", set()).add(entry)
            whys = []
            for nm, (frame, snap) in _STATE["inputs"].items():
                d = snap.diff(frame)
                if d is not None:
                    whys.append("input %s modified by %s: %s" % (nm, NAMES[entry], d))
            if whys:
                _STATE.setdefault("mutations", []).extend(whys)
                return "; ".join(whys)
            return None

        return post

    for entry, attr in (("eval", "eval"), ("transform", "transform"), ("ex", "ex"), ("rshift", "act_on")):
        wrap.attach(vr.ViewRepresentation, attr, wrap.contract(post=mk_post(entry), name=NAMES[entry], when=when), factory=True)
    _ATTACHED = True


def _inputs(spec, data, backend: str, index_kind: str):
    """Caller-owned frames for this case."""
    if backend == "pandas":
        frames = C.pandas_frames(spec, data)
        if index_kind != "default":
            frames = {t: reindex(f, index_kind) for t, f in frames.items()}
        return frames
    return C.polars_frames(spec, data, lazy=(backend == "polars-lazy"))


def _call(entry: str, spec, frames):
    """Perform the call through the public entry point; returns the raw result (may raise)."""
    import data_algebra

    if entry == "eval":
        return C.build(spec).eval(frames)
    if entry == "transform":
        return C.build(spec).transform(frames[spec["table"]])
    if entry == "rshift":
        return frames[spec["table"]] >> C.build(spec)
    if entry == "ex":
        ops = C.build(spec, leaf=lambda name, cols: data_algebra.data(**{name: frames[name]}))
        return ops.ex()
    raise ValueError(entry)


def _canon_result(res):
    try:
        if C._is_polars(res) and not hasattr(res, "rows"):
            res = res.collect()
        c, r = C.canon_rows(res)
        return ("ok", c, r)
    except Exception as e:
        return ("raise", type(e).__name__, str(e)[:200])


def _repeat_diff(r0, r1, order) -> Optional[str]:
    """None iff the second evaluation returned the same table as the first: same column list, same
    multiset of rows (positional, so it also works for results with duplicate column names) and, after
    a final order_rows, the same sequence of order keys.  With a limit only the keys are compared when
    the multisets differ (rows tied at the cut may be chosen differently)."""
    c0, c1 = [str(c) for c in r0[1]], [str(c) for c in r1[1]]
    if c0 != c1:
        # column ORDER is not defined by the library (except after select_columns): align by name when the
        # names are unique, otherwise the lists must agree
        if len(set(c0)) == len(c0) and sorted(c0) == sorted(c1):
            idx = [c1.index(c) for c in c0]
            r1 = (r1[0], list(r0[1]), [tuple(row[i] for i in idx) for row in r1[2]])
        else:
            return "repeat: columns of the second evaluation differ: %r vs %r" % (r0[1], r1[1])
    if len(r0[2]) != len(r1[2]):
        return "repeat: row count of the second evaluation differs: %d vs %d" % (len(r0[2]), len(r1[2]))
    same_rows = C._match_multisets(list(r0[2]), list(r1[2]), 1e-8, None) is None
    keys_ok = True
    if order is not None and all(list(r0[1]).count(c) == 1 for c in order["columns"]):
        k0 = C.key_sequence(r0[1], r0[2], order["columns"])
        k1 = C.key_sequence(r1[1], r1[2], order["columns"])
        keys_ok = [C.row_sort_key(k) for k in k0] == [C.row_sort_key(k) for k in k1]
    if not keys_ok:
        return "repeat: row order of the second evaluation differs"
    if not same_rows and not (order is not None and order.get("limit") is not None):
        return "repeat: second evaluation returned different rows: %r vs %r" % (sorted(r0[2], key=C.row_sort_key)[:4], sorted(r1[2], key=C.row_sort_key)[:4])
    return None


def eval_case(spec: Dict[str, Any], data: Dict[str, Any], index_kind: str = "default") -> Dict[str, Any]:
    _ensure_attached()
    import warnings

    single = len(C.spec_tables(spec)) == 1
    evals, fails = [], []
    # a pipeline whose result the semantics leave undetermined on this data (ties in a window ordering, a
    # mid-chain limit cutting through ties) may legitimately differ between two evaluations: only the
    # non-mutation half of the contract is checked for it
    skip, _info = C.data_preconditions(spec, C.PrefixCache(spec, data), backends=("pandas", "polars"))
    # (also omitted for inputs that violate convert_records' keying / complete-blocks requirement: what the
    # executors return for them depends on the -- unspecified -- row order of the intermediate table, see the
    # C08 finding blocks_to_rowrecs:block-key-values-missing-or-unknown-in-data)
    determined = skip is None
    order = C.last_order_step(spec)
    for backend in ("pandas", "polars", "polars-lazy"):
        for entry in ENTRY_POINTS:
            if entry in ("transform", "rshift") and not single:
                continue
            if entry == "ex" and backend == "polars-lazy":
                continue  # describe_table needs .shape: ex() is defined for eager frames only
            frames = _inputs(spec, data, backend, index_kind if backend == "pandas" else "default")
            results = []
            mutated: List[str] = []
            raised = None
            for rep_i in range(2):
                _STATE.clear()
                _STATE.update({"active": True, "inputs": {t: (f, Snapshot(f)) for t, f in frames.items()}})
                try:
                    with warnings.catch_warnings():
                        warnings.simplefilter("ignore")
                        res = _call(entry, spec, frames)
                    results.append(_canon_result(res))
                except wrap.HarnessError:
                    raise
                except Exception as e:
                    raised = "%s: %s" % (type(e).__name__, str(e)[:120])
                    results.append(("raise", type(e).__name__, str(e)[:120]))
                except BaseException as e:
                    if type(e).__name__ != "PanicException":
                        raise
                    raised = "PanicException"
                    results.append(("raise", "PanicException", ""))
                finally:
                    _STATE["active"] = False
                wrap.take_failures()
                if entry not in _STATE.get("seen", set()) and raised is None:
                    raise wrap.HarnessError("contract on %s not evaluated (backend %s)" % (NAMES[entry], backend))
                # the caller's frames must be unchanged even if the call raised
                for nm, (frame, snap) in _STATE["inputs"].items():
                    d = snap.diff(frame)
                    if d is not None:
                        mutated.append("input %s modified (%s, call %d): %s" % (nm, "raised" if raised else "returned", rep_i + 1, d))
            why = None
            if mutated:
                why = "mutation: " + "; ".join(sorted(set(mutated)))[:600]
            elif results[0][0] != results[1][0]:
                why = "repeat: first call %s, second call %s" % (results[0][:2], results[1][:2])
            elif results[0][0] == "ok" and determined:
                why = _repeat_diff(results[0], results[1], order)
            status = "fail" if why else ("raised" if results[0][0] == "raise" else ("ok" if determined else "ok-mutation-only"))
            evals.append((backend, entry, status))
            if why:
                f = {"backend": backend, "entry": entry, "detail": why}
                f["key"] = classify(spec, f)
                fails.append(f)
    return {"status": "fail" if fails else "ok", "evals": evals, "fails": fails}


def classify(spec, f) -> str:
    return "%s:unclassified:%s" % (PID, C.case_hash({"spec": spec, "backend": f["backend"], "entry": f["entry"], "kind": f["detail"][:30]}))


def _worker(job):
    pool = C.data_pool(*job["pool_args"])
    out = []
    for spec, di, index_kind in job["cases"]:
        data = pool[di]
        try:
            r = eval_case(spec, data, index_kind)
        except Exception as e:
            import traceback

            r = {"status": "harness-error", "evals": [], "fails": [], "detail": "%s: %s | %s" % (type(e).__name__, e, traceback.format_exc()[-700:])}
        r["ids"] = spec["meta"]["ids"]
        r["di"] = di
        r["index_kind"] = index_kind
        r["spec"] = spec if r["status"] in ("fail", "harness-error") else None
        out.append(r)
    return {"results": out, "wrap": wrap.snapshot()}


def scope(tier: str):
    if tier == "quick":
        return {"depths": [1, 2], "max_rows": 3, "cap": 40, "per_spec": {1: 4, 2: 1, 3: 0}}
    return {"depths": [1, 2, 3], "max_rows": 4, "cap": 64, "per_spec": {1: 8, 2: 3, 3: 1}}


INDEX_KINDS = ("default",) + REINDEXINGS


def make_cases(tier: str, seed: int):
    sc = scope(tier)
    n_pool = len(C.data_pool(sc["max_rows"], seed, sc["cap"]))
    cases = []
    idx = 0
    for depth in sc["depths"]:
        per = sc["per_spec"][depth]
        for spec in C.gen_pipelines(depth, tier, two_table=True, backends=BACKENDS):
            for j, di in enumerate(C.pick_data(n_pool, idx, per, seed)):
                cases.append((spec, di, INDEX_KINDS[(idx + j) % len(INDEX_KINDS)]))
            idx += 1
    return sc, cases


def bounded(rep: Report, tier: str, seed: int) -> None:
    t0 = time.time()
    sc, cases = make_cases(tier, seed)
    pool_args = (sc["max_rows"], seed, sc["cap"])
    jobs = [{"cases": sh, "pool_args": pool_args} for sh in C.shard(cases, C.n_workers() * 8) if sh]
    outs = C.run_parallel(_worker, jobs, chunksize=1)
    counts = collections.Counter()
    ecounts = collections.Counter()
    pool = C.data_pool(*pool_args)
    for o in outs:
        wrap.merge(o["wrap"])
        for r in o["results"]:
            counts[r["status"]] += 1
            if r["status"] == "harness-error":
                rep.errors.append("harness error on %s data#%d: %s" % (r["ids"], r["di"], r["detail"]))
                continue
            for be, entry, st in r["evals"]:
                ecounts["%s %s %s" % (be, entry, st)] += 1
                rep.case((tuple(r["ids"]), r["di"], be, entry), nontrivial=(st in ("ok", "fail", "ok-mutation-only")))
            if r["status"] == "ok":
                rep.add_sample({"pipeline": "+".join(r["ids"]), "data": r["di"], "index": r["index_kind"], "evaluations": len(r["evals"])})
            for f in r["fails"]:
                spec = r["spec"]
                data = {t: pool[r["di"]][t] for t in C.spec_tables(spec)}
                rep.violations.append(
                    Violation(
                        key=f["key"],
                        what="%s via %s (index %s): %s -- pipeline %s on %s" % (f["backend"], NAMES[f["entry"]], r["index_kind"], f["detail"][:300], C.describe(spec), _short(data)),
                        replay={"module": "cbc.c19", "case": {"spec": spec, "data": data, "index_kind": r["index_kind"]}},
                    )
                )
    C.sort_violations(rep)
    wrap.require_evaluated(rep, list(NAMES.values()))
    rep.extra["case_status_counts"] = dict(counts)
    rep.extra["evaluation_counts"] = dict(ecounts)
    rep.extra["contract_evaluations"] = dict(wrap.EVALS)
    print("C19 bounded: %d cases %s in %.1fs" % (len(cases), dict(counts), time.time() - t0), file=sys.stderr)
    print("C19 evaluations: %s" % dict(ecounts), file=sys.stderr)


def _short(data) -> str:
    return "; ".join("%s=%s" % (t, {c: v for c, v in tab.items()}) for t, tab in data.items())[:300]


def replay_case(case: Dict[str, Any]) -> bool:
    spec, data = case["spec"], case["data"]
    print("pipeline:", C.describe(spec))
    for t, tab in data.items():
        print("table %s: %r" % (t, tab))
    r = eval_case(spec, data, case.get("index_kind", "default"))
    for be, entry, st in r["evals"]:
        print("  %s %s: %s" % (be, NAMES[entry], st))
    for f in r["fails"]:
        print("FAIL %s %s [%s]: %s" % (f["backend"], NAMES[f["entry"]], f["key"], f["detail"][:600]))
    return r["status"] == "fail"
