"""C01 (bounded): SQLite SQL computes the same table as the Pandas executor.

Contract on the REAL `data_algebra.db_model.DBHandle.read_query` of a fresh in-memory SQLite handle:

    post(read_query(ops)) :=  frames_equiv(result, ops.eval(pandas tables))   [columns, multiset of rows,
                              and the row order of a final order_rows up to ties]

modulo exactly the documented destination conventions (integer `/`, `%`; sum/count family over a group
without non-null values), which are encoded as excluded cells / excluded cases -- see _compare().
"""
from __future__ import annotations

import collections
import sys
import time
from typing import Any, Dict, List, Optional, Tuple

from vlib.core import Report, Violation
from cbc import common as C
from cbc import wrap

PID = "C01"
BACKENDS = ("Pandas", "SQLiteModel")
CONTRACT_NAME = "DBHandle.read_query[SQLite]"
PAIR = ("pandas", "sqlite")

FUNCTIONS_UNDER_CONTRACT = [
    {"file": "data_algebra/db_model.py", "function": "DBHandle.read_query"},
    {"file": "data_algebra/sql_model.py", "function": "SQLModel.to_sql"},
    {"file": "data_algebra/view_representations.py", "function": "ViewRepresentation.eval"},
]

# --------------------------------------------------------------------------------------------------
# comparison (the postcondition)
# --------------------------------------------------------------------------------------------------


def _taints(spec) -> Dict[str, str]:
    return {c: tt[1] for c, tt in spec["meta"]["schema"].items()}


def _agg_zero_null(col, a, b) -> bool:
    """pandas 0 for a sum/count over nothing, SQL NULL: the documented convention (and only this)."""
    return b is None and isinstance(a, (int, float)) and not isinstance(a, bool) and float(a) == 0.0


def compare(spec, p_out, s_out, info, pc: Optional[C.PrefixCache]) -> Tuple[str, str]:
    """-> (status, detail); status in ok | convention-excluded | both-raise | fail:<kind>."""
    meta = spec["meta"]
    if p_out[0] == "raise" and s_out[0] == "raise":
        return "both-raise", "pandas %s / sqlite %s" % (p_out[1], s_out[1])
    if p_out[0] == "raise":
        return "fail:pandas-raises", "pandas raised %s: %s ; sqlite returned a table" % (p_out[1], p_out[2])
    if s_out[0] == "raise":
        return "fail:sqlite-raises", "sqlite raised %s: %s ; pandas returned a table" % (s_out[1], s_out[2])
    if meta["rows_div"]:
        return "convention-excluded", "integer / or % feeds a row-affecting position"
    affected = bool(info.get("agg_affected"))
    if meta["rows_agg"] and affected:
        return "convention-excluded", "sum/count over an all-null group feeds a row-affecting position"
    taints = _taints(spec)
    ignore = [c for c, t in taints.items() if t == "div" or (affected and t == "aggd")]
    agg0 = set(c for c, t in taints.items() if t == "agg0") if affected else set()
    extra = (lambda col, a, b: col in agg0 and _agg_zero_null(col, a, b)) if agg0 else None
    P = C.canon_rows(p_out[1])
    S = C.canon_rows(s_out[1])
    order = C.last_order_step(spec)
    if order is None:
        ok, why = C.frames_equiv(P, S, ignore_columns=ignore, extra_cell_equiv=extra)
        return ("ok", "") if ok else ("fail:rows", why)
    # final order_rows: same columns; same key sequence (ties free); same multiset, or with a limit two
    # valid first-n prefixes of the same order
    ocols = list(order["columns"])
    if set(P[0]) != set(S[0]) or len(set(S[0])) != len(S[0]):
        return "fail:rows", "column sets differ: %r vs %r" % (P[0], S[0])
    order_tainted = any(taints.get(c, "") == "div" or (affected and taints.get(c, "") in ("agg0", "aggd")) for c in ocols)
    ok, why = C.frames_equiv(P, S, ignore_columns=ignore, extra_cell_equiv=extra)
    if order_tainted:
        return ("ok", "") if ok else ("convention-excluded", "order key is a convention cell")
    kp = C.key_sequence(P[0], P[1], ocols)
    ks = C.key_sequence(S[0], S[1], ocols)
    same_keys = len(kp) == len(ks) and all(all(C.values_equiv(a, b) for a, b in zip(x, y)) for x, y in zip(kp, ks))
    if ok and same_keys:
        return "ok", ""
    if not same_keys and ok:
        return "fail:order", "same rows, different order: pandas keys %r sqlite keys %r (order_rows %r reverse %r)" % (kp, ks, ocols, order.get("reverse"))
    if order.get("limit") is not None and same_keys and pc is not None:
        # ties crossing the cut: accepted iff some back end's own input to the final step makes BOTH results
        # valid first-n prefixes (the choice among rows tied at the cut is free).  Convention cells are
        # neutralised first: ignored columns are dropped and, in the sum/count-family columns of an
        # affected case, 0 and null are identified (exactly the accepted difference, nothing more).
        n = len(spec["steps"]) - 1
        fp, fs = pc.rows(n, backend="pandas"), pc.rows(n, backend="sqlite")

        def norm(cols, rows):
            keep = [c for c in cols if c not in set(ignore)]
            idx = [list(cols).index(c) for c in keep]
            out = []
            for r in rows:
                out.append(tuple((None if (c in agg0 and isinstance(r[i], (int, float)) and not isinstance(r[i], bool) and float(r[i]) == 0.0) else r[i]) for c, i in zip(keep, idx)))
            return keep, out

        Pn, Sn = norm(*P), norm(*S)
        for full in (fp, fs):
            if full[0] != "ok":
                continue
            Fn = norm(full[1], full[2])
            okp, _ = C.check_order_limit(Pn[0], Pn[1], Fn[0], Fn[1], ocols, order.get("reverse") or [], order["limit"])
            oks, _ = C.check_order_limit(Sn[0], Sn[1], Fn[0], Fn[1], ocols, order.get("reverse") or [], order["limit"])
            if okp and oks:
                return "ok", "tie crossing the limit"
    return ("fail:order" if not same_keys else "fail:rows"), why + " | pandas keys %r sqlite keys %r" % (kp, ks)


# --------------------------------------------------------------------------------------------------
# one case
# --------------------------------------------------------------------------------------------------


def _attach_contract(state: Dict[str, Any]):
    import data_algebra.db_model
    import data_algebra.view_representations

    def when(call):
        return state.get("active", False) and len(call.args) >= 2 and isinstance(call.args[1], data_algebra.view_representations.ViewRepresentation)

    def pre(call):
        return call.args[0].conn is not None

    def post(call, outcome):
        if outcome.exception is not None:
            s_out = C._outcome_raise(outcome.exception)
        else:
            s_out = ("ok", outcome.value)
        state["active"] = False  # compare() may evaluate pipeline prefixes on a fresh handle
        status, detail = compare(state["spec"], state["p_out"], s_out, state["info"], state["pc"])
        state["status"] = status
        state["detail"] = detail
        state["s_out"] = s_out
        if status.startswith("fail"):
            return {"status": status, "detail": detail}
        return None

    w = wrap.contract(pre=pre, post=post, name=CONTRACT_NAME, when=when)
    wrap.attach(data_algebra.db_model.DBHandle, "read_query", w, factory=True)


_STATE: Dict[str, Any] = {}
_ATTACHED = False


def _ensure_attached():
    global _ATTACHED
    if not _ATTACHED:
        _attach_contract(_STATE)
        _ATTACHED = True


def eval_case(spec: Dict[str, Any], data: Dict[str, Any]) -> Dict[str, Any]:
    """Evaluate one (pipeline, data set) case under the contract.  Returns a plain dict:
    status: ok | convention-excluded | both-raise | catalog-excluded | skipped:<reason> | fail:<kind>."""
    _ensure_attached()
    ops = C.build(spec)
    sup, bad = C.catalog_supported(ops, BACKENDS)
    if not sup:
        return {"status": "catalog-excluded", "detail": repr(bad)}
    pc = C.PrefixCache(spec, data)
    skip, info = C.data_preconditions(spec, pc, backends=("pandas", "sqlite"))
    if skip is not None:
        return {"status": "skipped:" + skip, "detail": ""}
    frames = C.pandas_frames(spec, data)
    p_out = C.run_pandas(ops, frames)
    _STATE.clear()
    _STATE.update({"active": True, "spec": spec, "p_out": p_out, "info": info, "pc": pc})
    try:
        s_out = C.run_sqlite(ops, C.pandas_frames(spec, data), via_ops=True)
    finally:
        _STATE["active"] = False
    failures = wrap.take_failures()
    if "status" not in _STATE:
        raise wrap.HarnessError("the contract on DBHandle.read_query was not evaluated for this case")
    res = {"status": _STATE["status"], "detail": _STATE["detail"], "info": info}
    if res["status"].startswith("fail"):
        assert failures, "failure recorded by post() but missing from wrap.FAILURES"
        res["keys"] = classify(spec, data, res, p_out, _STATE["s_out"], pc, info)
    return res


# --------------------------------------------------------------------------------------------------
# classification of failures into stable finding keys
# --------------------------------------------------------------------------------------------------


def _canon_out(o):
    if o[0] == "ok":
        c, r = C.canon_rows(o[1])
        return ("ok", c, r)
    return o


def classify(spec, data, res, p_out, s_out, pc, info) -> List[str]:
    """Finding keys of a failing case: the 1-minimal set of known divergences (cbc.sem) that reproduces
    BOTH observed outcomes exactly; `unclassified:<hash>` when the model cannot reproduce them."""
    from cbc import sem

    affected = bool(info.get("agg_affected"))
    taints = _taints(spec)
    ignore = [c for c, t in taints.items() if t == "div" or (affected and t == "aggd")]
    agg0 = set(c for c, t in taints.items() if t == "agg0") if affected else set()
    # the model computes each back end's own convention value, so no extra cell equivalence is needed
    # when comparing a back end with its model; agg0 cells are compared exactly.
    outcomes = {"pandas": _canon_out(p_out), "sqlite": _canon_out(s_out)}
    universe, always_on = sem.flags_for_pair(PAIR)
    D = sem.explain(spec, data, outcomes, ignore=ignore, universe=universe, always_on=always_on)
    if D and (p_out[0] == "raise") != (s_out[0] == "raise"):
        # one side raises: the observable failure is the raise; attribute it to the divergences needed to
        # reproduce the raise (the other side must still be reproduced by the full model, checked above)
        side = "pandas" if p_out[0] == "raise" else "sqlite"
        D = sem.explain(spec, data, {side: outcomes[side]}, ignore=ignore, universe=universe, always_on=always_on)
    if not D:
        return ["%s:unclassified:%s" % (PID, C.case_hash({"spec": spec, "data": {t: data[t] for t in C.spec_tables(spec)}}))]
    return [sem.finding_key(PID, d, PAIR) for d in D]


# --------------------------------------------------------------------------------------------------
# driver
# --------------------------------------------------------------------------------------------------


def _worker(job):
    """job: {'cases': [(spec, data_index)], 'pool_args': (max_rows, seed, cap)}"""
    pool = C.data_pool(*job["pool_args"])
    out = []
    for spec, di in job["cases"]:
        data = pool[di]
        try:
            r = eval_case(spec, data)
        except Exception as e:  # harness problem: surfaces as a checker error
            import traceback

            r = {"status": "harness-error", "detail": "%s: %s | %s" % (type(e).__name__, e, traceback.format_exc()[-600:])}
        r["ids"] = spec["meta"]["ids"]
        r["di"] = di
        r["spec"] = spec if r["status"].startswith("fail") or r["status"] == "harness-error" else None
        out.append(r)
    return {"results": out, "wrap": wrap.snapshot()}


def scope(tier: str):
    if tier == "quick":
        return {"depths": [1, 2], "max_rows": 3, "cap": 40, "per_spec": 3, "depth3_per_spec": 0}
    return {"depths": [1, 2, 3], "max_rows": 4, "cap": 64, "per_spec": 8, "depth3_per_spec": 2}


def make_cases(tier: str, seed: int, backends=BACKENDS):
    sc = scope(tier)
    n_pool = len(C.data_pool(sc["max_rows"], seed, sc["cap"]))
    cases = []
    idx = 0
    for depth in sc["depths"]:
        per = sc["per_spec"] if depth < 3 else sc["depth3_per_spec"]
        for spec in C.gen_pipelines(depth, tier, two_table=True, backends=backends):
            for di in C.pick_data(n_pool, idx, per, seed):
                cases.append((spec, di))
            idx += 1
    return sc, cases


def bounded(rep: Report, tier: str, seed: int) -> None:
    t0 = time.time()
    sc, cases = make_cases(tier, seed)
    pool_args = (sc["max_rows"], seed, sc["cap"])
    nshards = C.n_workers() * 8
    jobs = [{"cases": sh, "pool_args": pool_args} for sh in C.shard(cases, nshards) if sh]
    outs = C.run_parallel(_worker, jobs, chunksize=1)
    counts = collections.Counter()
    pool = C.data_pool(*pool_args)
    for o in outs:
        wrap.merge(o["wrap"])
        for r in o["results"]:
            st = r["status"]
            counts[st.split(":")[0] if st.startswith("skipped") else st] += 1
            ck = (tuple(r["ids"]), r["di"])
            if st == "harness-error":
                rep.errors.append("harness error on %s data#%d: %s" % (r["ids"], r["di"], r["detail"]))
                continue
            rep.case(ck, nontrivial=(st == "ok" or st.startswith("fail")))
            if st == "ok":
                rep.add_sample({"pipeline": "+".join(r["ids"]), "data": r["di"], "status": st})
            if st.startswith("fail"):
                spec = r["spec"]
                data = {t: pool[r["di"]][t] for t in C.spec_tables(spec)}
                for key in r["keys"]:
                    rep.violations.append(
                        Violation(
                            key=key,
                            what="%s on %s with %s: %s" % (st, C.describe(spec), _short(data), r["detail"][:300]),
                            replay={"module": "cbc.c01", "case": {"spec": spec, "data": data}, "n_keys": len(r["keys"])},
                        )
                    )
    C.sort_violations(rep)
    wrap.require_evaluated(rep, [CONTRACT_NAME])
    rep.extra["status_counts"] = dict(counts)
    rep.extra["contract_evaluations"] = dict(wrap.EVALS)
    print("C01 bounded: %d cases %s in %.1fs" % (len(cases), dict(counts), time.time() - t0), file=sys.stderr)


def _short(data) -> str:
    return "; ".join("%s=%s" % (t, {c: v for c, v in tab.items()}) for t, tab in data.items())[:400]


def replay_case(case: Dict[str, Any]) -> bool:
    """Re-run one stored case natively; print what was observed; True iff it still fails."""
    spec, data = case["spec"], case["data"]
    if "meta" not in spec:
        spec = _with_meta(spec)
    print("pipeline:", C.describe(spec))
    for t, tab in data.items():
        print("table %s: %r" % (t, tab))
    ops = C.build(spec)
    p = C.run_pandas(ops, C.pandas_frames(spec, data))
    s = C.run_sqlite(ops, C.pandas_frames(spec, data), via_ops=True)
    for nm, o in (("pandas", p), ("sqlite", s)):
        if o[0] == "ok":
            print("%s returned columns %r rows %r" % ((nm,) + C.canon_rows(o[1])))
        else:
            print("%s raised %s: %s" % (nm, o[1], o[2]))
    r = eval_case(spec, data)
    print("verdict:", r["status"], r.get("keys", ""), r["detail"][:400])
    return r["status"].startswith("fail")


def _with_meta(spec):
    """Recompute the static analysis for a spec stored without it."""
    for s in C.gen_pipelines(len(spec["steps"]), "thorough", two_table=True, backends=BACKENDS, reduced=False):
        if s["steps"] == spec["steps"]:
            return s
    raise wrap.HarnessError("stored spec is not produced by the enumerator any more")
