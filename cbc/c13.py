"""C13 (bounded): expression text is parsed with Python's precedence and meaning.

Contract on the REAL parser `data_algebra.parse_by_lark.parse_by_lark` (and, for values, on the real
Pandas executor evaluating `TableDescription(...).extend({'r': text})`):

    for every generated text t (valid Python, operators + - * / // % ** unary-, comparisons, and/or/not):
      (structure)  dsl_shape(parse(t)) == python_shape(ast.parse(t))      [same tree, Python's grammar as oracle]
      (value)      for x, y in {-2,-1,1,2,0.5}:  executor value == Python's eval(t, {}, {x, y})
                   wherever Python and the DSL define the operators identically (else the cell is skipped and counted)
      (round trip) parse(print(parse(t))).is_equal(parse(t))  both ways, and identical structural dumps
"""
from __future__ import annotations

import collections
import json
import sys
import time
import traceback
from typing import Any, Dict, List, Optional, Tuple

from vlib.core import Report, Violation
from cbc import common as C
from cbc import oracles_c as O

PID = "C13"

FUNCTIONS_UNDER_CONTRACT = [
    {"file": "data_algebra/parse_by_lark.py", "function": "parse_by_lark"},
    {"file": "data_algebra/parse_by_lark.py", "function": "_walk_lark_tree"},
    {"file": "data_algebra/python3_lark.py", "function": "grammar"},
    {"file": "data_algebra/expr_rep.py", "function": "Expression.to_python"},
    {"file": "data_algebra/pandas_base.py", "function": "PandasModelBase._populate_impl_map"},
]

# --------------------------------------------------------------------------------------------------
# text generation
# --------------------------------------------------------------------------------------------------


def scope(tier: str) -> Dict[str, Any]:
    if tier == "quick":
        return {"max_ops": 3, "patterns_small": 2, "n4_shard": 0}
    return {"max_ops": 4, "patterns_small": 3, "n4_shard": 8}


def make_texts(tier: str, seed: int) -> List[Dict[str, Any]]:
    """[{"text", "n_ops", "style": minimal|full}] -- deterministic; duplicates removed"""
    sc = scope(tier)
    seen = set()
    out = []

    def add(text, n, style):
        if text in seen:
            return
        seen.add(text)
        out.append({"text": text, "n_ops": n, "style": style})

    idx = 0
    for n in range(0, 4):
        for tree in O.gen_trees(n):
            for p in range(sc["patterns_small"]):
                t = O.fill_leaves(tree, O.LEAF_PATTERNS[(idx + p) % len(O.LEAF_PATTERNS)])
                full = O.full_paren_text(t)
                add(O.minimal_paren_text(full), n, "minimal")
                if n > 0:
                    add(full if idx % 2 == 0 else "(" + full + ")", n, "full")
            idx += 1
    if sc["max_ops"] >= 4:
        k = sc["n4_shard"]
        for i, tree in enumerate(_gen_trees4()):
            if i % k != seed % k:
                continue
            t = O.fill_leaves(tree, O.LEAF_PATTERNS[i % len(O.LEAF_PATTERNS)])
            full = O.full_paren_text(t)
            add(O.minimal_paren_text(full), 4, "minimal")
            if (i // k) % 4 == 0:
                add(full, 4, "full")
    return out


def _gen_trees4():
    """trees with 4 operators, generated lazily (the full list is large)"""
    n = 4
    for t in O.gen_trees(3):
        yield ("neg", t)
        yield ("not", t)
    for i in range(n):
        for a in O.gen_trees(i):
            for b in O.gen_trees(n - 1 - i):
                for op in O.T_BIN:
                    yield ("bin", op, a, b)
    for i in range(n - 1):
        for j in range(n - 1 - i):
            k = n - 2 - i - j
            for a in O.gen_trees(i):
                for b in O.gen_trees(j):
                    for c in O.gen_trees(k):
                        for o1 in O.T_CMP:
                            for o2 in O.T_CMP:
                                yield ("chain", [o1, o2], [a, b, c])


# --------------------------------------------------------------------------------------------------
# one text
# --------------------------------------------------------------------------------------------------

_FRAMES = None


def _frames():
    """the 25 (x, y) cells grouped into frames with homogeneous dtypes (int64 / float64 columns), so
    that an int operand is an int in the executor exactly when it is an int for Python"""
    global _FRAMES
    if _FRAMES is None:
        import pandas

        groups = collections.OrderedDict()
        for x in O.XY_VALUES:
            for y in O.XY_VALUES:
                groups.setdefault((type(x).__name__, type(y).__name__), []).append((x, y))
        _FRAMES = [(cells, pandas.DataFrame({"x": [c[0] for c in cells], "y": [c[1] for c in cells]})) for cells in groups.values()]
    return _FRAMES


def _parse(text):
    import data_algebra.expr_rep as er
    import data_algebra.parse_by_lark as pl

    return pl.parse_by_lark(text, data_def={"x": er.ColumnReference("x"), "y": er.ColumnReference("y")})


def _executor_values(text, want=None) -> Tuple[Optional[str], Dict[Tuple[Any, Any], Any]]:
    """-> (build error or None, {(x, y): ("ok", value) | ("raise", type, msg)}); frames none of whose
    cells is in `want` (cells Python defines identically) are not evaluated"""
    import pandas
    from data_algebra import TableDescription

    try:
        ops = TableDescription(table_name="d", column_names=["x", "y"]).extend({"r": text})
    except Exception as e:
        return "%s: %s" % (type(e).__name__, str(e)[:200]), {}
    out: Dict[Tuple[Any, Any], Any] = {}
    for cells, frame in _frames():
        if want is not None and not any(c in want for c in cells):
            continue
        r = C.run_pandas(ops, {"d": frame.copy()})
        if r[0] == "ok" and r[1].shape[0] == len(cells) and "r" in r[1].columns:
            vals = [C.canon_value(v) for v in r[1]["r"].tolist()]
            for c, v in zip(cells, vals):
                out[c] = ("ok", v)
            continue
        for c in cells:  # the frame as a whole raised (or changed shape): one-row frames
            if want is not None and c not in want:
                continue
            r1 = C.run_pandas(ops, {"d": pandas.DataFrame({"x": [c[0]], "y": [c[1]]})})
            if r1[0] == "ok" and r1[1].shape[0] == 1 and "r" in r1[1].columns:
                out[c] = ("ok", C.canon_value(r1[1]["r"].tolist()[0]))
            elif r1[0] == "ok":
                out[c] = ("raise", "shape", "result has %d rows, columns %r" % (r1[1].shape[0], list(r1[1].columns)))
            else:
                out[c] = ("raise", r1[1], r1[2])
    return None, out


def check_text(text: str) -> Dict[str, Any]:
    res: Dict[str, Any] = {"text": text, "fails": [], "cells": 0, "skips": collections.Counter()}
    want_shape = O.python_shape(text)
    # ---- structure
    try:
        term = _parse(text)
    except Exception as e:
        # not a text of the ACCEPTED grammar (e.g. `not 2`: the DSL's type check refuses number == False)
        res["rejected"] = "%s: %s" % (type(e).__name__, str(e)[:160])
        res["skips"] = {}
        res["status"] = "rejected"
        return res
    got_shape = None
    if term is not None:
        got_shape = O.dsl_shape(term)
        if got_shape != want_shape:
            res["fails"].append(["structure", "Python reads %s, the DSL parser built %s" % (O.short(want_shape, 200), O.short(got_shape, 200))])
        # ---- round trip
        rt = O.reparse_term(term, ["x", "y"])
        if rt[0] == "raise":
            res["fails"].append(["roundtrip", "printed %r does not parse: %s: %s" % (str(term.to_python()), rt[1], rt[2])])
        else:
            t2 = rt[1]
            eq = bool(t2.is_equal(term)) and bool(term.is_equal(t2))
            same = O.term_dump(t2) == O.term_dump(term)
            if not (eq and same):
                res["fails"].append(["roundtrip", "parse(print(t)) %s t: printed %r parses back as %r" % ("is not is_equal to" if not eq else "is is_equal to but structurally differs from", rt[2], str(t2.to_python()))])
    # ---- values
    pvals: Dict[Tuple[Any, Any], Any] = {}
    for x in O.XY_VALUES:
        for y in O.XY_VALUES:
            try:
                pv = O.python_value(text, {"x": x, "y": y})
            except O.Skip as s:
                res["skips"][str(s)] += 1
                continue
            ev = eval(text, {"__builtins__": {}}, {"x": x, "y": y})  # Python's own verdict
            if type(ev) is not type(pv) or not (ev == pv):
                raise AssertionError("harness: python_value %r != eval %r for %r at x=%r y=%r" % (pv, ev, text, x, y))
            pvals[(x, y)] = pv
    err, vals = _executor_values(text, set(pvals.keys()))
    if err is not None:  # the parser accepted the text but extend() refuses it
        res["fails"].append(["extend-rejects", "parse_by_lark accepts the text but extend({'r': text}) raises " + err])
    else:
        bad = []
        for (x, y), pv in pvals.items():
            got = vals[(x, y)]
            res["cells"] += 1
            if got[0] != "ok":
                bad.append("x=%r y=%r: Python gives %r, the executor raises %s: %s" % (x, y, pv, got[1], got[2][:80]))
            elif isinstance(pv, bool) != isinstance(got[1], bool) or not C.values_equiv(pv, got[1]):
                bad.append("x=%r y=%r: Python gives %r, the executor %r" % (x, y, pv, got[1]))
        if bad:
            res["fails"].append(["value", "%d of %d cells differ, e.g. %s" % (len(bad), res["cells"], "; ".join(bad[:2]))])
    res["skips"] = dict(res["skips"])
    res["status"] = "fail" if res["fails"] else "ok"
    if res["fails"]:
        res["keys"] = classify(text, term, want_shape, got_shape, res["fails"])
    return res


# --------------------------------------------------------------------------------------------------
# classification
# --------------------------------------------------------------------------------------------------


def classify(text, term, want_shape, got_shape, fails) -> Dict[str, List[str]]:
    keys: Dict[str, List[str]] = collections.OrderedDict()
    kinds = [k for k, _ in fails]
    det = {k: d for k, d in fails}
    # comparison chains: a < b < c is built as (a < b) < c -- exactly that and nothing else
    chain = got_shape is not None and O.has_chain(want_shape) and got_shape == O.unchain(want_shape)
    shapes = O.minimal_unfaithful_subterms(term, ["x", "y"]) if term is not None else []
    for k in kinds:
        if k in ("structure", "value") and chain and "structure" in kinds:
            # a value difference is a consequence of the chain reading (the tree differs exactly by that reading)
            msg = (det["value"] + " | " if "value" in det else "") + det["structure"]
            keys.setdefault("%s:parse_by_lark._walk_lark_tree:comparison-chain-read-as-nested-comparison" % PID, [msg])
        elif k == "roundtrip" and shapes:
            for shape, d in shapes:
                st = O.print_shape_trigger(shape)
                if st is None:
                    keys.setdefault("%s:unclassified:%s" % (PID, O.uhash(["shape", shape])), []).append("unfaithful sub-term %s: %s" % (shape, d))
                else:
                    keys.setdefault("%s:%s:%s" % (PID, st[0], st[1]), []).append("%s: %s" % (shape, d))
        else:
            keys.setdefault("%s:unclassified:%s" % (PID, O.uhash([k, _signature(want_shape, got_shape)])), []).append(det[k])
    return keys


def _signature(want, got) -> str:
    """operator skeleton of the first differing sub-shape (groups equal bugs under one hash)"""

    def skel(s, d=0):
        if not isinstance(s, tuple) or not s:
            return "?"
        if s[0] in ("v", "c"):
            return s[0]
        if d >= 2:
            return s[0]
        if s[0] == "chain":
            return "chain(" + ",".join(skel(a, d + 1) for a in s[2]) + ")"
        return s[0] + "(" + ",".join(skel(a, d + 1) for a in s[1:]) + ")"

    def first_diff(a, b):
        if a == b:
            return None
        if not (isinstance(a, tuple) and isinstance(b, tuple)) or not a or not b or a[0] != b[0] or len(a) != len(b) or a[0] in ("v", "c", "chain"):
            return (a, b)
        for x, y in zip(a[1:], b[1:]):
            d = first_diff(x, y)
            if d is not None:
                return d
        return (a, b)

    if got is None:
        return "no-parse:" + skel(want)
    d = first_diff(want, got)
    if d is None:
        return "same:" + skel(want)
    return skel(d[0]) + "|" + skel(d[1])


# --------------------------------------------------------------------------------------------------
# driver
# --------------------------------------------------------------------------------------------------


def _worker(job):
    out = []
    for item in job:
        try:
            r = check_text(item["text"])
        except Exception as e:
            r = {"text": item["text"], "status": "harness-error", "detail": "%s: %s | %s" % (type(e).__name__, e, traceback.format_exc()[-500:])}
        r["n_ops"] = item["n_ops"]
        r["style"] = item["style"]
        out.append(r)
    return out


# --------------------------------------------------------------------------------------------------
# method calls on operator expressions: attribute / call bind tighter than unary minus and the binary operators
# (Python's own eval cannot run `.abs()` on a float, so the meaning is given as a Python function)
# --------------------------------------------------------------------------------------------------
def _sgn(v):
    return (v > 0) - (v < 0)


METHOD_TEXTS = [
    ("(-x).abs()", lambda x, y: abs(-x)), ("-x.abs()", lambda x, y: -abs(x)), ("-(x.abs())", lambda x, y: -abs(x)),
    ("(x + y).abs()", lambda x, y: abs(x + y)), ("x + y.abs()", lambda x, y: x + abs(y)), ("(x - y).abs() * 2", lambda x, y: abs(x - y) * 2),
    ("(-(x + y)).abs()", lambda x, y: abs(-(x + y))), ("-(x - y).abs()", lambda x, y: -abs(x - y)), ("(-x).abs() - (-y).abs()", lambda x, y: abs(-x) - abs(-y)),
    ("(x * -y).abs()", lambda x, y: abs(x * -y)), ("(-x).sign()", lambda x, y: _sgn(-x)), ("-x.sign()", lambda x, y: -_sgn(x)),
    ("(-(-x)).abs()", lambda x, y: abs(x)), ("(x - y).sign() * (y - x).sign()", lambda x, y: _sgn(x - y) * _sgn(y - x)), ("-x.abs() + y", lambda x, y: -abs(x) + y),
]


def check_method_text(text: str, fn) -> Dict[str, Any]:
    res: Dict[str, Any] = {"text": text, "fails": [], "cells": 0}
    try:
        term = _parse(text)
    except Exception as e:
        res["fails"].append(["parse", "%s: %s" % (type(e).__name__, str(e)[:160])])
        return res
    rt = O.reparse_term(term, ["x", "y"])
    if rt[0] == "raise":
        res["fails"].append(["roundtrip", "printed %r does not parse: %s: %s" % (str(term.to_python()), rt[1], rt[2])])
    else:
        t2 = rt[1]
        if not (bool(t2.is_equal(term)) and bool(term.is_equal(t2)) and O.term_dump(t2) == O.term_dump(term)):
            res["fails"].append(["roundtrip", "printed %r parses back as a different expression %r" % (rt[2], str(t2.to_python()))])
    for label, txt in (("text", text), ("printed text", str(term.to_python()))):
        err, vals = _executor_values(txt)
        if err is not None:
            res["fails"].append(["value", "%s %r is refused by extend: %s" % (label, txt, err)])
            continue
        bad = []
        for (x, y), got in vals.items():
            want = fn(x, y)
            res["cells"] += 1
            if got[0] != "ok" or not C.values_equiv(want, got[1]):
                bad.append("x=%r y=%r: meaning %r, executor %r" % (x, y, want, got[1] if got[0] == "ok" else got))
        if bad:
            res["fails"].append(["value", "%s %r: %d cells differ, e.g. %s" % (label, txt, len(bad), bad[0])])
    return res


def bounded(rep: Report, tier: str, seed: int) -> None:
    t0 = time.time()
    n_method_cells = 0
    for (mt, fn) in METHOD_TEXTS:
        try:
            r = check_method_text(mt, fn)
        except Exception as e:
            rep.errors.append("harness error on method text %r: %s" % (mt, traceback.format_exc()[-300:]))
            continue
        n_method_cells += r["cells"]
        rep.case("method:" + mt, nontrivial=r["cells"] > 0)
        for (k, d) in r["fails"]:
            rep.violations.append(Violation(key="%s:unclassified:%s" % (PID, O.uhash(["method-text", mt, k])), what="text %r: %s" % (mt, d[:400]),
                                            replay={"module": "cbc.c13", "case": {"text": mt, "method_text": True}, "n_keys": 1, "n_ops": 0}))
    rep.extra["method_call_texts"] = {"texts": len(METHOD_TEXTS), "value_cells": n_method_cells}
    texts = make_texts(tier, seed)
    t1 = time.time()
    outs = O.pool_map(_worker, O.shards(texts, 8))
    counts = collections.Counter()
    skips = collections.Counter()
    cells = 0
    by_n = collections.Counter()
    rejected = collections.Counter()
    rejected_ex: List[Any] = []
    for o in outs:
        for r in o:
            st = r["status"]
            counts[st] += 1
            if st == "harness-error":
                rep.errors.append("harness error on %r: %s" % (r["text"], r["detail"]))
                continue
            by_n["%d-ops/%s" % (r["n_ops"], r["style"])] += 1
            cells += r.get("cells", 0)
            for k, v in r["skips"].items():
                skips[k] += v
            # nontrivial: parsed by both grammars, trees compared and at least one value cell compared
            if st == "rejected":
                rep.case(r["text"], nontrivial=False)
                rejected[r["rejected"].split(":")[0] + ": " + " ".join(r["rejected"].split(":")[1:]).split("values")[0].strip()[:60]] += 1
                if len(rejected_ex) < 8:
                    rejected_ex.append([r["text"], r["rejected"]])
                continue
            rep.case(r["text"], nontrivial=(r["cells"] > 0))
            if st == "ok" and r["cells"] > 0:
                rep.add_sample({"text": r["text"], "cells_compared": r["cells"], "cells_skipped": sum(r["skips"].values())})
            if st == "fail":
                for key, dets in r["keys"].items():
                    rep.violations.append(
                        Violation(
                            key=key,
                            what="text %r: %s" % (r["text"], O.short(dets[0], 420)),
                            replay={"module": "cbc.c13", "case": {"text": r["text"]}, "n_keys": len(r["keys"]), "n_ops": r["n_ops"]},
                        )
                    )
    rep.violations.sort(key=lambda v: (v.replay.get("n_keys", 1), v.replay.get("n_ops", 9), 0 if "cells differ" in v.what else 1, len(v.what), v.key, v.what))
    rep.extra["status_counts"] = dict(counts)
    rep.extra["texts_by_size"] = dict(by_n)
    rep.extra["texts_rejected_by_the_dsl_not_in_accepted_grammar"] = {"by_reason": dict(rejected), "examples": rejected_ex}
    rep.extra["value_cells_compared"] = cells
    rep.extra["value_cells_skipped"] = dict(skips)
    rep.extra["failing_texts_by_key"] = dict(collections.Counter(v.key for v in rep.violations))
    print("C13 bounded: %d texts (generated in %.1fs) %s, %d value cells compared, skipped %s, in %.1fs" % (len(texts), t1 - t0, dict(counts), cells, dict(skips), time.time() - t0), file=sys.stderr)


def replay_case(case: Dict[str, Any]) -> bool:
    """Re-run one stored text natively; print what was observed; True iff it still fails."""
    text = case["text"]
    if case.get("method_text"):
        fn = dict(METHOD_TEXTS)[text]
        r = check_method_text(text, fn)
        print("text:", repr(text), "->", r["fails"] or "ok")
        return bool(r["fails"])
    print("text:", repr(text))
    print("Python reads it as :", O.python_shape(text))
    try:
        term = _parse(text)
        print("the DSL parser built:", O.dsl_shape(term), "| printed:", repr(str(term.to_python())))
    except Exception as e:
        print("parse_by_lark raises %s: %s" % (type(e).__name__, e))
    r = check_text(text)
    err, vals = _executor_values(text)
    shown = 0
    for (x, y), v in vals.items():
        try:
            pv = O.python_value(text, {"x": x, "y": y})
        except O.Skip:
            continue
        if v[0] != "ok" or isinstance(pv, bool) != isinstance(v[1], bool) or not C.values_equiv(pv, v[1]):
            print("x=%r y=%r: Python eval gives %r, the Pandas executor %r" % (x, y, pv, v[1] if v[0] == "ok" else v))
            shown += 1
            if shown >= 3:
                break
    for k, d in r["fails"]:
        print("FAIL %s: %s" % (k, d))
    print("verdict:", r["status"], list(r.get("keys", {}).keys()), "| cells compared %d, skipped %s" % (r["cells"], r["skips"]))
    return r["status"] == "fail"
