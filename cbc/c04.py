"""C04 (bounded): SQL formatting and optimization options never change query results.

Contract on the REAL `model.to_sql(ops, sql_format_options=...)`:

    for every pipeline, every combination of  use_with, use_cte_elim, annotate, initial_commas in {True, False},
    sql_indent in {" ", "\\t", "    "}  and  model.allow_extend_merges in {True, False}  (SQLiteModel, 96 variants):
        post:  sqlite3(to_sql(ops, variant)) == sqlite3(to_sql(ops, default options))          [same table]
    and for PostgreSQLModel text with use_cte_elim in {True, False}, executed on sqlite3 as a surrogate
    (texts sqlite3 cannot run are counted and skipped, never passed).

Pipelines: the shared operator corpus plus DAGs that use one sub-pipeline twice (same object), one use going
through a mergeable extend.
"""
from __future__ import annotations

import collections
import itertools
import json
import sys
import time
import traceback
from typing import Any, Dict, List, Optional, Tuple

from vlib.core import Report, Violation
from cbc import common as C
from cbc import oracles_c as O

PID = "C04"
BACKENDS = ("Pandas", "SQLiteModel")
INDENTS = [" ", "\t", "    "]

FUNCTIONS_UNDER_CONTRACT = [
    {"file": "data_algebra/sql_model.py", "function": "SQLModel.to_sql"},
    {"file": "data_algebra/sql_model.py", "function": "SQLModel.extend_to_near_sql"},
    {"file": "data_algebra/near_sql.py", "function": "NearSQL.to_with_form"},
    {"file": "data_algebra/near_sql.py", "function": "NearSQL*.to_sql_str_list"},
    {"file": "data_algebra/sql_model.py", "function": "SQLModel.nearsqlunary_to_sql_str_list_"},
    {"file": "data_algebra/sql_format_options.py", "function": "SQLFormatOptions"},
]


def variants() -> List[Dict[str, Any]]:
    out = []
    for use_with, use_cte_elim, annotate, initial_commas in itertools.product([True, False], repeat=4):
        for indent in INDENTS:
            for merges in (True, False):
                out.append({"use_with": use_with, "use_cte_elim": use_cte_elim, "annotate": annotate, "initial_commas": initial_commas, "sql_indent": indent, "allow_extend_merges": merges})
    return out


DEFAULT = {"use_with": True, "use_cte_elim": False, "annotate": True, "initial_commas": False, "sql_indent": " ", "allow_extend_merges": True}


def vname(v: Dict[str, Any]) -> str:
    return ",".join("%s=%s" % (k, ("%r" % v[k]) if k == "sql_indent" else v[k]) for k in ("use_with", "use_cte_elim", "annotate", "initial_commas", "sql_indent", "allow_extend_merges") if v[k] != DEFAULT[k]) or "default"


# --------------------------------------------------------------------------------------------------
# pipelines
# --------------------------------------------------------------------------------------------------

D_COLS = list(C.SCHEMAS["d"].keys())

PREFIXES = collections.OrderedDict(
    [
        ("table", []),
        ("extend", [["extend", {"ops": {"n1": "x + y"}}]]),
        ("select_rows", [["select_rows", {"expr": "x > 0"}]]),
        ("extend-overwrite", [["extend", {"ops": {"x": "x * 2"}}]]),
        ("project", [["project", {"ops": {"n1": "x.sum()"}, "group_by": ["g", "k"]}]]),
        ("window", [["extend", {"ops": {"n1": "x.sum()"}, "partition_by": ["g"]}]]),
    ]
)
EXT = collections.OrderedDict(
    [
        ("id", []),
        ("ext-a", [["extend", {"ops": {"m1": "k + 1"}}]]),  # mergeable with an extend below / above it
        ("ext-b", [["extend", {"ops": {"m1": "k * 2"}}]]),  # same column, other formula
        ("ext-c", [["extend", {"ops": {"m2": "k - 1"}}]]),
        ("ext-chain", [["extend", {"ops": {"m2": "k + 1"}}], ["extend", {"ops": {"m3": "m2 * 2"}}]]),
        ("sel", [["select_rows", {"expr": "k > 0"}]]),
    ]
)
JOIN_PAIRS = [("id", "ext-a"), ("ext-a", "id"), ("ext-a", "ext-c"), ("ext-a", "ext-chain"), ("ext-chain", "ext-a"), ("sel", "ext-a"), ("ext-a", "sel"), ("ext-a", "ext-a")]
CONCAT_PAIRS = [("id", "id"), ("ext-a", "ext-b"), ("ext-b", "ext-a"), ("sel", "id"), ("ext-a", "ext-a")]
POSTS = collections.OrderedDict([("none", []), ("ext-top", [["extend", {"ops": {"p1": "k + 2"}}]])])


def dag_cases(tier: str) -> List[Dict[str, Any]]:
    out = []
    jts = ["inner", "left"] if tier == "quick" else ["inner", "left", "full"]
    for pn in PREFIXES:
        for post in POSTS:
            for l, r in JOIN_PAIRS:
                for jt in jts:
                    out.append({"kind": "dag", "id": "dag:%s|join-%s(%s,%s)|%s" % (pn, jt, l, r, post), "prefix": pn, "left": l, "right": r, "combine": ["join", jt], "post": post})
            for l, r in CONCAT_PAIRS:
                for idc in (None, "src"):
                    out.append({"kind": "dag", "id": "dag:%s|concat-%s(%s,%s)|%s" % (pn, idc, l, r, post), "prefix": pn, "left": l, "right": r, "combine": ["concat", idc], "post": post})
    return out


#: a window whose partition_by / order_by column is created or overwritten by the IMMEDIATELY PRECEDING extend: the SQL
#: extend-merge must not fold the windowed extend into that extend (merge on / off must agree)
def struct_cases() -> List[Dict[str, Any]]:
    out = []
    firsts = [
        ("new-p-int", {"p": "k % 2"}, "p"),
        ("new-p-cmp", {"p": "(x > 0).if_else(1, 0)"}, "p"),
        ("new-p-sum", {"p": "k + 1", "q": "x * 2"}, "p"),
        ("overwrite-k", {"k": "k % 2"}, "k"),
        ("overwrite-g", {"g": "g.coalesce('a')"}, "g"),
        ("overwrite-y", {"y": "y * -1"}, "y"),
    ]
    for fname, first, p in firsts:
        seconds = [
            ("sum-partition-p", {"ops": {"s": "x.sum()"}, "partition_by": [p]}),
            ("max-count-partition-p", {"ops": {"s": "x.max()", "n": "x.count()"}, "partition_by": [p]}),
            ("cumsum-order-p", {"ops": {"c": "x.cumsum()"}, "partition_by": ["g"] if p != "g" else ["k"], "order_by": [p]}),
            ("cumsum-order-p-reverse", {"ops": {"c": "x.cumsum()"}, "partition_by": 1, "order_by": [p], "reverse": [p]}),
            ("sum-partition-g-p", {"ops": {"s": "x.sum()"}, "partition_by": (["g", p] if p != "g" else ["k", p])}),
        ]
        for sname, second in seconds:
            for pre in ([], [["select_rows", {"expr": "k >= 0"}]]):
                for post in ([], [["extend", {"ops": {"z1": "k + 2"}}]]):
                    if pre and post:
                        continue
                    steps = list(pre) + [["extend", {"ops": dict(first)}], ["extend", dict(second)]] + list(post)
                    out.append({"kind": "struct", "id": "struct:%s|%s|pre%d|post%d" % (fname, sname, len(pre), len(post)), "spec": {"table": "d", "cols": D_COLS, "steps": steps}})
    return out


def build_case(case):
    if case["kind"] == "corpus":
        return C.build(case["cspec"])
    if case["kind"] == "struct":
        return O.build_pipe(case["spec"])
    from data_algebra import TableDescription

    d = TableDescription(table_name="d", column_names=D_COLS)
    P = O.apply_steps(d, PREFIXES[case["prefix"]])  # ONE object, used twice
    L = O.apply_steps(P, EXT[case["left"]])
    R = O.apply_steps(P, EXT[case["right"]])
    if case["combine"][0] == "join":
        ops = L.natural_join(R, on=["g", "k"], jointype=case["combine"][1])
    else:
        ops = L.concat_rows(R, id_column=case["combine"][1], a_name="a", b_name="b")
    return O.apply_steps(ops, POSTS[case["post"]])


def describe_case(case) -> str:
    if case["kind"] == "corpus":
        return C.describe(case["cspec"])
    if case["kind"] == "struct":
        return O.describe_pipe(case["spec"])
    P = "d" + "".join(".%s(%s)" % (op, json.dumps(p)) for op, p in PREFIXES[case["prefix"]])
    f = lambda nm: "P" + "".join(".%s(%s)" % (op, json.dumps(p)) for op, p in EXT[nm])  # noqa: E731
    comb = ".natural_join(%s, on=['g','k'], jointype=%r)" % (f(case["right"]), case["combine"][1]) if case["combine"][0] == "join" else ".concat_rows(%s, id_column=%r)" % (f(case["right"]), case["combine"][1])
    return "P = %s; %s%s%s" % (P, f(case["left"]), comb, "".join(".%s(%s)" % (op, json.dumps(p)) for op, p in POSTS[case["post"]]))


def make_cases(tier: str, seed: int) -> List[Dict[str, Any]]:
    out = []
    grids = [(1, False), (2, True)] if tier == "quick" else [(1, False), (2, True), (2, False)]
    seen_ids = set()
    for depth, reduced in grids:
        for i, spec in enumerate(C.gen_pipelines(depth, tier, two_table=True, backends=BACKENDS, reduced=reduced)):
            cid = "corpus:" + "+".join(spec["meta"]["ids"])
            if cid in seen_ids:
                continue
            if depth == 2 and not reduced and i % 2 != seed % 2:
                continue  # thorough: the full depth-2 grid in two halves (rotated by the seed); the reduced grid always
            seen_ids.add(cid)
            out.append({"kind": "corpus", "id": cid, "cspec": {"table": spec["table"], "steps": spec["steps"]}})
    have = set(c["id"] for c in out)

    def add(spec):
        cid = "corpus:" + "+".join(spec["meta"]["ids"])
        if cid not in have:
            have.add(cid)
            out.append({"kind": "corpus", "id": cid, "cspec": {"table": spec["table"], "steps": spec["steps"]}})

    # always included, whatever tier and seed (keeps the set of finding keys independent of the shard):
    # ordered / limited operands of concat_rows, and extend -> column trimming -> extend chains
    for spec in C.gen_pipelines(2, tier, two_table=True, backends=BACKENDS, reduced=False):
        ops2 = [s[0] for s in spec["steps"]]
        if ops2 == ["order_rows", "concat_rows"]:
            add(spec)
    for spec in C.gen_pipelines(3, tier, two_table=True, backends=BACKENDS, reduced=True):
        (o1, p1), (o2, _), (o3, p3) = spec["steps"]
        if o1 == "extend" and (p1.get("partition_by") or p1.get("order_by")) and o2 in ("drop_columns", "select_columns") and o3 == "extend" and not (p3.get("partition_by") or p3.get("order_by")):
            add(spec)
    if tier == "thorough":
        for i, spec in enumerate(C.gen_pipelines(3, tier, two_table=True, backends=BACKENDS, reduced=True)):
            if i % 16 == seed % 16:
                add(spec)
    return out + dag_cases(tier) + struct_cases()


# --------------------------------------------------------------------------------------------------
# one case
# --------------------------------------------------------------------------------------------------

_MODELS: Dict[Any, Any] = {}


def _model(name: str, merges: bool):
    k = (name, merges)
    if k not in _MODELS:
        import data_algebra.SQLite
        import data_algebra.PostgreSQL

        m = data_algebra.SQLite.SQLiteModel() if name == "SQLiteModel" else data_algebra.PostgreSQL.PostgreSQLModel()
        m.allow_extend_merges = bool(merges)
        _MODELS[k] = m
    return _MODELS[k]


def gen_sql(ops, dialect: str, v: Dict[str, Any]):
    from data_algebra.sql_format_options import SQLFormatOptions

    opts = SQLFormatOptions(use_with=v["use_with"], use_cte_elim=v["use_cte_elim"], annotate=v["annotate"], initial_commas=v["initial_commas"], sql_indent=v["sql_indent"])
    try:
        return ("ok", _model(dialect, v["allow_extend_merges"]).to_sql(ops, sql_format_options=opts))
    except Exception as e:
        return ("raise", type(e).__name__, str(e)[:200])


def _case_tables(case) -> List[str]:
    return C.spec_tables(case["cspec"]) if case["kind"] == "corpus" else ["d"]


def _order_step(case):
    if case["kind"] == "corpus":
        return C.last_order_step(case["cspec"])
    return None


def _same(a, b, order_step) -> Tuple[bool, str]:
    ok, why = C.frames_equiv(a, b)
    if not ok:
        return ok, why
    if order_step is not None and order_step.get("columns"):
        P, S = a, b
        kp = C.key_sequence(P[0], P[1], order_step["columns"])
        ks = C.key_sequence(S[0], S[1], order_step["columns"])
        if not (len(kp) == len(ks) and all(all(C.values_equiv(u, v) for u, v in zip(x, y)) for x, y in zip(kp, ks))):
            return False, "same rows, different order: default keys %r, variant keys %r" % (kp, ks)
    return True, ""


class _MemoStr:
    """Speed only: to_sql builds its cache keys with str(node) = to_python(pretty=True), i.e. one run of the
    black formatter per node and per to_sql call (20 ms and more per call).  str(node) is a pure function of
    the immutable node, so it is memoised per node object while the ~100 variants of ONE pipeline are
    generated; the strings (hence the generated SQL) are identical to the unmemoised ones."""

    def __enter__(self):
        import data_algebra.view_representations as vr

        self.vr = vr
        self.saved = [(vr.ViewRepresentation, vr.ViewRepresentation.__str__), (vr.TableDescription, vr.TableDescription.__str__)]
        cache: Dict[int, Tuple[Any, str]] = {}

        def mk(orig):
            def memo_str(node):
                hit = cache.get(id(node))
                if hit is not None and hit[0] is node:
                    return hit[1]
                s = orig(node)
                cache[id(node)] = (node, s)  # keeps the node alive, so the id stays unique
                return s

            return memo_str

        for cls, fn in self.saved:
            cls.__str__ = mk(fn)
        return self

    def __exit__(self, *exc):
        for cls, fn in self.saved:
            cls.__str__ = fn
        return False


def eval_case(case, data_sets: List[Tuple[int, Dict[str, Any]]], memo: bool = True) -> Dict[str, Any]:
    if memo:
        with _MemoStr():
            return eval_case(case, data_sets, memo=False)
    import data_algebra.SQLite

    res: Dict[str, Any] = {"fails": [], "compared": 0, "skipped": collections.Counter(), "pg": collections.Counter()}
    ops = build_case(case)
    order_step = _order_step(case)
    names = _case_tables(case)
    usable = []
    for di, data in data_sets:
        if case["kind"] == "corpus":
            pc = C.PrefixCache(case["cspec"], data)
            skip, _ = C.data_preconditions(case["cspec"], pc, backends=("sqlite",))
            if skip is None and order_step is not None and order_step.get("limit") is not None:
                pr = pc.rows(len(case["cspec"]["steps"]) - 1, backend="sqlite")
                if pr[0] == "ok" and not C.limit_cut_is_determined(pr[1], pr[2], order_step["columns"], order_step.get("reverse"), order_step["limit"]):
                    skip = "limit-cut-through-ties"
            if skip is not None:
                res["skipped"][skip] += 1
                continue
        usable.append((di, data))
    # generate every variant once (generation does not depend on the data)
    sqls = []
    for v in variants():
        sqls.append((v, "SQLiteModel", gen_sql(ops, "SQLiteModel", v)))
    base_sql = gen_sql(ops, "SQLiteModel", DEFAULT)
    pg_def = dict(DEFAULT)
    pg_alt = dict(DEFAULT, use_cte_elim=True)
    pg_base = gen_sql(ops, "PostgreSQLModel", pg_def)
    pg_var = gen_sql(ops, "PostgreSQLModel", pg_alt)
    # generation must not depend on the options: either every variant is generated or none
    if base_sql[0] == "raise":
        bad = [vname(v) for v, _, g in sqls if g[0] == "ok"]
        if bad:
            res["fails"].append([bad[0], "generation", "to_sql raises %s with default options but succeeds with %d other option sets" % (base_sql[1], len(bad))])
            res["gen_facts"] = {
                "default_raises": base_sql[1],
                "ok_iff_merges_off": all((g[0] == "ok") == (not v["allow_extend_merges"]) for v, _, g in sqls),
                "raise_types": sorted(set(g[1] for _, _, g in sqls if g[0] == "raise")),
            }
        res["status"] = "fail" if res["fails"] else "no-sql"
        res["detail"] = "%s: %s" % (base_sql[1], base_sql[2])
        if res["fails"]:
            res["keys"] = classify(case, ops, res)
        res["skipped"] = dict(res["skipped"])
        res["pg"] = dict(res["pg"])
        return res
    for v, _, g in sqls:
        if g[0] == "raise":
            res["fails"].append([vname(v), "generation", "to_sql raises %s: %s (default options: ok)" % (g[1], g[2][:120])])
    for di, data in usable:
        h = data_algebra.SQLite.example_handle()
        try:
            for t in names:
                h.insert_table(C.to_pandas(data[t], C.SCHEMAS[t]), table_name=t, allow_overwrite=True)

            def run(sql):
                # raw cursor on the library's connection (custom functions registered): names + rows, no pandas
                try:
                    cur = h.conn.execute(sql)
                    return ("ok", ([d[0] for d in cur.description], [tuple(r) for r in cur.fetchall()]))
                except Exception as e:
                    return ("raise", type(e).__name__, str(e)[:160])

            base = run(base_sql[1])
            for v, _, g in sqls:
                if g[0] != "ok" or v == DEFAULT:
                    continue
                r = run(g[1])
                if base[0] == "raise" and r[0] == "raise":
                    continue
                if base[0] == "raise" or r[0] == "raise":
                    who, o = ("the default-options query", base) if base[0] == "raise" else ("the variant", r)
                    res["fails"].append([vname(v), "result", "data#%d: only %s raises %s: %s" % (di, who, o[1], o[2][:120])])
                    continue
                res["compared"] += 1
                ok, why = _same(base[1], r[1], order_step)
                if not ok:
                    res["fails"].append([vname(v), "result", "data#%d: default vs variant: %s" % (di, why[:260])])
            # PostgreSQL text on sqlite3 as a surrogate
            if pg_base[0] == "ok" and pg_var[0] == "ok":
                pb, pv = run(pg_base[1]), run(pg_var[1])
                if pb[0] == "raise" or pv[0] == "raise":
                    if pb[0] != pv[0]:
                        res["pg"]["one-text-does-not-run-on-sqlite"] += 1
                    else:
                        res["pg"]["skipped-not-runnable-on-sqlite"] += 1
                else:
                    res["pg"]["compared"] += 1
                    res["compared"] += 1
                    ok, why = _same(pb[1], pv[1], order_step)
                    if not ok:
                        res["fails"].append(["PostgreSQLModel:use_cte_elim=True", "result", "data#%d: default vs variant: %s" % (di, why[:260])])
            elif pg_base[0] != pg_var[0]:
                res["fails"].append(["PostgreSQLModel:use_cte_elim=True", "generation", "to_sql: default %s, use_cte_elim=True %s" % (pg_base[:2], pg_var[:2])])
            else:
                res["pg"]["no-sql"] += 1
        finally:
            h.close()
    res["skipped"] = dict(res["skipped"])
    res["pg"] = dict(res["pg"])
    res["status"] = "fail" if res["fails"] else ("ok" if res["compared"] > 0 else ("no-data" if not usable else "both-raise"))
    if res["fails"]:
        res["keys"] = classify(case, ops, res, usable)
    return res


# --------------------------------------------------------------------------------------------------
# classification
# --------------------------------------------------------------------------------------------------


def _walk(ops):
    stack, seen = [ops], set()
    while stack:
        n = stack.pop()
        if id(n) in seen:
            continue
        seen.add(id(n))
        yield n
        stack.extend(n.sources)


def _has_trimmed_window_extend(ops) -> bool:
    """ExtendNode (or the id-column extend that concat_rows puts on each operand) <- Drop/SelectColumnsNode <- windowed
    ExtendNode, the trim removing a partition / order column"""
    for n in _walk(ops):
        tops = []
        if type(n).__name__ == "ExtendNode":
            tops = [n.sources[0]]
        elif type(n).__name__ == "ConcatRowsNode" and n.id_column is not None:
            tops = list(n.sources)
        for trim in tops:
            if type(trim).__name__ in ("DropColumnsNode", "SelectColumnsNode"):
                below = trim.sources[0]
                if type(below).__name__ == "ExtendNode" and below.windowed_situation:
                    wcols = set(below.partition_by) | set(below.order_by)
                    if wcols - set(trim.column_names):
                        return True
    return False


def _concat_of_ordered(ops) -> bool:
    return any(type(n).__name__ == "ConcatRowsNode" and any(type(s).__name__ == "OrderRowsNode" for s in n.sources) for n in _walk(ops))


def _concat_of_unpivot(ops) -> bool:
    """a concat_rows operand that is a convert_records to block form: its SQL ends with its own ORDER BY"""
    return any(type(n).__name__ == "ConcatRowsNode" and any(type(s).__name__ == "ConvertRecordsNode" and s.record_map.blocks_out is not None for s in n.sources) for n in _walk(ops))


def _run_raw(names, data, sqls):
    """execute SQL texts on a fresh library-prepared SQLite connection holding `data` -> [outcome]"""
    import data_algebra.SQLite

    h = data_algebra.SQLite.example_handle()
    try:
        for t in names:
            h.insert_table(C.to_pandas(data[t], C.SCHEMAS[t]), table_name=t, allow_overwrite=True)
        out = []
        for sql in sqls:
            try:
                cur = h.conn.execute(sql)
                out.append(("ok", ([d[0] for d in cur.description], [tuple(r) for r in cur.fetchall()])))
            except Exception as e:
                out.append(("raise", type(e).__name__, str(e)[:160]))
        return out
    finally:
        h.close()


def classify(case, ops, res, usable=()) -> Dict[str, List[str]]:
    keys: Dict[str, List[str]] = collections.OrderedDict()
    by_kind: Dict[str, List[str]] = collections.OrderedDict()
    for vn, kind, det in res["fails"]:
        by_kind.setdefault(kind, []).append(vn)
    for kind, vns in by_kind.items():
        first = next(d for vn, k, d in res["fails"] if k == kind)
        # Known on the pinned tree (PostgreSQLModel; SQLiteModel.supports_cte_elim is False): a mergeable extend is merged INTO
        # the near-SQL of the shared sub-pipeline without changing its ops_key, so with use_cte_elim=True two different merged
        # SELECTs are taken for the same common table expression.  Narrow test: the failure needs BOTH switches -- with
        # use_cte_elim=True and allow_extend_merges=False the PostgreSQL text gives the default's table again.
        if kind == "result" and set(vns) == {"PostgreSQLModel:use_cte_elim=True"} and usable:
            base = gen_sql(ops, "PostgreSQLModel", dict(DEFAULT))
            alt = gen_sql(ops, "PostgreSQLModel", dict(DEFAULT, use_cte_elim=True, allow_extend_merges=False))
            bad = gen_sql(ops, "PostgreSQLModel", dict(DEFAULT, use_cte_elim=True))
            ok_all = base[0] == "ok" and alt[0] == "ok" and bad[0] == "ok"
            differs = False
            if ok_all:
                for di, data in usable:
                    rb, ra, rx = _run_raw(_case_tables(case), data, [base[1], alt[1], bad[1]])
                    if rb[0] != "ok" or ra[0] != "ok" or not _same(rb[1], ra[1], _order_step(case))[0]:
                        ok_all = False
                        break
                    if rx[0] != "ok" or not _same(rb[1], rx[1], _order_step(case))[0]:
                        differs = True
            if ok_all and differs:
                keys["%s:sql_model.SQLModel.extend_to_near_sql:cte-elim-conflates-extends-merged-into-shared-sub-pipeline" % PID] = ["[%s] %s" % (vns[0], first)]
                continue
        # Known (C01 finding extend-over-column-trimmed-window-extend): extend on a select/drop_columns that removed a window
        # column of the extend below raises KeyError inside the MERGE test of extend_to_near_sql; here it shows as option
        # dependence: generation fails exactly when allow_extend_merges is on.
        if kind == "generation" and res.get("gen_facts", {}).get("ok_iff_merges_off") and res["gen_facts"]["raise_types"] == ["KeyError"] and _has_trimmed_window_extend(ops):
            keys["%s:sql_model.SQLModel.extend_to_near_sql:extend-over-column-trimmed-window-extend" % PID] = ["[allow_extend_merges=True: KeyError; allow_extend_merges=False: SQL generated] %s" % first]
            continue
        # use_with=False inlines an ORDER BY .. LIMIT operand of concat_rows into the UNION ALL: SQLite rejects the text
        if kind == "result" and all("use_with=False" in vn for vn in vns) and "should come after UNION ALL" in first and _concat_of_unpivot(ops) and not _concat_of_ordered(ops):
            n_without = sum(1 for v in variants() if not v["use_with"])
            if len(set(vns)) == n_without:
                keys["%s:sql_model.SQLModel.nearsqlbinary_to_sql_str_list_:unpivot-concat-operand-inlined-without-with" % PID] = ["[all %d option sets with use_with=False] %s" % (n_without, first)]
                continue
        if kind == "result" and all("use_with=False" in vn for vn in vns) and "should come after UNION ALL" in first and _concat_of_ordered(ops):
            n_without = sum(1 for v in variants() if not v["use_with"])
            if len(set(vns)) == n_without:
                keys["%s:sql_model.SQLModel.nearsqlbinary_to_sql_str_list_:ordered-limited-concat-operand-inlined-without-with" % PID] = ["[all %d option sets with use_with=False] %s" % (n_without, first)]
                continue
        common = None
        for vn in vns:
            names = set(x.split("=")[0] for x in vn.split(",") if "=" in x)
            common = names if common is None else (common & names)
        sig = [kind, sorted(common or [])]
        keys["%s:unclassified:%s" % (PID, O.uhash(sig))] = ["%d variants (all with non-default %s) %s: e.g. [%s] %s" % (len(vns), sorted(common or []) or "?", kind, vns[0], first)]
    return keys


# --------------------------------------------------------------------------------------------------
# driver
# --------------------------------------------------------------------------------------------------


def scope(tier: str) -> Dict[str, Any]:
    if tier == "quick":
        return {"per_case": 2, "max_rows": 3, "cap": 24}
    return {"per_case": 2, "max_rows": 4, "cap": 40}


def _worker(job):
    pool = C.data_pool(*job["pool_args"])
    out = []
    for case, dis in job["cases"]:
        try:
            r = eval_case(case, [(di, pool[di]) for di in dis])
        except Exception as e:
            r = {"status": "harness-error", "detail": "%s: %s | %s" % (type(e).__name__, e, traceback.format_exc()[-700:])}
        r["id"] = case["id"]
        r["dis"] = dis
        r["case"] = case if r["status"] in ("fail", "harness-error") else None
        out.append(r)
    return out


def bounded(rep: Report, tier: str, seed: int) -> None:
    t0 = time.time()
    sc = scope(tier)
    cases = make_cases(tier, seed)
    pool_args = (sc["max_rows"], seed, sc["cap"])
    n_pool = len(C.data_pool(*pool_args))
    work = []
    for i, c in enumerate(cases):
        dis = [d for d in C.pick_data(n_pool, i, sc["per_case"] + 1, seed) if d != 0][: sc["per_case"]]  # non-empty data first
        work.append((c, dis))
    outs = O.pool_map(_worker, [{"cases": sh, "pool_args": pool_args} for sh in O.shards(work, 8)])
    counts = collections.Counter()
    skipped = collections.Counter()
    pg = collections.Counter()
    no_sql = collections.Counter()
    kinds = collections.Counter(c["kind"] for c in cases)
    compared = 0
    for o in outs:
        for r in o:
            st = r["status"]
            counts[st] += 1
            if st == "harness-error":
                rep.errors.append("harness error on %s: %s" % (r["id"], r["detail"]))
                continue
            for k, v in r["skipped"].items():
                skipped[k] += v
            for k, v in r["pg"].items():
                pg[k] += v
            if st == "no-sql":
                no_sql[r["detail"].split(":")[0]] += 1
            compared += r["compared"]
            rep.case(r["id"], nontrivial=(r["compared"] > 0))
            if st == "ok":
                rep.add_sample({"pipeline": r["id"], "variant_results_compared": r["compared"]})
            if st == "fail":
                for key, dets in r["keys"].items():
                    rep.violations.append(
                        Violation(
                            key=key,
                            what="%s: %s" % (describe_case(r["case"]), O.short(dets[0], 420).replace("\n", " ").replace("\t", " ")),
                            replay={"module": "cbc.c04", "case": {"case_json": json.dumps(r["case"]), "dis": r["dis"], "pool_args": list(pool_args)}, "n_keys": len(r["keys"])},
                        )
                    )
    rep.violations.sort(key=lambda v: (v.replay.get("n_keys", 1), len(v.what), v.key, v.what))
    rep.extra["status_counts"] = dict(counts)
    rep.extra["pipelines"] = dict(kinds)
    rep.extra["variants_per_pipeline"] = len(variants()) + 1
    rep.extra["variant_results_compared"] = compared
    rep.extra["data_sets_skipped"] = dict(skipped)
    rep.extra["postgresql_surrogate"] = dict(pg)
    rep.extra["pipelines_without_sql"] = dict(no_sql)
    rep.extra["failing_cases_by_key"] = dict(collections.Counter(v.key for v in rep.violations))
    print("C04 bounded: %d pipelines %s, %d variant results compared, pg %s, in %.1fs" % (len(cases), dict(counts), compared, dict(pg), time.time() - t0), file=sys.stderr)


def replay_case(payload: Dict[str, Any]) -> bool:
    """Re-run one stored case natively; print what was observed; True iff it still fails."""
    case = json.loads(payload["case_json"])
    pool = C.data_pool(*payload["pool_args"])
    print("pipeline:", describe_case(case))
    ops = build_case(case)
    print(" ".join(ops.to_python(pretty=False).split()))
    r = eval_case(case, [(di, pool[di]) for di in payload["dis"]])
    for vn, kind, det in r["fails"][:6]:
        print("FAIL [%s] %s: %s" % (vn, kind, det))
    if r["fails"]:
        vn = r["fails"][0][0]
        v = next((x for x in variants() if vname(x) == vn), None)
        if v is not None:
            print("--- SQL with default options:\n" + gen_sql(ops, "SQLiteModel", DEFAULT)[1])
            g = gen_sql(ops, "SQLiteModel", v)
            print("--- SQL with %s:\n%s" % (vn, g[1] if g[0] == "ok" else g))
    print("verdict:", r["status"], list(r.get("keys", {}).keys()), "| results compared:", r["compared"])
    return r["status"] == "fail"
