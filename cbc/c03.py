"""C03 (bounded): the Polars executor agrees with Pandas whenever it returns a result.

Contract on the REAL `data_algebra.polars_model.PolarsModel.eval` (the live model instance that
`ViewRepresentation.eval` dispatches to for polars frames):

    post(eval(op, data_map)) :=  raises  OR  frames_equiv(result, pandas result of the same pipeline)

checked for eager `pl.DataFrame` inputs and `pl.LazyFrame` inputs, each with `use_lazy_eval` True and
False (4 modes), plus two modes whose input frames carry an undeclared extra column and permuted columns.  Raising satisfies the property; returned-vs-raised is counted, and only
returned-and-compared evaluations are nontrivial.
"""
from __future__ import annotations

import collections
import sys
import time
from typing import Any, Dict, List, Optional, Tuple

from vlib.core import Report, Violation
from cbc import common as C
from cbc import wrap

PID = "C03"
BACKENDS = ("Pandas",)  # the catalog has no Polars column: only Pandas support is required
CONTRACT_NAME = "PolarsModel.eval"
PAIR = ("pandas", "polars")
MODES = [("eager", True), ("eager", False), ("lazy", True), ("lazy", False), ("eager-wide", False), ("lazy-wide", True)]
# "-wide": the Polars input frames carry an undeclared extra column and the declared columns in another order

FUNCTIONS_UNDER_CONTRACT = [
    {"file": "data_algebra/polars_model.py", "function": "PolarsModel.eval"},
    {"file": "data_algebra/view_representations.py", "function": "ViewRepresentation.eval"},
    {"file": "data_algebra/pandas_base.py", "function": "PandasModelBase.eval"},
]

_STATE: Dict[str, Any] = {}
_ATTACHED = False


def _polars_model():
    import data_algebra.data_model
    import data_algebra.polars_model  # noqa: F401

    return data_algebra.data_model.lookup_data_model_for_key("default_Polars_model")


def compare(spec, p_out, l_out, pc) -> Tuple[str, str]:
    """-> (status, detail): raised | pandas-raises | ok | fail:rows | fail:order"""
    if l_out[0] == "raise":
        return "raised", "%s: %s" % (l_out[1], l_out[2][:120])
    if p_out[0] == "raise":
        # Polars returned where Pandas raised: nothing to compare with (the property compares results)
        return "pandas-raises", "%s: %s" % (p_out[1], p_out[2][:120])
    P = C.canon_rows(p_out[1])
    L = C.canon_rows(l_out[1])
    order = C.last_order_step(spec)
    ok, why = C.frames_equiv(P, L)
    if order is None:
        return ("ok", "") if ok else ("fail:rows", why)
    # property: same columns and multiset of rows (C03 does not constrain order); with a limit the choice
    # among rows tied at the cut is free
    if ok:
        return "ok", ""
    if order.get("limit") is not None and set(P[0]) == set(L[0]) and len(set(L[0])) == len(L[0]):
        n = len(spec["steps"]) - 1
        ocols = list(order["columns"])
        for be in ("pandas", "polars"):
            full = pc.rows(n, backend=be)
            if full[0] != "ok":
                continue
            okp, _ = C.check_order_limit(P[0], P[1], full[1], full[2], ocols, order.get("reverse") or [], order["limit"])
            okl, _ = C.check_order_limit(L[0], L[1], full[1], full[2], ocols, order.get("reverse") or [], order["limit"])
            if okp and okl:
                kp = C.key_sequence(P[0], P[1], ocols)
                kl = C.key_sequence(L[0], L[1], ocols)
                if sorted(map(C.row_sort_key, kp)) == sorted(map(C.row_sort_key, kl)):
                    return "ok", "tie crossing the limit"
    return "fail:rows", why


def _ensure_attached():
    global _ATTACHED
    if _ATTACHED:
        return
    model = _polars_model()

    def when(call):
        return _STATE.get("active", False)

    def pre(call):
        dm = call.kwargs.get("data_map")
        return isinstance(dm, dict) and all(model.is_appropriate_data_instance(v) for v in dm.values())

    def post(call, outcome):
        if outcome.exception is not None:
            l_out = C._outcome_raise(outcome.exception)
        else:
            l_out = ("ok", outcome.value)
        _STATE["active"] = False  # compare() may evaluate pipeline prefixes through the same entry point
        status, detail = compare(_STATE["spec"], _STATE["p_out"], l_out, _STATE["pc"])
        _STATE["status"], _STATE["detail"], _STATE["l_out"] = status, detail, l_out
        if status.startswith("fail"):
            return {"status": status, "detail": detail}
        return None

    # ViewRepresentation.eval looks the model up per call and calls model.eval(...): patch the instance
    wrap.attach(model, "eval", wrap.contract(pre=pre, post=post, name=CONTRACT_NAME, when=when), factory=True)
    _ATTACHED = True


def eval_case(spec: Dict[str, Any], data: Dict[str, Any]) -> Dict[str, Any]:
    """Evaluate one (pipeline, data set) in all 4 modes. Returns {'status', 'modes': {mode: (status, detail)}}"""
    _ensure_attached()
    ops = C.build(spec)
    sup, bad = C.catalog_supported(ops, BACKENDS)
    if not sup:
        return {"status": "catalog-excluded", "detail": repr(bad), "modes": {}}
    pc = C.PrefixCache(spec, data)
    skip, info = C.data_preconditions(spec, pc, backends=("pandas", "polars"))
    if skip is not None:
        return {"status": "skipped:" + skip, "detail": "", "modes": {}}
    p_out = C.run_pandas(ops, C.pandas_frames(spec, data))
    modes = {}
    failing_outs: List[Any] = []
    for kind, ule in MODES:
        _STATE.clear()
        _STATE.update({"active": True, "spec": spec, "p_out": p_out, "pc": pc})
        try:
            l_out = C.run_polars(ops, C.polars_frames(spec, data, wide=kind.endswith("-wide")), lazy=kind.startswith("lazy"), use_lazy_eval=ule)
        finally:
            _STATE["active"] = False
        wrap.take_failures()
        mname = "%s/use_lazy_eval=%s" % (kind, ule)
        if "status" not in _STATE:
            # ViewRepresentation.eval raised before reaching PolarsModel.eval (e.g. check_constraints)
            if l_out[0] == "raise":
                modes[mname] = ("raised-before-model", "%s: %s" % (l_out[1], l_out[2][:120]))
                continue
            raise wrap.HarnessError("the contract on PolarsModel.eval was not evaluated")
        modes[mname] = (_STATE["status"], _STATE["detail"])
        if _STATE["status"].startswith("fail"):
            failing_outs.append(_STATE["l_out"])
    sts = [m[0] for m in modes.values()]
    if any(s.startswith("fail") for s in sts):
        status = "fail"
    elif any(s == "ok" for s in sts):
        status = "ok"
    elif any(s == "pandas-raises" for s in sts):
        status = "pandas-raises"
    else:
        status = "raised"
    res = {"status": status, "modes": modes, "detail": "; ".join("%s: %s %s" % (k, v[0], v[1][:160]) for k, v in modes.items() if v[0].startswith("fail"))}
    if status == "fail":
        res["keys"] = classify(spec, data, _dedup_outs(failing_outs), p_out)
    return res


def _dedup_outs(outs):
    seen, res = set(), []
    for o in outs:
        k = repr(_canon_out(o))
        if k not in seen:
            seen.add(k)
            res.append(o)
    return res


def _canon_out(o, keep_nan: bool = False):
    if o[0] == "ok":
        c, r = C.canon_rows(o[1], keep_nan=keep_nan)
        return ("ok", c, r)
    return o


def classify(spec, data, l_outs, p_out) -> List[str]:
    """Finding keys: 1-minimal set of known divergences (cbc.sem) reproducing the Pandas outcome and every
    returned Polars outcome exactly; otherwise unclassified."""
    from cbc import sem

    universe, always_on = sem.flags_for_pair(PAIR)
    keys: List[str] = []
    for l_out in l_outs:
        # Polars keeps NaN distinct from null: the model must reproduce that too
        outcomes = {"pandas": _canon_out(p_out), "polars": _canon_out(l_out, keep_nan=True)}
        D = sem.explain(spec, data, outcomes, universe=universe, always_on=always_on)
        if not D:
            return ["%s:unclassified:%s" % (PID, C.case_hash({"spec": spec, "data": {t: data[t] for t in C.spec_tables(spec)}}))]
        for d in D:
            k = sem.finding_key(PID, d, PAIR)
            if k not in keys:
                keys.append(k)
    return keys


def _worker(job):
    pool = C.data_pool(*job["pool_args"])
    out = []
    for spec, di in job["cases"]:
        data = pool[di]
        try:
            r = eval_case(spec, data)
        except Exception as e:
            import traceback

            r = {"status": "harness-error", "modes": {}, "detail": "%s: %s | %s" % (type(e).__name__, e, traceback.format_exc()[-600:])}
        r["ids"] = spec["meta"]["ids"]
        r["di"] = di
        r["spec"] = spec if r["status"] in ("fail", "harness-error") else None
        out.append(r)
    return {"results": out, "wrap": wrap.snapshot()}


def scope(tier: str):
    if tier == "quick":
        return {"depths": [1, 2], "max_rows": 3, "cap": 40, "per_spec": 2, "depth3_per_spec": 0}
    return {"depths": [1, 2, 3], "max_rows": 4, "cap": 64, "per_spec": 5, "depth3_per_spec": 1}


def make_cases(tier: str, seed: int):
    sc = scope(tier)
    n_pool = len(C.data_pool(sc["max_rows"], seed, sc["cap"]))
    cases = []
    idx = 0
    for depth in sc["depths"]:
        per = sc["per_spec"] if depth < 3 else sc["depth3_per_spec"]
        for spec in C.gen_pipelines(depth, tier, two_table=True, backends=BACKENDS):
            for di in C.pick_data(n_pool, idx, per, seed):
                cases.append((spec, di))
            idx += 1
    return sc, cases


def bounded(rep: Report, tier: str, seed: int) -> None:
    t0 = time.time()
    sc, cases = make_cases(tier, seed)
    pool_args = (sc["max_rows"], seed, sc["cap"])
    jobs = [{"cases": sh, "pool_args": pool_args} for sh in C.shard(cases, C.n_workers() * 8) if sh]
    outs = C.run_parallel(_worker, jobs, chunksize=1)
    counts = collections.Counter()
    mode_counts = collections.Counter()
    raise_kinds = collections.Counter()
    pool = C.data_pool(*pool_args)
    for o in outs:
        wrap.merge(o["wrap"])
        for r in o["results"]:
            st = r["status"]
            counts[st.split(":")[0] if st.startswith("skipped") else st] += 1
            if st == "harness-error":
                rep.errors.append("harness error on %s data#%d: %s" % (r["ids"], r["di"], r["detail"]))
                continue
            for mname, (ms, md) in r["modes"].items():
                mode_counts["%s %s" % (mname, ms)] += 1
                if ms.startswith("raised"):
                    raise_kinds[md.split(":")[0]] += 1
                rep.case((tuple(r["ids"]), r["di"], mname), nontrivial=(ms == "ok" or ms.startswith("fail")))
            if not r["modes"]:
                rep.case((tuple(r["ids"]), r["di"], "-"), nontrivial=False)
            if st == "ok":
                rep.add_sample({"pipeline": "+".join(r["ids"]), "data": r["di"], "modes": {k: v[0] for k, v in r["modes"].items()}})
            if st == "fail":
                spec = r["spec"]
                data = {t: pool[r["di"]][t] for t in C.spec_tables(spec)}
                for key in r["keys"]:
                    rep.violations.append(
                        Violation(
                            key=key,
                            what="polars returned a different table on %s with %s: %s" % (C.describe(spec), _short(data), r["detail"][:400]),
                            replay={"module": "cbc.c03", "case": {"spec": spec, "data": data}, "n_keys": len(r["keys"])},
                        )
                    )
    C.sort_violations(rep)
    wrap.require_evaluated(rep, [CONTRACT_NAME])
    rep.extra["status_counts"] = dict(counts)
    rep.extra["per_mode_counts"] = dict(mode_counts)
    rep.extra["polars_raise_kinds"] = dict(raise_kinds)
    rep.extra["returned_and_compared"] = sum(v for k, v in mode_counts.items() if k.endswith(" ok") or " fail" in k)
    rep.extra["raised"] = sum(v for k, v in mode_counts.items() if " raised" in k)
    rep.extra["contract_evaluations"] = dict(wrap.EVALS)
    print("C03 bounded: %d cases %s returned-and-compared=%d raised=%d in %.1fs" % (len(cases), dict(counts), rep.extra["returned_and_compared"], rep.extra["raised"], time.time() - t0), file=sys.stderr)


def _short(data) -> str:
    return "; ".join("%s=%s" % (t, {c: v for c, v in tab.items()}) for t, tab in data.items())[:400]


def _with_meta(spec):
    for s in C.gen_pipelines(len(spec["steps"]), "thorough", two_table=True, backends=BACKENDS, reduced=False):
        if s["steps"] == spec["steps"]:
            return s
    raise wrap.HarnessError("stored spec is not produced by the enumerator any more")


def replay_case(case: Dict[str, Any]) -> bool:
    spec, data = case["spec"], case["data"]
    if "meta" not in spec:
        spec = _with_meta(spec)
    print("pipeline:", C.describe(spec))
    for t, tab in data.items():
        print("table %s: %r" % (t, tab))
    ops = C.build(spec)
    p = C.run_pandas(ops, C.pandas_frames(spec, data))
    print("pandas:", ("columns %r rows %r" % C.canon_rows(p[1])) if p[0] == "ok" else "raised %s: %s" % (p[1], p[2]))
    for kind, ule in MODES:
        l = C.run_polars(ops, C.polars_frames(spec, data, wide=kind.endswith("-wide")), lazy=kind.startswith("lazy"), use_lazy_eval=ule)
        print("polars %s use_lazy_eval=%s:" % (kind, ule), ("columns %r rows %r" % C.canon_rows(l[1])) if l[0] == "ok" else "raised %s: %s" % (l[1], l[2][:200]))
    r = eval_case(spec, data)
    print("verdict:", r["status"], r.get("keys", ""), r["detail"][:600])
    return r["status"] == "fail"
