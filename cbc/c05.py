"""C05 (bounded): every catalogued method behaves as documented on every backend that claims it.

For every row of data_algebra.op_catalog.methods_table (read live) the method is used as ONE single-method step

    scalar methods (op_class e)       d.extend({'r': <expr>})                      over the operand grid (all pairs / triples)
    aggregators    (op_class p, up)   d.project({'r': <expr>}, group_by=['g'])     over all groups of <= 3 rows incl. nulls
    windowed       (op_class g)       d.extend({'r': <expr>}, partition_by=['g'])
    ordered window (op_class w)       d.extend({'r': <expr>}, partition_by=['g'], order_by=['o'])
    whole column   (e: x.sum())       d.extend({'r': 'v.sum()'})                   one table per group

and run on Pandas and SQLite when the catalog marks the row 'y' for them, and on Polars (not covered by the
catalog) whenever Polars does not raise.  PostgreSQL is not executable here: skipped (said so in the report).

Contract (cbc.oracles_b.ContractedBackends -> cbc.wrap) on the REAL _extend_step / _project_step entries of the
live Pandas and Polars dispatch tables and on the REAL DBHandle.read_query:

    post(result) := for every row (group), result.r == doc_meaning[method](operands of that row / items of that group)

doc_meaning (cbc.oracles_b.doc_meaning) is written from the Term.* docstrings and the catalog's expression column.
"""
from __future__ import annotations

import collections
import datetime
import itertools
import sys
import time
from typing import Any, Dict, List, Optional, Tuple

import pandas

from vlib.core import Report, Violation
from cbc import common as C
from cbc import wrap
from cbc import oracles_b as O

PID = "C05"
BACKENDS = ("pandas", "polars", "sqlite")
CATALOG_COLUMN = {"pandas": "Pandas", "sqlite": "SQLiteModel"}
FUNCTIONS_UNDER_CONTRACT = [
    {"file": "data_algebra/pandas_base.py", "function": "PandasModelBase._extend_step"},
    {"file": "data_algebra/pandas_base.py", "function": "PandasModelBase._project_step"},
    {"file": "data_algebra/pandas_base.py", "function": "PandasModelBase._populate_impl_map"},
    {"file": "data_algebra/polars_model.py", "function": "PolarsModel._extend_step"},
    {"file": "data_algebra/polars_model.py", "function": "PolarsModel._project_step"},
    {"file": "data_algebra/polars_model.py", "function": "_populate_expr_impl_map"},
    {"file": "data_algebra/db_model.py", "function": "DBHandle.read_query"},
    {"file": "data_algebra/sql_model.py", "function": "SQLModel.expr_to_sql"},
    {"file": "data_algebra/SQLite.py", "function": "SQLiteModel.prepare_connection"},
]
CB = O.ContractedBackends(nodes=("ExtendNode", "ProjectNode"))
MAX_GROUP = 3

_FRAME_TYPE = {"num": "float", "numnan": "float", "numx": "float", "numr": "float", "int": "int", "bool": "bool", "str": "str", "str2": "str", "strdate": "str", "strdatetime": "str", "strdate2": "str", "strdatetime2": "str"}


def scope(tier: str) -> Dict[str, Any]:
    return {"max_group": MAX_GROUP, "whole_column_tables": 16 if tier == "quick" else 120}


# --------------------------------------------------------------------------------------------------
# catalog
# --------------------------------------------------------------------------------------------------


def catalog_rows() -> List[Dict[str, Any]]:
    import data_algebra.op_catalog

    mt = data_algebra.op_catalog.methods_table
    out = []
    for i in range(mt.shape[0]):
        r = mt.iloc[i]
        out.append({"key": "%s|%s" % (r["op_class"], r["expression"]), "op": str(r["op"]), "cls": str(r["op_class"]), "expression": str(r["expression"]), "Pandas": str(r["Pandas"]), "SQLiteModel": str(r["SQLiteModel"]), "PostgreSQLModel": str(r["PostgreSQLModel"])})
    return out


# --------------------------------------------------------------------------------------------------
# tables
# --------------------------------------------------------------------------------------------------


def to_frame(table: Dict[str, List[Any]], types: Dict[str, str], kind: str):
    """table dict -> pandas / polars frame; like cbc.common.to_pandas / to_polars plus date and datetime columns
    (pandas: object column of datetime.date as in the library's own catalog tests / datetime64; polars: Date / Datetime)."""
    plain = {c: t for c, t in types.items() if t in _FRAME_TYPE}
    special = {c: t for c, t in types.items() if t not in _FRAME_TYPE}
    base_schema = collections.OrderedDict((c, _FRAME_TYPE[t]) for c, t in plain.items())
    if kind == "pandas":
        df = C.to_pandas({c: table[c] for c in plain}, base_schema) if plain else pandas.DataFrame()
        for c, t in special.items():
            if t == "date":
                df[c] = pandas.Series(list(table[c]), dtype="object")
            else:
                df[c] = pandas.to_datetime(pandas.Series(list(table[c]), dtype="object"))
        return df[list(types.keys())]
    import polars as pl

    df = C.to_polars({c: table[c] for c in plain}, base_schema) if plain else pl.DataFrame()
    for c, t in special.items():
        df = df.with_columns(pl.Series(c, list(table[c]), dtype=(pl.Date if t == "date" else pl.Datetime)))
    return df.select(list(types.keys()))


def scalar_tables(m: O.Method) -> List[Dict[str, Any]]:
    """Operand tables of a scalar method: every combination of the operand grids inside the method's domain
    ('full'); when an operand is int / bool typed also the null-free combinations on their own (pandas then keeps
    int64 / bool columns instead of float64 / object)."""
    grids = [O.GRIDS[t] for t in m.args]
    rows = [r for r in itertools.product(*grids) if (m.dom is None or m.dom(*r))]
    cols = ["a%d" % i for i in range(len(m.args))]
    types = collections.OrderedDict([("rid", "int")] + [(c, t) for c, t in zip(cols, m.args)])
    out = []

    def mk(name, rs):
        if rs:
            out.append({"variant": name, "types": types, "rows": rs, "table": dict({"rid": list(range(len(rs)))}, **{c: [r[j] for r in rs] for j, c in enumerate(cols)})})

    mk("full", rows)
    if any(t in ("int", "bool") for t in m.args) and any(v is None for r in rows for v in r):
        mk("nonnull", [r for r in rows if all(v is not None for v in r)])
    return out


def group_sequences(m: O.Method) -> List[Tuple[Any, ...]]:
    """All groups of 1..3 rows (as sequences in window order) over the value grid, inside the method's domain."""
    t = m.args[0] if m.args else "num"
    grid = O.GROUP_GRIDS[t]
    seqs = [s for n in range(1, MAX_GROUP + 1) for s in itertools.product(grid, repeat=n)]
    return [s for s in seqs if (m.dom is None or m.dom(list(s)))]


def group_table(m: O.Method, seqs: List[Tuple[Any, ...]]) -> Dict[str, Any]:
    """One table holding every group: g = group number, o = position in the window order (the rows of a group are
    listed in REVERSE window order, so that the input is not pre-sorted), v = the item."""
    t = m.args[0] if m.args else "num"
    g, o, v = [], [], []
    for gi, s in enumerate(seqs):
        for pos in reversed(range(len(s))):
            g.append(gi)
            o.append(pos)
            v.append(s[pos])
    types = collections.OrderedDict([("g", "int"), ("o", "int"), ("v", t)])
    return {"variant": "groups", "types": types, "table": {"g": g, "o": o, "v": v}, "seqs": seqs}


_OPS: Dict[str, Any] = {}


def build_ops(m: O.Method, types):
    from data_algebra import TableDescription

    if m.uid not in _OPS:
        td = TableDescription(table_name="d", column_names=list(types.keys()))
        if m.cls in ("p", "up"):
            ops = td.project({"r": m.expr}, group_by=["g"])
        elif m.cls == "g":
            ops = td.extend({"r": m.expr}, partition_by=["g"])
        elif m.cls == "w":
            ops = td.extend({"r": m.expr}, partition_by=["g"], order_by=["o"])
        else:
            ops = td.extend({"r": m.expr})
        _OPS[m.uid] = ops
    return _OPS[m.uid]


def describe(m: O.Method) -> str:
    if m.cls in ("p", "up"):
        return "d.project({'r': %r}, group_by=['g'])" % m.expr
    if m.cls == "g":
        return "d.extend({'r': %r}, partition_by=['g'])" % m.expr
    if m.cls == "w":
        return "d.extend({'r': %r}, partition_by=['g'], order_by=['o'])" % m.expr
    return "d.extend({'r': %r})" % m.expr


def is_grouped(m: O.Method) -> bool:
    return m.cls in ("p", "up", "g", "w") or (m.cls == "e" and m.expr == "v.sum()")


# --------------------------------------------------------------------------------------------------
# expectations and comparison
# --------------------------------------------------------------------------------------------------


def norm_cell(v: Any) -> Any:
    """Observed cell -> plain Python value (Timestamp -> datetime, midnight datetime stays a datetime)."""
    v = C.canon_value(v)
    if isinstance(v, pandas.Timestamp):
        return v.to_pydatetime()
    return v


def cell_ok(exp: Any, obs: Any) -> bool:
    obs = norm_cell(obs)
    if isinstance(exp, O.Either):
        return any(cell_ok(e, obs) for e in exp.options)
    if isinstance(exp, datetime.datetime) or isinstance(obs, datetime.datetime):
        return isinstance(exp, datetime.datetime) and isinstance(obs, datetime.datetime) and exp == obs
    if isinstance(exp, datetime.date) or isinstance(obs, datetime.date):
        return isinstance(exp, datetime.date) and isinstance(obs, datetime.date) and exp == obs
    if isinstance(exp, float) and isinstance(obs, (int, float)) and not isinstance(obs, bool) and (exp != exp or abs(exp) == float("inf")):
        return float(obs) == exp or (exp != exp and obs != obs)
    return O.cell_matches(exp, obs, tol=1e-9)


def expectations(m: O.Method, tab: Dict[str, Any]) -> Dict[Tuple, Any]:
    """row identity -> expected value of r.  Scalar: (rid,) ; project: (g,) ; windows: (g, o)."""
    if not is_grouped(m):
        return {(i,): m.ref(*r) for i, r in enumerate(tab["rows"])}
    out = {}
    for gi, s in enumerate(tab["seqs"]):
        if m.cls in ("p", "up"):
            out[(gi,)] = m.ref(list(s))
        else:
            for pos, v in enumerate(m.ref(list(s))):
                out[(gi, pos)] = v
    return out


def id_cols(m: O.Method) -> List[str]:
    if not is_grouped(m):
        return ["rid"]
    return ["g"] if m.cls in ("p", "up") else ["g", "o"]


def compare(m: O.Method, exp: Dict[Tuple, Any], obs) -> Dict[str, Any]:
    cols, rows = obs[1], obs[2]
    ids = id_cols(m)
    if "r" not in cols or any(c not in cols for c in ids):
        return {"frame": "result lacks the columns %r: %r" % (ids + ["r"], cols), "bad": {}}
    idx = [cols.index(c) for c in ids]
    jr = cols.index("r")
    got: Dict[Tuple, List[Any]] = {}
    for r in rows:
        got.setdefault(tuple(int(r[i]) if r[i] is not None else None for i in idx), []).append(r[jr])
    if set(got) != set(exp) or any(len(v) != 1 for v in got.values()):
        return {"frame": "result rows are not one per input row/group: expected ids %r, observed %r" % (sorted(exp)[:8], sorted(got, key=repr)[:8]), "bad": {}}
    bad = {k: (exp[k], norm_cell(got[k][0])) for k in exp if not cell_ok(exp[k], got[k][0])}
    return {"frame": None, "bad": bad}


# --------------------------------------------------------------------------------------------------
# one (method, table, backend) evaluation
# --------------------------------------------------------------------------------------------------


def run_table(m: O.Method, tab: Dict[str, Any], be: str) -> Dict[str, Any]:
    """-> {'obs', 'status': ok|fail|raise, 'cmp'} for the whole table on one back end."""
    ops = build_ops(m, tab["types"])
    exp = expectations(m, tab)
    holder: Dict[str, Any] = {}

    def check(obs):
        holder["cmp"] = compare(m, exp, obs)
        c = holder["cmp"]
        ok = c["frame"] is None and not c["bad"]
        return ok, (c["frame"] or ("%d row(s) differ from the documented meaning" % len(c["bad"]) if c["bad"] else ""))

    CB.ensure_attached()
    st = CB.state
    st.update({"active": be, "ops": ops, "check": check, "obs": None, "verdict": None})
    try:
        if be == "pandas":
            out = O.canon_out(C.run_pandas(ops, {"d": to_frame(tab["table"], tab["types"], "pandas")}))
        elif be == "polars":
            try:
                fr = to_frame(tab["table"], tab["types"], "polars")
            except Exception as e:  # polars cannot even hold the operands
                fr = None
                out = ("raise", type(e).__name__, str(e)[:200])
            if fr is not None:
                out = O.canon_out(C.run_polars(ops, {"d": fr}))
        else:
            ses = O.SqliteSession.get()
            sql = ses.sql_for(m.uid, ops)
            if sql[0] != "ok":
                out = sql
            else:
                ses.load("d", to_frame(tab["table"], tab["types"], "pandas"))
                out = O.canon_out(ses.read(sql[1]))
    finally:
        st["active"] = None
    wrap.take_failures()
    if st["verdict"] is None:
        if out[0] != "raise":
            raise wrap.HarnessError("the contract was not evaluated for %s on %s" % (m.uid, be))
        return {"obs": out, "status": "raise", "exp": exp}
    if st["obs"][0] != "ok":
        return {"obs": st["obs"], "status": "raise", "exp": exp}
    return {"obs": st["obs"], "status": "ok" if st["verdict"][0] else "fail", "cmp": holder["cmp"], "exp": exp}


def sub_table(m: O.Method, tab: Dict[str, Any], unit: int) -> Dict[str, Any]:
    """The table holding only operand row / group number `unit` (same column types)."""
    if not is_grouped(m):
        r = tab["rows"][unit]
        cols = ["a%d" % i for i in range(len(m.args))]
        return {"variant": tab["variant"], "types": tab["types"], "rows": [r], "table": dict({"rid": [0]}, **{c: [r[j]] for j, c in enumerate(cols)})}
    return group_table(m, [tab["seqs"][unit]])


def units(m: O.Method, tab: Dict[str, Any]) -> List[Any]:
    return list(tab["seqs"]) if is_grouped(m) else list(tab["rows"])


def eval_table(m: O.Method, tab: Dict[str, Any], be: str) -> List[Dict[str, Any]]:
    """Per-unit (operand row / group) results of one back end: [{'unit', 'operands', 'status': ok|fail|raise|skipped, 'detail', 'expected', 'observed'}].
    A table that makes the back end raise is re-run unit by unit (same column types) to find the units that raise."""
    us = units(m, tab)
    r = run_table(m, tab, be)
    out = []
    if r["status"] == "raise":
        if len(us) > 1:
            for i in range(len(us)):
                one = eval_table(m, sub_table(m, tab, i), be)[0]
                one["unit"] = i
                one["isolated"] = True
                out.append(one)
            return out
        st = "skipped" if be == "polars" else "raise"
        return [{"unit": 0, "operands": list(us[0]), "status": st, "detail": "%s: %s" % (r["obs"][1], r["obs"][2]), "raised": [r["obs"][1], r["obs"][2]]}]
    c = r["cmp"]
    for i, u in enumerate(us):
        ids = [k for k in r["exp"] if k[0] == i]
        if c["frame"] is not None:
            out.append({"unit": i, "operands": list(u), "status": "fail", "detail": c["frame"], "expected": None, "observed": None})
            continue
        bad = {k: c["bad"][k] for k in ids if k in c["bad"]}
        if bad:
            k0 = sorted(bad)[0]
            exp_l = [r["exp"][k] for k in sorted(ids)]
            obs_l = [bad[k][1] if k in bad else "=" for k in sorted(ids)]
            out.append({"unit": i, "operands": list(u), "status": "fail", "detail": "expected %r, observed %r" % (bad[k0][0], bad[k0][1]), "expected": exp_l, "observed": [c2 for c2 in _observed_values(r, ids)]})
        else:
            out.append({"unit": i, "operands": list(u), "status": "ok", "detail": ""})
    return out


def _observed_values(r, ids):
    obs = r["obs"]
    cols = obs[1]
    jr = cols.index("r")
    n = len(ids[0])
    idc = ["rid"] if "rid" in cols else (["g"] if n == 1 else ["g", "o"])
    idx = [cols.index(c) for c in idc]
    m_ = {tuple(int(row[i]) for i in idx): norm_cell(row[jr]) for row in obs[2]}
    return [m_.get(k) for k in sorted(ids)]


def backends_for(row: Dict[str, Any]) -> Dict[str, str]:
    """backend -> 'required' (catalog says y) | 'optional' (Polars: whenever it does not raise) | 'not-claimed'."""
    return {
        "pandas": "required" if row["Pandas"] == "y" else "not-claimed",
        "sqlite": "required" if row["SQLiteModel"] == "y" else "not-claimed",
        "polars": "optional",
    }


# --------------------------------------------------------------------------------------------------
# classification (narrow: method, operand shape and the exact wrong value of the known defect)
# --------------------------------------------------------------------------------------------------


def classify(m: O.Method, be: str, u: Dict[str, Any], case: Dict[str, Any]) -> str:
    ops_ = list(u["operands"]) + (list(m.consts) if m.cls == "e" else [])  # constants written into the expression are operands too
    exp, obs = u.get("expected"), u.get("observed")
    if u["status"] == "fail" and exp is not None and obs is not None:
        one_null = len(ops_) == 2 and (ops_[0] is None) != (ops_[1] is None)
        other = (ops_[1] if ops_[0] is None else ops_[0]) if one_null else None
        if m.cls == "e" and m.catalog_expr in ("row_id.fmax(x)", "row_id.fmin(x)") and be == "sqlite" and one_null and obs == [None]:
            # CASE WHEN x >= y THEN x WHEN NOT x >= y THEN y ELSE NULL: null as soon as one operand is null
            return "%s:sql_model._db_fmax_expr:fmax-fmin-null-operand" % PID
        if m.cls == "e" and m.catalog_expr in ("row_id.maximum(x)", "row_id.minimum(x)") and one_null and len(obs) == 1 and obs[0] is not None and C.values_equiv(obs[0], other):
            # the other operand instead of the documented missing value
            if be == "sqlite":
                return "%s:sql_model._db_maximum_expr:maximum-minimum-null-operand" % PID
            if be == "polars":
                return "%s:polars_model.PolarsModel.impl_map_arbitrary_arity:maximum-minimum-null-operand" % PID
        if m.catalog_expr == "x.nunique()" and be == "polars" and any(v is None for v in u["operands"]):
            # n_unique counts the missing value as an item: exactly one more than documented, on every row of the group
            if len(exp) == len(obs) and all(isinstance(o, int) and o == e + 1 for e, o in zip(exp, obs)):
                return "%s:polars_model._populate_expr_impl_map:nunique-counts-null" % PID
        if m.catalog_expr == "z.cumcount()" and be == "pandas" and obs == list(range(len(u["operands"]))):
            # pandas GroupBy.cumcount: 0-based position of the row in its partition, nulls counted
            return "%s:pandas_base.PandasModelBase._extend_step:cumcount-is-zero-based-row-position" % PID
        if m.catalog_expr == "g.trimstr(0, 2)" and be == "sqlite" and len(m.consts) == 2 and m.consts[0] > 0 and isinstance(u["operands"][0], str):
            # SUBSTR(x, 1 + start, stop): the exclusive stop position is used as a LENGTH
            a, (st, en) = u["operands"][0], m.consts
            if obs == [a[st : st + en]] and a[st : st + en] != a[st:en]:
                return "%s:sql_model._trimstr:stop-used-as-length" % PID
    if u["status"] == "raise" and u.get("raised"):
        if m.catalog_expr == "a.if_else(x, y)" and be == "pandas" and u["operands"][0] is None and m.consts and all(isinstance(c, int) for c in m.consts):
            # numpy.where(cond, 1, 2) is an integer array; writing None into it for the null condition raises
            if u["raised"][0] == "TypeError" and "int() argument must be" in u["raised"][1]:
                return "%s:pandas_base.PandasModelBase._if_else_expr:null-condition-with-integer-branches" % PID
    return "%s:unclassified:%s" % (PID, C.case_hash(dict(case, backend=be)))


# --------------------------------------------------------------------------------------------------
# driver
# --------------------------------------------------------------------------------------------------


def method_tables(m: O.Method, sc: Dict[str, Any]) -> List[Dict[str, Any]]:
    if not is_grouped(m):
        return scalar_tables(m)
    seqs = group_sequences(m)
    if m.cls == "e":  # whole-column sum: one table per group (a deterministic spread of them)
        step = max(1, len(seqs) // sc["whole_column_tables"])
        return [dict(group_table(m, [s]), variant="table%d" % i) for i, s in enumerate(seqs[::step])]
    return [group_table(m, seqs)]


def _worker(job):
    sc = job["sc"]
    dm = O.doc_meaning()
    rows = {r["key"]: r for r in catalog_rows()}
    out = []
    for key in job["keys"]:
        row = rows[key]
        for m in [dm[key]] + dm[key].variants:
            res = {"key": m.uid, "counts": collections.Counter(), "fails": [], "skip": m.skip, "note": m.note, "samples": []}
            if m.skip is None:
                bes = backends_for(row)
                for tab in method_tables(m, sc):
                    for be in BACKENDS:
                        if bes[be] == "not-claimed":
                            res["counts"]["%s:not-claimed" % be] += len(units(m, tab))
                            continue
                        try:
                            us = eval_table(m, tab, be)
                        except Exception as e:
                            import traceback

                            res["fails"].append({"harness": "%s: %s | %s" % (type(e).__name__, e, traceback.format_exc()[-600:]), "be": be})
                            continue
                        for u in us:
                            res["counts"]["%s:%s" % (be, u["status"])] += 1
                            if u["status"] in ("fail", "raise"):
                                case = {"method": key, "vid": m.vid, "variant": tab["variant"], "operands": u["operands"]}
                                res["fails"].append({"be": be, "status": u["status"], "detail": u["detail"][:300], "case": case, "key": classify(m, be, u, case), "expected": repr(u.get("expected"))[:200], "observed": repr(u.get("observed"))[:200], "step": describe(m)})
                        if be == "pandas" and not res["samples"] and us and us[-1]["status"] == "ok" and m.vid == "catalog":
                            res["samples"].append({"step": describe(m), "operands": us[-1]["operands"], "backend": be, "status": "ok"})
            res["counts"] = dict(res["counts"])
            out.append(res)
    return {"results": out, "wrap": wrap.snapshot()}


def bounded(rep: Report, tier: str, seed: int) -> None:
    t0 = time.time()
    sc = scope(tier)
    dm = O.doc_meaning()
    rows = catalog_rows()
    missing = [r["key"] for r in rows if r["key"] not in dm]
    if missing:
        rep.errors.append("catalog rows without a doc_meaning entry (catalog changed?): %r" % missing)
    keys = [r["key"] for r in rows if r["key"] in dm]
    jobs = [{"keys": ks, "sc": sc} for ks in C.shard(keys, 32) if ks]
    outs = O.run_parallel(_worker, jobs, chunksize=1)
    counts = collections.Counter()
    per_method = {}
    restrictions = {}
    skipped = {}
    for o in outs:
        wrap.merge(o["wrap"])
        for res in o["results"]:
            per_method[res["key"]] = res["counts"]
            if res["skip"]:
                skipped[res["key"]] = res["skip"]
            if res["note"]:
                restrictions[res["key"]] = res["note"]
            for k, v in res["counts"].items():
                counts[k] += v
            for s in res["samples"]:
                rep.add_sample(s)
            for f in res["fails"]:
                if "harness" in f:
                    rep.errors.append("harness error on %s %s: %s" % (res["key"], f["be"], f["harness"]))
                    continue
                what = "%s %s for %s with operands %r: %s" % (f["be"], "raised" if f["status"] == "raise" else "differs from the documented meaning", f["step"], f["case"]["operands"], f["detail"])
                rep.violations.append(Violation(key=f["key"], what=what, replay={"module": "cbc.c05", "case": dict(f["case"], backend=f["be"])}))
    rep.evaluations += sum(v for k, v in counts.items() if not k.endswith("not-claimed"))
    n_nontrivial = sum(v for k, v in counts.items() if k.split(":")[1] in ("ok", "fail"))
    rep.nontrivial_keys |= set((PID, i) for i in range(n_nontrivial))
    rep.violations.sort(key=lambda v: (len(v.replay["case"]["operands"]), sum(1 for x in v.replay["case"]["operands"] if x is None), v.key, len(repr(v.replay["case"]["operands"])), repr(v.replay["case"])))
    O.cap_unclassified(rep)
    wrap.require_evaluated(rep, CB.names())
    rep.extra["status_counts"] = dict(sorted(counts.items()))
    rep.extra["methods"] = len(keys)
    rep.extra["constant_parameter_variants"] = sum(len(dm[k].variants) for k in keys)
    rep.extra["domain_restrictions"] = dict(sorted(restrictions.items()))
    rep.extra["methods_without_comparable_documentation"] = dict(sorted(skipped.items()))
    rep.extra["postgresql"] = "PostgreSQLModel column of the catalog: not executable here, skipped for all %d rows" % len(rows)
    rep.extra["per_method_counts"] = {k: per_method[k] for k in sorted(per_method)}
    rep.extra["contract_evaluations"] = dict(wrap.EVALS)
    print("C05 bounded: %d catalogued methods %s in %.1fs" % (len(keys), dict(sorted(counts.items())), time.time() - t0), file=sys.stderr)


def replay_case(case: Dict[str, Any]) -> bool:
    """Re-run the operand table of one stored case natively; print what was observed for the stored operands."""
    dm = O.doc_meaning()
    m = [x for x in [dm[case["method"]]] + dm[case["method"]].variants if x.vid == case.get("vid", "catalog")][0]
    row = {r["key"]: r for r in catalog_rows()}[case["method"]]
    print("step:", describe(m), " (catalog row %r, Pandas=%s SQLiteModel=%s)" % (row["expression"], row["Pandas"], row["SQLiteModel"]))
    tabs = [t for t in method_tables(m, scope("thorough")) if t["variant"] == case["variant"]] or method_tables(m, scope("thorough"))
    bad = False
    for tab in tabs:
        us = units(m, tab)
        want = [i for i, u in enumerate(us) if [O_repr(x) for x in u] == [O_repr(x) for x in case["operands"]]]
        if not want:
            continue
        for be in BACKENDS:
            if case.get("backend") and be != case["backend"]:
                continue
            res = eval_table(m, tab, be)
            for u in res:
                if u["unit"] in want:
                    print("%s: operands %r -> documented %r, observed %r%s" % (be, u["operands"], u.get("expected"), u.get("observed"), (" RAISED " + repr(u.get("raised"))) if u.get("raised") else ""))
                    key = classify(m, be, u, {"method": m.key, "vid": m.vid, "variant": tab["variant"], "operands": u["operands"]}) if u["status"] in ("fail", "raise") else ""
                    print("%s verdict: %s %s %s" % (be, u["status"], key, u["detail"]))
                    bad = bad or u["status"] in ("fail", "raise")
    return bad


def O_repr(x):
    """Operands survive a JSON round trip as plain values (dates as repr strings)."""
    if isinstance(x, (datetime.date, datetime.datetime)):
        return repr(x)
    if isinstance(x, (int, float)) and not isinstance(x, bool):
        return repr(float(x))  # keeps -0.0 apart from 0.0
    return x
