"""C22 bounded check: schema-check decorators raise exactly on schema violations.

The real decorators (data_algebra.data_schema.SchemaRaises / SchemaMock / SchemaCheckSwitch) are run over an
enumerated scope of (specification, call) pairs; "raises TypeError" is compared with an oracle written from the
property statement (`expected_violation` below), the returned object is compared by identity with the wrapped
function's own result, and every case is repeated with checking switched off (must never raise).

Decisions of the oracle (each taken from what data_schema.py documents):

* a specification is normalised independently of the library (`norm_spec`): a type declares itself, an example
  value declares its own type (1 -> int, 'a' -> str), a set declares the union of what its members declare, a dict
  declares a data frame with AT LEAST the named columns, each column with its own type set; None = no constraint.
* "has one of the declared types" is Python's isinstance.  So a bool satisfies a declared int (bool is a subclass
  of int), an int does not satisfy a declared float, numpy.float64 satisfies float (it is a subclass) and
  numpy.int64 does not satisfy int.
* the values of a frame column are the objects the frame hands out when the column is iterated (this is how the
  library's own `non_null_types_in_frame` documents "the types seen in a column"): int64 -> int, float64 -> float,
  bool -> bool, str -> str, object -> the stored objects, pandas nullable Int64 -> numpy.int64.
* null cells (None, NaN, pandas.NA, NaT) have no type and never violate; a column with only nulls, and a frame with
  no rows, conform to every column specification.  Extra frame columns are allowed ("at least declared columns").
* a scalar None passed for a declared argument (or returned under a return specification) is NOT exempt: the
  docstring treats nulls "as missingness", None is not an instance of any declared type of the scope and is not a
  data frame -- expected outcome TypeError, like a missing argument.
* a declared argument that the call does not pass (the function's default is used) is missing -> TypeError.
* omitting arg_specs (the documented default None = "no constraint") declares no argument.
"""
from __future__ import annotations

import hashlib
import itertools
import json
import warnings
from typing import Any, Dict, List, Optional, Tuple

from vlib.core import Report, Violation

warnings.filterwarnings("ignore")

MAX_UNCLASSIFIED_WITNESSES = 40  # replay files written for unclassified failures per run (all failures are counted in the evidence)

FUNCTIONS_UNDER_CONTRACT = [
    {"function": "data_algebra.data_schema.SchemaRaises.__call__ (wrapped_fn)", "contract": "raises TypeError iff expected_violation(spec, call); else returns the wrapped function's own object"},
    {"function": "data_algebra.data_schema.SchemaRaises.check_args / check_return / _check_spec / _check_data_frame_matches_schema", "contract": "reached through wrapped_fn"},
    {"function": "data_algebra.data_schema._prep_schema_specification", "contract": "example values, alone or inside sets / column specs, declare their own types (observed through wrapped_fn)"},
    {"function": "data_algebra.data_schema.SchemaCheckSwitch.on / off / is_on", "contract": "off => wrapped_fn never raises and returns the wrapped function's own object"},
    {"function": "data_algebra.data_schema.SchemaMock.__call__", "contract": "returns the function itself"},
]

NAN = "__nan__"
NA = "__pd.NA__"

# ---------------------------------------------------------------------------------------------------------------
# specifications (plain-data descriptors) : decode for the library, normalise for the oracle
# ---------------------------------------------------------------------------------------------------------------

_TYPES = {"int": int, "str": str, "float": float}

#: the ten specifications of the stated scope (+ None = no constraint)
SPECS: List[Any] = [
    None,
    "T:int",
    "T:str",
    "T:float",
    "E:1",
    "E:a",
    {"set": ["T:int", "T:str"]},
    {"set": ["E:1", "E:a"]},
    {"dict": {"x": "T:int"}},
    {"dict": {"x": {"set": ["T:int", "T:float"]}, "y": "T:str"}},
    {"dict": {"x": "E:1"}},
]


def more_specs() -> List[Any]:
    """thorough tier: every further specification of depth <= 2 over the same atoms: all 1- and 2-element sets of atoms,
    and one- / two-column frame specifications whose columns carry an atom or a 2-element set."""
    atoms = ["T:int", "T:str", "T:float", "E:1", "E:a"]
    out: List[Any] = []
    sets = [{"set": [a]} for a in atoms] + [{"set": [a, b]} for a, b in itertools.combinations(atoms, 2)]
    out += sets
    col_specs = atoms + [{"set": [a, b]} for a, b in (("T:int", "T:float"), ("E:1", "E:a"), ("T:str", "E:1"))] + [None]
    for cs in col_specs:
        out.append({"dict": {"x": cs}})
    for cx, cy in itertools.product(["T:int", "E:a", {"set": ["E:1", "T:float"]}], ["T:str", "E:1", None]):
        out.append({"dict": {"x": cx, "y": cy}})
    seen = {json.dumps(s, sort_keys=True) for s in SPECS}
    res = []
    for s in out:
        k = json.dumps(s, sort_keys=True)
        if k not in seen:
            seen.add(k)
            res.append(s)
    return res


def decode_spec(desc: Any) -> Any:
    """descriptor -> the Python object handed to the library."""
    if desc is None:
        return None
    if isinstance(desc, str):
        kind, _, name = desc.partition(":")
        if kind == "T":
            return _TYPES[name]
        if kind == "E":
            return 1 if name == "1" else name
        raise ValueError(desc)
    if "set" in desc:
        return {decode_spec(d) for d in desc["set"]}
    if "dict" in desc:
        return {k: decode_spec(v) for k, v in desc["dict"].items()}
    raise ValueError(desc)


def norm_spec(desc: Any) -> Any:
    """ORACLE normal form (independent of _prep_schema_specification):
    None | frozenset of types | {"columns": {name: None | frozenset of types}}."""
    if desc is None:
        return None
    if isinstance(desc, str):
        kind, _, name = desc.partition(":")
        if kind == "T":
            return frozenset([_TYPES[name]])
        return frozenset([int if name == "1" else str])  # an example value declares its own type
    if "set" in desc:
        out = set()
        for d in desc["set"]:
            n = norm_spec(d)
            if n is not None:
                out |= set(n)
        return frozenset(out)
    if "dict" in desc:
        return {"columns": {k: norm_spec(v) for k, v in desc["dict"].items()}}
    raise ValueError(desc)


# ---------------------------------------------------------------------------------------------------------------
# values
# ---------------------------------------------------------------------------------------------------------------

SCALARS: List[Any] = [{"v": 1}, {"v": "a"}, {"v": 2.5}, {"v": None}, {"v": True}]

# column variants: name -> (pandas dtype | None, polars dtype | None, two values)
_X_VARIANTS: List[Tuple[str, Optional[str], Optional[str], List[Any]]] = [
    ("int", "int64", "Int64", [1, 2]),
    ("float", "float64", "Float64", [1.5, 2.0]),
    ("str", "str", "String", ["a", "b"]),
    ("bool", "bool", "Boolean", [True, False]),
    ("int_null", "object", "Int64", [1, None]),  # null-containing, the non-null value is an int
    ("intlike_float_null", "float64", "Float64", [1.0, NAN]),  # what pandas makes of [1, None]: a float column
    ("str_null", "str", "String", [None, "a"]),
    ("all_null", "object", "Int64", [None, None]),
    ("all_nan", "float64", "Float64", [NAN, NAN]),
    ("mixed", "object", None, [1, "a"]),
    ("nullable_Int64", "Int64", None, [1, NA]),  # iterates as numpy.int64 / pandas.NA
    ("np_scalars", "object", None, ["np.float64:1.5", "np.int64:1"]),
    ("missing", None, None, []),
]
_Y_VARIANTS: List[Tuple[str, Optional[str], Optional[str], List[Any]]] = [
    ("str", "str", "String", ["a", "b"]),
    ("int", "int64", "Int64", [1, 2]),
    ("str_null", "str", "String", ["a", None]),
    ("missing", None, None, []),
]


def frame_pool() -> List[Dict[str, Any]]:
    """pandas and polars frames with <= 2 rows: column x right / wrong / missing / null-containing / all-null,
    column y likewise, with and without an extra column w; 2-row frames for the full product, 1-row and 0-row
    frames for the plain variants."""
    out = []
    for lib, di in (("pandas", 1), ("polars", 2)):
        for xv, yv, extra in itertools.product(_X_VARIANTS, _Y_VARIANTS, (False, True)):
            if xv[di] is None and xv[0] != "missing":
                continue
            cols = []
            if xv[0] != "missing":
                cols.append(["x", xv[di], list(xv[3])])
            if yv[0] != "missing":
                cols.append(["y", yv[di], list(yv[3])])
            if extra:
                cols.append(["w", "int64" if lib == "pandas" else "Int64", [0, 0]])
            out.append({"lib": lib, "nrows": 2, "cols": cols, "tag": "x=%s y=%s%s" % (xv[0], yv[0], " +w" if extra else "")})
        for n in (1, 0):
            for xv, yv in itertools.product(_X_VARIANTS[:3] + _X_VARIANTS[-1:], (_Y_VARIANTS[0], _Y_VARIANTS[1], _Y_VARIANTS[-1])):
                cols = []
                if xv[0] != "missing":
                    cols.append(["x", xv[di], list(xv[3][:n])])
                if yv[0] != "missing":
                    cols.append(["y", yv[di], list(yv[3][:n])])
                out.append({"lib": lib, "nrows": n, "cols": cols, "tag": "x=%s y=%s rows=%d" % (xv[0], yv[0], n)})
    return out


def small_frame_pool(pool: List[Dict[str, Any]]) -> List[Dict[str, Any]]:
    """representative frames for the two-argument product."""
    want = [
        ("pandas", "x=int y=str"),
        ("pandas", "x=float y=missing"),
        ("pandas", "x=missing y=str"),
        ("pandas", "x=int_null y=int +w"),
        ("pandas", "x=all_null y=str_null"),
        ("polars", "x=int y=str"),
        ("polars", "x=str y=missing +w"),
        ("polars", "x=int_null y=str_null"),
    ]
    return [f for f in pool if (f["lib"], f["tag"]) in want]


def _decode_cell(v: Any) -> Any:
    import numpy

    if isinstance(v, str):
        if v == NAN:
            return float("nan")
        if v == NA:
            import pandas

            return pandas.NA
        if v.startswith("np.float64:"):
            return numpy.float64(v.split(":", 1)[1])
        if v.startswith("np.int64:"):
            return numpy.int64(v.split(":", 1)[1])
    return v


_FRAME_CACHE: Dict[str, Any] = {}


def decode_value(desc: Dict[str, Any]) -> Any:
    """descriptor -> Python value / pandas frame / polars frame (frames are cached: nothing here mutates them)."""
    if "v" in desc:
        return desc["v"]
    key = json.dumps(desc, sort_keys=True)
    if key in _FRAME_CACHE:
        return _FRAME_CACHE[key]
    if desc["lib"] == "pandas":
        import pandas

        data = {}
        for name, dtype, vals in desc["cols"]:
            data[name] = pandas.Series([_decode_cell(v) for v in vals], dtype=dtype, index=range(desc["nrows"]))
        fr = pandas.DataFrame(data, index=range(desc["nrows"]))
    else:
        import polars as pl

        data = {}
        for name, dtype, vals in desc["cols"]:
            data[name] = pl.Series(name, [_decode_cell(v) for v in vals], dtype=getattr(pl, dtype), strict=False)
        fr = pl.DataFrame(data)
    _FRAME_CACHE[key] = fr
    return fr


# ---------------------------------------------------------------------------------------------------------------
# the oracle
# ---------------------------------------------------------------------------------------------------------------


def is_null_cell(v: Any) -> bool:
    import pandas

    if v is None or v is pandas.NA or v is pandas.NaT:
        return True
    if isinstance(v, float) and v != v:
        return True
    return False


def _is_frame(v: Any) -> bool:
    mod = type(v).__module__.split(".")[0]
    return type(v).__name__ == "DataFrame" and mod in ("pandas", "polars")


def conforms(value: Any, nspec: Any) -> Tuple[bool, str]:
    """does `value` conform to the normalised specification? (True, '') or (False, reason)."""
    if nspec is None:
        return True, ""
    if isinstance(nspec, frozenset):
        if value is None:
            return False, "no value (None) where %s is declared" % sorted(t.__name__ for t in nspec)
        if any(isinstance(value, t) for t in nspec):
            return True, ""
        return False, "value of type %s has none of the declared types %s" % (type(value).__name__, sorted(t.__name__ for t in nspec))
    cols = nspec["columns"]
    if not _is_frame(value):
        return False, "declared data-frame columns %s missing: value of type %s is not a data frame" % (sorted(cols), type(value).__name__)
    have = [str(c) for c in value.columns]
    for c, cs in cols.items():
        if c not in have:
            return False, "declared column %r missing" % c
        if cs is None:
            continue
        for cell in value[c]:  # the objects the frame hands out on iteration
            if is_null_cell(cell):
                continue
            if not any(isinstance(cell, t) for t in cs):
                return False, "column %r holds a non-null %s, declared %s" % (c, type(cell).__name__, sorted(t.__name__ for t in cs))
    return True, ""


def expected_violation(case: Dict[str, Any], ret_value: Any, args: List[Any], kwargs: Dict[str, Any]) -> Tuple[bool, str]:
    """the property's 'raises TypeError exactly when': a declared argument is missing / a declared frame column is
    missing / a non-null value has none of the declared types (arguments first, then the return value)."""
    params = case["params"]
    passed: Dict[str, Any] = {}
    for i, a in enumerate(args):
        passed[params[i]] = a
    passed.update(kwargs)
    arg_specs = case["arg_specs"]
    if arg_specs is not None:
        for name, sd in arg_specs.items():
            if name not in passed:
                return True, "declared argument %r missing" % name
            ok, why = conforms(passed[name], norm_spec(sd))
            if not ok:
                return True, "argument %r: %s" % (name, why)
    ok, why = conforms(ret_value, norm_spec(case["return_spec"]))
    if not ok:
        return True, "return value: " + why
    return False, ""


# ---------------------------------------------------------------------------------------------------------------
# running one case on the real decorators
# ---------------------------------------------------------------------------------------------------------------

_DEFAULT = object()


def _make_fn(params: List[str], ret: Any):
    """the undecorated function: every parameter has a default, so a call that omits a declared argument is a legal call"""
    if params == ["x"]:

        def fn(x=_DEFAULT):
            return ret

    elif params == ["x", "y"]:

        def fn(x=_DEFAULT, y=_DEFAULT):
            return ret

    elif params == []:

        def fn():
            return ret

    else:
        raise ValueError(params)
    return fn


def run_case(case: Dict[str, Any]) -> Tuple[Optional[str], Dict[str, Any]]:
    """Run one case natively.  Returns (None | description of the disagreement, observation dict)."""
    import data_algebra.data_schema as ds

    args = [decode_value(d) for d in case["args"]]
    kwargs = {k: decode_value(d) for k, d in case["kwargs"].items()}
    ret = decode_value(case["ret"]) if case["ret"] is not None else object()
    fn = _make_fn(list(case["params"]), ret)
    obs: Dict[str, Any] = {}
    sw = ds.SchemaCheckSwitch()
    was_on = sw.is_on()
    try:
        (sw.on if case["switch"] == "on" else sw.off)()
        ctor_kwargs = {}
        if case["return_spec"] is not None:
            ctor_kwargs["return_spec"] = decode_spec(case["return_spec"])
        deco_cls = getattr(ds, case["decorator"])
        try:
            if case["arg_specs"] is None:
                deco = deco_cls(**ctor_kwargs)  # arg_specs omitted: documented default
            else:
                deco = deco_cls({k: decode_spec(v) for k, v in case["arg_specs"].items()}, **ctor_kwargs)
            wrapped = deco(fn)
        except Exception as e:  # building a decorator from an in-scope specification must not fail
            obs = {"outcome": "decorate-raise", "type": type(e).__name__, "msg": str(e)[:200]}
            return "building the decorator raised %s: %s" % (type(e).__name__, str(e)[:160]), obs
        if case["decorator"] == "SchemaMock" and wrapped is not fn:
            obs = {"outcome": "mock-not-identity"}
            return "SchemaMock(...)(fn) is not fn", obs
        try:
            out = wrapped(*args, **kwargs)
            obs = {"outcome": "ok", "identity": out is ret}
        except Exception as e:
            obs = {"outcome": "raise", "type": type(e).__name__, "msg": str(e)[:200].replace("\n", " ")}
    finally:
        (sw.on if was_on else sw.off)()
    checking = case["switch"] == "on" and case["decorator"] == "SchemaRaises"
    viol, why = expected_violation(case, ret, args, kwargs) if checking else (False, "")
    obs["expected"] = "TypeError (%s)" % why if viol else "returns the function's own result"
    if viol:
        if obs["outcome"] == "raise" and obs["type"] == "TypeError":
            return None, obs
        if obs["outcome"] == "raise":
            return "schema violation (%s) raised %s instead of TypeError: %s" % (why, obs["type"], obs["msg"]), obs
        return "schema violation not reported: %s; the call returned normally" % why, obs
    if obs["outcome"] == "raise":
        reason = "checking is switched off" if case["switch"] == "off" else ("SchemaMock never checks" if case["decorator"] == "SchemaMock" else "the call conforms to the specification")
        return "raised %s although %s: %s" % (obs["type"], reason, obs["msg"]), obs
    if not obs["identity"]:
        return "returned an object that is not the wrapped function's own result", obs
    return None, obs


def classify(case: Dict[str, Any], obs: Dict[str, Any]) -> str:
    """no defect of the current tree is recorded for C22 (the set-specification and the omitted-arg_specs defects are fixed
    in /repo): every failing case is unclassified."""
    return "C22:unclassified:" + case_hash(case)


def case_hash(case: Dict[str, Any]) -> str:
    return hashlib.sha256(json.dumps(case, sort_keys=True, default=repr).encode()).hexdigest()[:8]


# ---------------------------------------------------------------------------------------------------------------
# enumeration
# ---------------------------------------------------------------------------------------------------------------


def _case(decorator, switch, params, arg_specs, return_spec, args, kwargs, ret) -> Dict[str, Any]:
    return {
        "decorator": decorator,
        "switch": switch,
        "params": params,
        "arg_specs": arg_specs,
        "return_spec": return_spec,
        "args": args,
        "kwargs": kwargs,
        "ret": ret,
    }


def enumerate_cases(tier: str, seed: int):
    """yield (group, case).  Every case is generated for switch on and switch off."""
    specs = list(SPECS) + (more_specs() if tier == "thorough" else [])
    frames = frame_pool()
    values = SCALARS + frames
    small = SCALARS + small_frame_pool(frames)
    core = list(SPECS)

    def both(group, params, arg_specs, return_spec, args, kwargs, ret):
        for sw in ("on", "off"):
            yield group, _case("SchemaRaises", sw, params, arg_specs, return_spec, args, kwargs, ret)

    # one declared argument: positional, by keyword, not passed
    for s in specs:
        for v in values:
            yield from both("one-arg", ["x"], {"x": s}, None, [v], {}, None)
            yield from both("one-arg", ["x"], {"x": s}, None, [], {"x": v}, None)
        yield from both("one-arg", ["x"], {"x": s}, None, [], {}, None)
    # return value: arg_specs omitted / empty / a conforming and a violating declared argument
    for s in specs:
        for v in values:
            yield from both("return", [], None, s, [], {}, v)
            yield from both("return", [], {}, s, [], {}, v)
            yield from both("return", ["x"], {"x": "T:int"}, s, [{"v": 1}], {}, v)
        for v in small:
            yield from both("return", ["x"], {"x": "E:1"}, s, [{"v": "a"}], {}, v)
            yield from both("return", ["x"], None, s, [{"v": 1}], {}, v)
    # two declared arguments: all pairs of core specifications x representative values x call styles
    pairs = list(itertools.product(core, core))
    vals2 = list(itertools.product(small, small))
    if tier == "quick":
        # every specification pair, the value pairs sharded 1/3 (rotated by the seed)
        vals2 = [vv for i, vv in enumerate(vals2) if (i + seed) % 3 == 0]
    for sx, sy in pairs:
        for vx, vy in vals2:
            yield from both("two-args", ["x", "y"], {"x": sx, "y": sy}, None, [vx, vy], {}, None)
            yield from both("two-args", ["x", "y"], {"x": sx, "y": sy}, None, [vx], {"y": vy}, None)
            yield from both("two-args", ["x", "y"], {"x": sx, "y": sy}, None, [], {"y": vy, "x": vx}, None)
        for vx in small:
            yield from both("two-args", ["x", "y"], {"x": sx, "y": sy}, None, [vx], {}, None)  # y not passed
    for sx in core:
        for vx in small:
            yield from both("two-args", ["x", "y"], {"x": sx}, None, [vx, {"v": 2.5}], {}, None)  # y undeclared: unconstrained
    # SchemaMock: builds the schema, returns the function itself, never raises
    for s in specs:
        for v in small:
            yield "mock", _case("SchemaMock", "on", ["x"], {"x": s}, s, [v], {}, v)
            yield "mock", _case("SchemaMock", "on", ["x"], None, s, [v], {}, v)


def scope_sizes(tier: str) -> Dict[str, int]:
    frames = frame_pool()
    return {
        "specifications": len(SPECS) + (len(more_specs()) if tier == "thorough" else 0),
        "frames": len(frames),
        "pandas_frames": sum(1 for f in frames if f["lib"] == "pandas"),
        "polars_frames": sum(1 for f in frames if f["lib"] == "polars"),
        "scalars": len(SCALARS),
        "two_arg_values": len(SCALARS) + len(small_frame_pool(frames)),
    }


def _short(case: Dict[str, Any]) -> str:
    def vs(d):
        return repr(d["v"]) if "v" in d else "<%s frame %s>" % (d["lib"], d["tag"])

    call = ", ".join([vs(a) for a in case["args"]] + ["%s=%s" % (k, vs(v)) for k, v in case["kwargs"].items()])
    return "%s(arg_specs=%s, return_spec=%s) on f(%s)%s [switch %s]" % (
        case["decorator"],
        "<omitted>" if case["arg_specs"] is None else json.dumps(case["arg_specs"]),
        json.dumps(case["return_spec"]),
        call,
        (" returning " + vs(case["ret"])) if case["ret"] is not None else "",
        case["switch"],
    )


def bounded(rep: Report, tier: str, seed: int) -> None:
    per_key: Dict[str, int] = {}
    n_unclassified = 0
    groups: Dict[str, int] = {}
    outcomes = {"expected-raise": 0, "expected-return": 0}
    seen = set()
    for group, case in enumerate_cases(tier, seed):
        h = case_hash(case)
        if h in seen:  # the enumeration may produce a case twice (e.g. the None specification); run it once
            continue
        seen.add(h)
        try:
            msg, obs = run_case(case)
        except Exception as e:  # harness failure: never a verdict
            rep.errors.append("c22 harness error on %s: %r" % (_short(case), e))
            continue
        groups[group] = groups.get(group, 0) + 1
        outcomes["expected-raise" if obs.get("expected", "").startswith("TypeError") else "expected-return"] += 1
        rep.case(h, nontrivial=True)  # every case is compared with the oracle
        if groups[group] in (7, 400) and len(rep.samples) < 8:
            rep.add_sample({"case": _short(case), "observed": obs})
        if msg:
            key = classify(case, obs)
            per_key[key] = per_key.get(key, 0) + 1
            n_unclassified += ":unclassified:" in key
            # every failing case is counted (rep.extra); at most 2 witnesses per classified key and MAX_UNCLASSIFIED_WITNESSES unclassified ones are stored
            if per_key[key] <= 2 and not (":unclassified:" in key and n_unclassified > MAX_UNCLASSIFIED_WITNESSES):
                rep.violations.append(Violation(key=key, what="%s: %s" % (_short(case), msg), replay={"module": "cbc.c22", "case": case}))
    rep.extra["c22_cases_by_group"] = groups
    rep.extra["c22_expected_outcomes"] = outcomes
    rep.extra["c22_failing_cases_by_key"] = dict(sorted(per_key.items()))
    rep.extra["c22_scope"] = scope_sizes(tier)
    rep.violations.sort(key=lambda v: (v.key, len(json.dumps(v.replay["case"], default=repr))))


def replay_case(case: Dict[str, Any]) -> bool:
    msg, obs = run_case(case)
    print("case:", _short(case))
    print("observed:", obs)
    print(msg or "case passes on this tree")
    return bool(msg)
