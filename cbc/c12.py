"""C12 (bounded): printed pipelines rebuild to equal pipelines with identical results.

Contract on the REAL printers / re-evaluators

    for F in { to_python(pretty=False), to_python(pretty=True), repr() }:
        rebuilt = data_algebra.expr_parse_fn.eval_da_ops(F(ops), data_model_map=None)
    and rebuilt = pickle.loads(pickle.dumps(ops)):
        post:  rebuilt == ops
               rebuilt.to_python() == ops.to_python()
               rebuilt.eval(tables) equals ops.eval(tables) on every table of a small grid
               (same columns in the same order, same rows in the same order; or both raise)

Pipelines are built from plain-data specs: expression ASTs are turned into pipelines both through the text
parser (fully parenthesised text) and through the Python API (Term operator overloads / methods); a
route is skipped only when it yields a structurally identical pipeline (own structural dump + identical
to_python text).
"""
from __future__ import annotations

import collections
import json
import pickle
import sys
import time
import traceback
from typing import Any, Dict, List, Optional, Tuple

from vlib.core import Report, Violation
from cbc import common as C
from cbc import oracles_c as O

PID = "C12"
FORMATS = ("plain", "pretty", "repr", "pickle")

FUNCTIONS_UNDER_CONTRACT = [
    {"file": "data_algebra/view_representations.py", "function": "ViewRepresentation.to_python"},
    {"file": "data_algebra/view_representations.py", "function": "ViewRepresentation.__repr__"},
    {"file": "data_algebra/view_representations.py", "function": "*.to_python_src_"},
    {"file": "data_algebra/expr_rep.py", "function": "Expression.to_python"},
    {"file": "data_algebra/expr_rep.py", "function": "Value.to_python"},
    {"file": "data_algebra/expr_parse_fn.py", "function": "eval_da_ops"},
    {"file": "data_algebra/parse_by_lark.py", "function": "parse_by_lark"},
    {"file": "data_algebra/cdata.py", "function": "RecordMap.__repr__"},
]

D_COLS = list(C.SCHEMAS["d"].keys())  # g k x y

# --------------------------------------------------------------------------------------------------
# case generation
# --------------------------------------------------------------------------------------------------

AGG_PROJECT = [
    "x.sum()", "x.mean()", "x.min()", "x.max()", "x.count()", "x.size()", "_size()", "_count()", "x.median()", "x.std()", "x.var()",
    "x.nunique()", "x.any_value()", "x.first()", "x.last()", "g.max()", "(1).sum()", "(-1).sum()", "(0.5).max()", "k.sum()",
]  # fmt: skip
AGG_WINDOW = [
    ("x.sum()", {}), ("x.mean()", {}), ("x.max()", {}), ("x.min()", {}), ("x.count()", {}), ("_size()", {}), ("x.std()", {}),
    ("x.median()", {}), ("x.nunique()", {}), ("(1).sum()", {}), ("(-1).sum()", {}),
    ("x.cumsum()", {"order_by": ["y"]}), ("x.cummax()", {"order_by": ["y"]}), ("x.cummin()", {"order_by": ["y"]}),
    ("x.cumprod()", {"order_by": ["y"]}), ("x.cumcount()", {"order_by": ["y"]}),
    ("x.shift()", {"order_by": ["y"]}), ("x.shift(1)", {"order_by": ["y"]}), ("x.shift(2)", {"order_by": ["y"]}),
    ("x.shift(-1)", {"order_by": ["y"]}), ("x.shift(-2)", {"order_by": ["y"], "reverse": ["y"]}),
    ("_row_number()", {"order_by": ["y"]}), ("_row_number()", {"order_by": ["y", "x"], "reverse": ["x"]}),
    ("x.rank()", {"order_by": ["y"]}), ("x.first()", {"order_by": ["y"]}), ("x.last()", {"order_by": ["y"]}),
    ("x.bfill()", {"order_by": ["y"]}), ("x.ffill()", {"order_by": ["y"]}), ("_ngroup()", {}),
]  # fmt: skip


def _d_spec(steps):
    return {"table": "d", "cols": D_COLS, "steps": steps}


def _expr_cases(tier: str, seed: int) -> List[Dict[str, Any]]:
    out = []

    def add(eid, rtype, ast, depth):
        e = {"ast": ast}
        out.append({"kind": "expr", "id": "extend:" + eid, "depth": depth, "spec": _d_spec([["extend", {"ops": {"r": e}}]])})
        if rtype == "B":
            out.append({"kind": "expr", "id": "select_rows:" + eid, "depth": depth, "spec": _d_spec([["select_rows", {"expr": e}]])})

    n1 = collections.Counter()
    for eid, rtype, ast in O.gen_depth1(wide=(tier == "thorough")):
        n1[eid] += 1
        add("%s#%d" % (eid, n1[eid]), rtype, ast, 1)
    for eid, rtype, ast in O.gen_depth2(both_children=True):
        add(eid, rtype, ast, 2)
    if tier == "thorough":
        roots = {"b+", "b-", "b*", "b/", "b//", "b%", "b**", "neg", "c<", "c==", "land", "lor", "l&", "not", "m.sin", "m.if_else", "m.maximum", "m.is_null", "f.sin", "m.concat", "s=="}
        d3 = [t for t in O.gen_depth3() if t[0].split("@")[0] in roots]
        for eid, rtype, ast in d3:
            add(eid, rtype, ast, 3)
    # non-finite float constants (a float constant is a float constant)
    for nm, v in (("inf", float("inf")), ("-inf", float("-inf")), ("nan", float("nan"))):
        out.append({"kind": "expr", "id": "extend:const-" + nm, "depth": 1, "only_route": "A", "spec": _d_spec([["extend", {"ops": {"r": {"ast": ["b", "+", ["c", "x"], ["v", v]], "route": "A"}}}]])})
    # finite float constants whose shortest repr needs up to 17 significant digits, and extreme magnitudes
    for i, v in enumerate((1 / 3, 0.1 + 0.2, 1e-17, 5e-324, 1.7976931348623157e308, 2.0 ** 53, 123456789.12345678, -2 / 3, 1e22, 1.5e-7)):
        for op in ("+", "*"):
            out.append({"kind": "expr", "id": "extend:const-float%d%s" % (i, op), "depth": 1, "only_route": "A", "spec": _d_spec([["extend", {"ops": {"r": {"ast": ["b", op, ["c", "x"], ["v", v]], "route": "A"}}}]])})
        out.append({"kind": "expr", "id": "select_rows:const-float%d" % i, "depth": 1, "only_route": "A", "spec": _d_spec([["select_rows", {"expr": {"ast": ["b", "<", ["c", "x"], ["v", v]], "route": "A"}}]])})
    # aggregates in project / windowed extend
    for i, a in enumerate(AGG_PROJECT):
        for gb in ([], ["g"], ["g", "k"]):
            out.append({"kind": "expr", "id": "project:%s:%s" % (a, "+".join(gb)), "depth": 1, "only_route": "T", "spec": _d_spec([["project", {"ops": {"r": a}, "group_by": gb}]])})
    for i, (a, kw) in enumerate(AGG_WINDOW):
        for part in (["g"], 1, ["g", "k"]):
            p = {"ops": {"r": a}, "partition_by": part}
            p.update(kw)
            out.append({"kind": "expr", "id": "window:%s:%r:%s" % (a, part, sorted(kw.items())), "depth": 1, "only_route": "T", "spec": _d_spec([["extend", p]])})
    # several assignments in one step, list form of select_rows
    out.append({"kind": "expr", "id": "extend:multi", "depth": 1, "only_route": "T", "spec": _d_spec([["extend", {"ops": {"r": "y + k", "s": "y - -3", "x": "x * 2", "t": "g == 'it\\'s'"}}]])})
    out.append({"kind": "expr", "id": "select_rows:list", "depth": 1, "only_route": "T", "spec": _d_spec([["select_rows", {"expr": ["x > 0", "y <= 1", "g == 'a'"]}]])})
    return out


def _tab(name, quals=None):
    s = {"table": name, "cols": list(C.SCHEMAS[name].keys()), "steps": []}
    if quals:
        s["quals"] = quals
    return s


def _node_cases() -> List[Dict[str, Any]]:
    out = []

    def add(nid, steps, table="d", quals=None):
        s = _tab(table, quals)
        s["steps"] = steps
        out.append({"kind": "node", "id": nid, "depth": len(steps), "spec": s})

    add("table", [])
    add("table:qualifiers", [], quals={"schema": "s1"})
    add("table:qualifiers2", [["extend", {"ops": {"r": "x + 1"}}]], quals={"schema": "it's", "db": 'q"q'})
    for jt in ("inner", "left", "right", "full", "outer", "cross", "INNER", "Left"):
        if jt.lower() != "cross":
            add("join:%s:k" % jt, [["natural_join", {"b": _tab("e"), "on": ["k"], "jointype": jt}]])
            add("join:%s:k-k2" % jt, [["natural_join", {"b": _tab("h"), "on": [["k", "k2"]], "jointype": jt}]])
            add("join:%s:dict" % jt, [["natural_join", {"b": _tab("h"), "on": {"k": "k2"}, "jointype": jt}]])
            add("join:%s:overlap" % jt, [["natural_join", {"b": _tab("c"), "on": ["k"], "jointype": jt}]])
            add("join:%s:two-keys" % jt, [["natural_join", {"b": _tab("f"), "on": ["g", "k"], "jointype": jt}]])
            add("join:%s:mixed-keys" % jt, [["rename_columns", {"map": {"k2": "k"}}], ["natural_join", {"b": _tab("f"), "on": ["g", ["k2", "k"]], "jointype": jt}]])
            add("join:%s:self" % jt, [["natural_join", {"b": "self", "on": ["g", "k"], "jointype": jt}]])
        else:
            add("join:cross", [["natural_join", {"b": _tab("h"), "on": [], "jointype": jt}]])
            add("join:cross:none", [["natural_join", {"b": _tab("h"), "on": None, "jointype": jt}]])
    for idc in (None, "src", "table_name"):
        for an, bn in (("a", "b"), ("left's", 'r"b'), ("b\\s", "l\nn"), ("", " ")):
            add("concat:%r:%r:%r" % (idc, an, bn), [["concat_rows", {"b": _tab("f"), "id_column": idc, "a_name": an, "b_name": bn}]])
    add("concat:self", [["concat_rows", {"b": "self", "id_column": "src", "a_name": "a", "b_name": "b"}]])
    for cols, revs in ((["x"], [[], ["x"]]), (["g", "x"], [[], ["x"], ["g"], ["g", "x"]]), (["x", "g"], [["g"]])):
        for rev in revs:
            for lim in (None, 0, 1, 2):
                add("order:%s:%s:%r" % ("+".join(cols), "+".join(rev), lim), [["order_rows", {"columns": cols, "reverse": rev, "limit": lim}]])
    add("order:limit-only", [["order_rows", {"columns": [], "reverse": [], "limit": 2}]])
    add("order:intermediate", [["order_rows", {"columns": ["x"], "reverse": [], "limit": None}], ["extend", {"ops": {"r": "x + 1"}}]])
    add("order:intermediate-limit", [["order_rows", {"columns": ["x"], "reverse": ["x"], "limit": 2}], ["extend", {"ops": {"r": "x + 1"}}]])
    add("select_columns:2", [["select_columns", {"columns": ["y", "g"]}]])
    add("select_columns:1", [["select_columns", {"columns": ["x"]}]])
    add("select_columns:all-reordered", [["select_columns", {"columns": ["y", "x", "k", "g"]}]])
    add("drop_columns:1", [["drop_columns", {"columns": ["x"]}]])
    add("drop_columns:3", [["drop_columns", {"columns": ["x", "g", "k"]}]])
    add("rename:1", [["rename_columns", {"map": {"n1": "x"}}]])
    add("rename:swap", [["rename_columns", {"map": {"x": "y", "y": "x"}}]])
    add("rename:quote", [["rename_columns", {"map": {"it's": "x", 'q"q': "y", "b\\s": "g"}}]])
    add("map:1", [["map_columns", {"map": {"x": "n1"}}]])
    add("map:del", [["map_columns", {"map": {"x": "n1", "y": None}}]])
    add("map:del-only", [["map_columns", {"map": {"y": None}}]])
    add("map:swap", [["map_columns", {"map": {"x": "y", "y": "x"}}]])
    add("map:swap-del", [["map_columns", {"map": {"x": "y", "y": "x", "g": None}}]])
    add("project:multi", [["project", {"ops": {"a": "x.sum()", "b": "y.max()", "n": "_size()"}, "group_by": ["g", "k"]}]])
    add("project:distinct", [["project", {"ops": {}, "group_by": ["g"]}]])
    # convert_records
    add("records:unpivot", [["convert_records", {"kind": "rowrecs_to_blocks", "key_col": "nk", "val_col": "nv", "record_keys": ["k"], "value_cols": ["x", "y"]}]])
    add("records:unpivot-nokeys", [["select_columns", {"columns": ["x", "y"]}], ["convert_records", {"kind": "rowrecs_to_blocks", "key_col": "nk", "val_col": "nv", "record_keys": [], "value_cols": ["x", "y"]}]])
    add("records:pivot", [["select_columns", {"columns": ["g", "k", "x"]}], ["convert_records", {"kind": "blocks_to_rowrecs", "key_col": "g", "val_col": "x", "record_keys": ["k"], "value_cols": ["a", "b"]}]])
    ct2 = {"control": {"g": ["a", "b"], "x": ["xa", "xb"], "y": ["ya", "yb"]}, "record_keys": ["k"], "control_table_keys": ["g"]}
    ct3 = {"control": {"m": ["p", "q"], "v1": ["xa", "ya"], "v2": ["xb", "yb"]}, "record_keys": ["k"], "control_table_keys": ["m"]}
    add("records:block-to-row", [["convert_records", {"rm": {"blocks_in": ct2}}]])
    add("records:block-to-block", [["convert_records", {"rm": {"blocks_in": ct2, "blocks_out": ct3}}]])
    add("records:row-to-block", [["convert_records", {"rm": {"blocks_in": ct2}}], ["convert_records", {"rm": {"blocks_out": ct3}}]])
    ctq = {"control": {"it's": ["a", "b"], 'q"q': ["x'a", 'x"b'], "b\\s": ["y\\a", "y\nb"]}, "record_keys": ["k"], "control_table_keys": ["it's"]}
    add("records:quoted-names", [["rename_columns", {"map": {"it's": "g", 'q"q': "x", "b\\s": "y"}}], ["convert_records", {"rm": {"blocks_in": ctq}}]])
    ct2k = {"control": {"g": ["a", "a", "b", "b"], "h": ["u", "v", "u", "v"], "x": ["x1", "x2", "x3", "x4"]}, "record_keys": ["k"], "control_table_keys": ["g", "h"]}
    add("records:two-control-keys", [["extend", {"ops": {"h": "'u'"}}], ["select_columns", {"columns": ["k", "g", "h", "x"]}], ["convert_records", {"rm": {"blocks_in": ct2k}}]])
    ctns = {"control": {"g": ["a", "b"], "x": ["v", "v"], "y": ["w", "w2"]}, "record_keys": ["k"], "control_table_keys": ["g"], "strict": False}
    add("records:non-strict", [["select_columns", {"columns": ["k", "x", "y"]}], ["rename_columns", {"map": {"v": "x", "w": "y"}}], ["extend", {"ops": {"w2": "w + 1"}}], ["convert_records", {"rm": {"blocks_out": ctns, "strict": False}}]])
    return out


def _corpus_cases(tier: str) -> List[Dict[str, Any]]:
    """operator chains of the shared enumerator (every operator kind, pairs over the reduced grid)"""
    out = []
    for depth, reduced in ((1, False), (2, True)):
        for spec in C.gen_pipelines(depth, tier, two_table=True, backends=("Pandas",), reduced=reduced):
            out.append({"kind": "corpus", "id": "corpus:" + "+".join(spec["meta"]["ids"]), "depth": depth, "cspec": {"table": spec["table"], "steps": spec["steps"]}})
    return out


def make_cases(tier: str, seed: int) -> List[Dict[str, Any]]:
    return _expr_cases(tier, seed) + _node_cases() + _corpus_cases(tier)


# --------------------------------------------------------------------------------------------------
# one case
# --------------------------------------------------------------------------------------------------


def _with_route(spec, route):
    def fix(e):
        if isinstance(e, dict) and "ast" in e:
            e = dict(e)
            e["route"] = route
        return e

    s = dict(spec)
    steps = []
    for op, p in spec["steps"]:
        p = dict(p)
        if "ops" in p:
            p["ops"] = {k: fix(v) for k, v in p["ops"].items()}
        if "expr" in p:
            p["expr"] = fix(p["expr"])
        steps.append([op, p])
    s["steps"] = steps
    return s


def _build(case, route):
    if case["kind"] == "corpus":
        return C.build(case["cspec"])
    return O.build_pipe(_with_route(case["spec"], route))


def pipe_dump(ops) -> Any:
    """structural dump of a pipeline: node classes, their parameters, term dumps (own traversal)"""
    import data_algebra.view_representations as vr
    import data_algebra.expr_rep as er

    def val(v):
        if isinstance(v, er.PreTerm):
            return O.term_dump(v)
        if isinstance(v, dict):
            return ("dict", tuple((repr(k), val(x)) for k, x in v.items()))
        if isinstance(v, (list, tuple)):
            return ("seq", tuple(val(x) for x in v))
        if isinstance(v, set):
            return ("set", tuple(sorted(repr(x) for x in v)))
        return repr(v)

    def rec(n):
        d = {k: v for k, v in vars(n).items() if k not in ("sources", "head", "sql_meta", "expr")}
        return (type(n).__name__, tuple(sorted((k, val(v)) for k, v in d.items())), tuple(rec(s) for s in n.sources))

    return rec(ops)


def _tables_for(case, n_tables: int, seed: int):
    """[{table name: pandas frame}] the data sets a case is evaluated on"""
    pool = C.data_pool(3, seed, 12)
    if case["kind"] == "corpus":
        names = C.spec_tables(case["cspec"])
    else:
        names = list(O.pipe_tables(case["spec"]).keys())
    order = [5, 7, len(pool) - 2, 8, len(pool) - 1, 3, 1, 0]
    if "convert_records" in repr(case.get("spec") or case.get("cspec")):
        order = [len(pool) - 2, len(pool) - 1] + order  # tables made of complete block records first
    idx = list(collections.OrderedDict.fromkeys(order))[: max(1, n_tables)]
    return [(i, {t: C.to_pandas(pool[i][t], C.SCHEMAS[t]) for t in names}) for i in idx]


def _rebuild(ops, fmt):
    from data_algebra.expr_parse_fn import eval_da_ops

    if fmt == "plain":
        return eval_da_ops(ops.to_python(pretty=False), data_model_map=None)
    if fmt == "pretty":
        return eval_da_ops(ops.to_python(pretty=True), data_model_map=None)
    if fmt == "repr":
        return eval_da_ops(repr(ops), data_model_map=None)
    if fmt == "pickle":
        return pickle.loads(pickle.dumps(ops))
    raise ValueError(fmt)


def check_pipeline(ops, tables) -> Dict[str, Any]:
    """The contract.  -> {"formats": {fmt: {"status", "fails": [[check, detail]]}}, "compared": n}"""
    base = []
    for di, tabs in tables:
        base.append(C.run_pandas(ops, {k: v.copy() for k, v in tabs.items()}))
    try:
        txt0 = ops.to_python()
    except Exception as e:
        return {"unprintable": "%s: %s" % (type(e).__name__, str(e)[:200]), "formats": {}, "compared": 0}
    res = {}
    seen: Dict[bytes, Any] = {}
    compared_any = 0
    for fmt in FORMATS:
        fails = []
        try:
            rb = _rebuild(ops, fmt)
        except Exception as e:
            res[fmt] = {"status": "fail", "fails": [["rebuild-raises", "%s: %s" % (type(e).__name__, str(e)[:300])]], "compared": 0}
            continue
        try:
            eq = bool(rb == ops) and bool(ops == rb) and not bool(rb != ops)
        except Exception as e:
            eq = False
            fails.append(["eq-raises", "%s: %s" % (type(e).__name__, str(e)[:200])])
        if not eq and not fails:
            fails.append(["eq", "rebuilt != ops"])
        try:
            txt1 = rb.to_python()
            if txt1 != txt0:
                fails.append(["text", "rebuilt.to_python() differs: %s" % O.short(_first_diff(txt0, txt1), 240)])
        except Exception as e:
            fails.append(["text", "rebuilt.to_python() raises %s: %s" % (type(e).__name__, str(e)[:200])])
        try:
            pk = pickle.dumps(rb)
        except Exception:
            pk = None
        if pk is not None and pk in seen:
            rfails, ncomp = seen[pk]
        else:
            rfails, ncomp = [], 0
            for (di, tabs), b in zip(tables, base):
                r = C.run_pandas(rb, {k: v.copy() for k, v in tabs.items()})
                if b[0] == "raise" and r[0] == "raise":
                    if b[1] != r[1]:
                        rfails.append(["result", "data#%d: original raises %s, rebuilt raises %s: %s" % (di, b[1], r[1], r[2][:120])])
                    continue
                if b[0] == "raise" or r[0] == "raise":
                    who, o = ("original", b) if b[0] == "raise" else ("rebuilt", r)
                    rfails.append(["result", "data#%d: only the %s pipeline raises %s: %s" % (di, who, o[1], o[2][:160])])
                    continue
                ncomp += 1
                ok, why = same_frame(b[1], r[1])
                if not ok:
                    rfails.append(["result", "data#%d: %s" % (di, why[:300])])
            if pk is not None:
                seen[pk] = (rfails, ncomp)
        fails += rfails[:2]
        compared_any = max(compared_any, ncomp)
        res[fmt] = {"status": "fail" if fails else ("ok" if ncomp > 0 else "both-raise"), "fails": fails, "compared": ncomp}
    return {"formats": res, "compared": compared_any}


def same_frame(a, b) -> Tuple[bool, str]:
    """same column names in the same order (duplicates allowed), same rows in the same order
    (null == NaN, numbers compared with cbc.common.values_equiv)"""
    ca, ra = C.canon_rows(a)
    cb, rb = C.canon_rows(b)
    ka = [None if (isinstance(c, float) and c != c) else c for c in ca]
    kb = [None if (isinstance(c, float) and c != c) else c for c in cb]
    if ka != kb:
        return False, "columns differ: %r vs %r" % (list(ca), list(cb))
    if len(ra) != len(rb):
        return False, "row counts differ: %d vs %d" % (len(ra), len(rb))
    for i, (x, y) in enumerate(zip(ra, rb)):
        if not all(C.values_equiv(u, v) for u, v in zip(x, y)):
            return False, "row %d differs: %r vs %r (columns %r)" % (i, x, y, list(ca))
    return True, ""


def _first_diff(a: str, b: str) -> str:
    la, lb = a.splitlines(), b.splitlines()
    for x, y in zip(la, lb):
        if x != y:
            return "%r vs %r" % (x.strip(), y.strip())
    return "%d vs %d lines" % (len(la), len(lb))


def eval_case(case, n_tables: int, seed: int) -> List[Dict[str, Any]]:
    """-> one result per construction route that yields a distinct pipeline"""
    routes = ["T"] if case["kind"] != "expr" else ([case["only_route"]] if case.get("only_route") else ["T", "A"])
    built = []
    for route in routes:
        try:
            ops = _build(case, route)
        except ValueError as e:
            if "has no " in str(e) and "spelling" in str(e):
                continue
            built.append((route, None, "%s: %s" % (type(e).__name__, str(e)[:200])))
            continue
        except Exception as e:
            built.append((route, None, "%s: %s" % (type(e).__name__, str(e)[:200])))
            continue
        built.append((route, ops, None))
    out = []
    dumps = []
    tables = None
    for route, ops, err in built:
        if ops is None:
            out.append({"route": route, "status": "unbuildable", "detail": err})
            continue
        try:
            dump = (pipe_dump(ops), ops.to_python())
        except Exception:
            dump = None
        if dump is not None and dump in dumps:
            continue  # the API route built the identical pipeline
        dumps.append(dump)
        if tables is None:
            tables = _tables_for(case, n_tables, seed)
        r = check_pipeline(ops, tables)
        r["route"] = route
        if "unprintable" in r:
            r["status"] = "fail"
            r["keys"] = {"%s:unclassified:%s" % (PID, O.uhash(["unprintable", r["unprintable"][:40]])): ["to_python raises: " + r["unprintable"]]}
        else:
            bad = {f: v for f, v in r["formats"].items() if v["status"] == "fail"}
            r["status"] = "fail" if bad else ("ok" if r["compared"] > 0 else "both-raise")
            if bad:
                r["keys"] = classify(case, route, ops, bad)
        out.append(r)
    return out


# --------------------------------------------------------------------------------------------------
# classification
# --------------------------------------------------------------------------------------------------

#: shape of the minimal sub-term whose printed text parses back differently -> trigger name
#: (shape = O.term_shape: op, call style, operand kinds)


def _shape_trigger(shape: str) -> Optional[Tuple[str, str]]:
    """(site, trigger) for the confirmed printing defects of the pinned tree, None otherwise:
    x ** y with a unary-minus expression as BASE prints as  -(x) ** y ; a negative constant as base of
    ** prints as  -3 ** 2  (shared with C13: cbc.oracles_c.print_shape_trigger)"""
    return O.print_shape_trigger(shape)


def _terms_of(ops) -> List[Tuple[Any, List[str]]]:
    """[(term, columns in scope)] of every expression of every node"""
    out = []
    stack = [ops]
    seen = set()
    while stack:
        n = stack.pop()
        if id(n) in seen:
            continue
        seen.add(id(n))
        o = getattr(n, "ops", None)
        if isinstance(o, dict) and n.sources:
            for t in o.values():
                out.append((t, list(n.sources[0].column_names)))
        stack.extend(n.sources)
    return out


def classify(case, route, ops, bad: Dict[str, Any]) -> Dict[str, List[str]]:
    """finding key -> details, for the failing formats of one pipeline"""
    import data_algebra.expr_rep as er

    keys: Dict[str, List[str]] = collections.OrderedDict()
    text_formats = [f for f in bad if f != "pickle"]
    unexplained = []
    # 1. expression printing: minimal sub-terms whose text does not parse back to themselves
    shapes = []
    for t, cols in _terms_of(ops):
        shapes += O.minimal_unfaithful_subterms(t, cols)
    for f in bad:
        kinds = [c for c, _ in bad[f]["fails"]]
        dets = ["%s[%s]: %s" % (f, c, d) for c, d in bad[f]["fails"]]
        if f != "pickle" and shapes:
            for shape, detail in shapes:
                st = _shape_trigger(shape)
                if st is None and "rebuild-raises" in kinds:
                    st = _raise_trigger(shape, detail)
                if st is None:
                    k = "%s:unclassified:%s" % (PID, O.uhash(["shape", shape]))
                    keys.setdefault(k, []).append("unfaithful sub-term %s: %s" % (shape, detail))
                else:
                    keys.setdefault("%s:%s:%s" % (PID, st[0], st[1]), []).append("%s: %s | %s" % (shape, detail, "; ".join(sorted(dets, key=lambda d: "[result]" not in d))[:300]))
            continue
        st = _node_trigger(case, ops, f, bad[f]["fails"])
        if st is not None:
            keys.setdefault("%s:%s:%s" % (PID, st[0], st[1]), []).append("; ".join(dets)[:400])
            continue
        unexplained.append((f, kinds, dets))
    for f, kinds, dets in unexplained:
        k = "%s:unclassified:%s" % (PID, O.uhash(["case", case["id"], sorted(set(kinds))]))
        keys.setdefault(k, []).append("; ".join(dets)[:400])
    return keys


def _raise_trigger(shape: str, detail: str) -> Optional[Tuple[str, str]]:
    # bitwise operators built through the Python API print as text the parser refuses
    for op in ("&", "|", "^"):
        if shape.startswith(op + ":inline(") and "bitwise operation" in detail:
            return ("parse_by_lark._walk_lark_tree", "api-built-bitwise-operator-refused-by-parser")
    # non-finite float constants print as inf / nan, which are not names of the expression grammar
    if "nonfinite" in shape and "NameError" in detail and ("unknown symbol: inf" in detail or "unknown symbol: nan" in detail):
        return ("expr_rep.Value.to_python", "non-finite-float-constant")
    return None


def _node_trigger(case, ops, fmt, fails) -> Optional[Tuple[str, str]]:
    """narrow classifiers for failures that are not caused by an expression's text"""
    import data_algebra.expr_rep as er

    kinds = [c for c, _ in fails]
    if fmt == "pickle" and kinds == ["eq"]:
        # a NaN constant is never is_equal to itself (Value.is_equal compares with ==): even ops == ops is False
        def has_nan(t):
            if isinstance(t, er.Value):
                return isinstance(t.value, float) and t.value != t.value
            return isinstance(t, er.Expression) and any(has_nan(a) for a in t.args)

        try:
            irreflexive = not (ops == ops)
        except Exception:
            irreflexive = False
        if irreflexive and any(has_nan(t) for t, _ in _terms_of(ops)):
            return ("expr_rep.Value.is_equal", "nan-constant-not-equal-to-itself")
    return None


# --------------------------------------------------------------------------------------------------
# driver
# --------------------------------------------------------------------------------------------------


def scope(tier: str) -> Dict[str, Any]:
    return {"n_tables": 2 if tier == "quick" else 3, "depth": 2 if tier == "quick" else 3}


def _worker(job):
    out = []
    for case in job["cases"]:
        try:
            rs = eval_case(case, job["n_tables"], job["seed"])
        except Exception as e:
            rs = [{"route": "?", "status": "harness-error", "detail": "%s: %s | %s" % (type(e).__name__, e, traceback.format_exc()[-600:])}]
        for r in rs:
            r["id"] = case["id"]
            r["kind"] = case["kind"]
            r["case"] = case if r["status"] in ("fail", "harness-error", "unbuildable") else None
            r.pop("formats", None) if r["status"] != "fail" else None
        out.append(rs)
    return out


def bounded(rep: Report, tier: str, seed: int) -> None:
    t0 = time.time()
    sc = scope(tier)
    cases = make_cases(tier, seed)
    jobs = [{"cases": sh, "n_tables": sc["n_tables"], "seed": seed} for sh in O.shards(cases, 8)]
    outs = O.pool_map(_worker, jobs)
    counts = collections.Counter()
    refused: List[str] = []
    kinds = collections.Counter(c["kind"] + ":d%d" % c["depth"] for c in cases)
    for o in outs:
        for rs in o:
            for r in rs:
                st = r["status"]
                counts[st] += 1
                ck = "%s|%s" % (r["id"], r["route"])
                if st == "harness-error":
                    rep.errors.append("harness error on %s: %s" % (r["id"], r["detail"]))
                    continue
                if st == "unbuildable":  # the DSL refuses the construction: not a pipeline, nothing to print
                    rep.case(ck, nontrivial=False)
                    refused.append("%s via %s: %s" % (r["id"], r["route"], r["detail"][:120]))
                    continue
                rep.case(ck, nontrivial=(st in ("ok", "fail") and r.get("compared", 0) > 0))
                if st == "ok":
                    rep.add_sample({"case": r["id"], "route": r["route"], "status": st})
                if st == "fail":
                    for key, dets in r["keys"].items():
                        rep.violations.append(
                            Violation(
                                key=key,
                                what="%s [built via %s]: %s" % (_describe(r["case"], r["route"]), "text" if r["route"] == "T" else "API", O.short(dets[0], 420).replace("\n", " ").replace("\t", " ")),
                                replay={"module": "cbc.c12", "case": {"case_json": json.dumps(r["case"]), "depth": r["case"]["depth"], "route": r["route"], "seed": seed, "n_tables": sc["n_tables"]}, "n_keys": len(r["keys"])},
                            )
                        )
    # witness stored per key = first violation: fewest keys, a visible result difference first, smallest tree
    rep.violations.sort(key=lambda v: (v.replay.get("n_keys", 1), 0 if "[result]" in v.what else 1, v.replay["case"].get("depth", 9), len(v.what), v.key, v.what))
    rep.extra["status_counts"] = dict(counts)
    rep.extra["case_kinds"] = dict(kinds)
    rep.extra["formats"] = list(FORMATS)
    rep.extra["failing_cases_by_key"] = dict(collections.Counter(v.key for v in rep.violations))
    rep.extra["refused_by_builder"] = {"n": len(refused), "examples": refused[:12]}
    print("C12 bounded: %d cases %s in %.1fs" % (len(cases), dict(counts), time.time() - t0), file=sys.stderr)


def _describe(case, route: str = "T") -> str:
    if case["kind"] == "corpus":
        return C.describe(case["cspec"])
    return O.describe_pipe(_with_route(case["spec"], route))


def replay_case(payload: Dict[str, Any]) -> bool:
    """Re-run one stored case natively; print what was observed; True iff it still fails."""
    case, route = json.loads(payload["case_json"]), payload.get("route", "T")  # (a JSON string: vlib.core.jsonable cuts deep nesting)
    print("case:", case["id"], "| built via", "text" if route == "T" else "Python API")
    print("pipeline spec:", _describe(case, route))
    ops = _build(case, route)
    print("to_python(pretty=False):\n" + ops.to_python(pretty=False))
    tables = _tables_for(case, payload.get("n_tables", 2), payload.get("seed", 0))
    r = check_pipeline(ops, tables)
    failing = False
    for f, v in r["formats"].items():
        print("format %-6s: %s %s" % (f, v["status"], "; ".join("%s: %s" % (c, d) for c, d in v["fails"])))
        failing = failing or v["status"] == "fail"
    if failing:
        bad = {f: v for f, v in r["formats"].items() if v["status"] == "fail"}
        print("keys:", list(classify(case, route, ops, bad).keys()))
        for (di, tabs) in tables[:1]:
            o = C.run_pandas(ops, tabs)
            print("original on data#%d:" % di, C.canon_rows(o[1]) if o[0] == "ok" else o)
            for f in bad:
                try:
                    rb = _rebuild(ops, f)
                    o2 = C.run_pandas(rb, tabs)
                    print("rebuilt(%s) on data#%d:" % (f, di), C.canon_rows(o2[1]) if o2[0] == "ok" else o2)
                except Exception as e:
                    print("rebuild(%s) raises %s: %s" % (f, type(e).__name__, e))
                break
    return failing
