"""C26 bounded check: the builder rejects ill-formed steps when the pipeline is built.

For every valid pipeline prefix P produced by cbc.common.gen_pipelines (depth 0..2, one- and two-table operators; this
includes the prefixes the builder simplifies away: order_rows without limit, select after select/drop, mergeable
extends) a fixed family of steps is added with the REAL builder: for every documented construction rule at least one
step that violates exactly that rule and one that conforms to all rules.

oracle    `violations_of(step, columns)`: the rule predicates below, evaluated on the MATERIALISED description of the
          prefix, i.e. on nothing but P.column_names (what TableDescription('m', P.column_names) would know).
          rejected when the step is added  <=>  violations_of(...) is non-empty.
rejected  = the builder call raises ValueError / KeyError / AssertionError / TypeError / NameError (NameError is what
          the expression parser raises for an unknown column; it is raised by the builder call when the step is added,
          which is all the property asks).  Any other exception type is reported.
scope     thorough: every prefix.  quick: every prefix of depth <= 1, every depth-2 prefix the builder simplifies, a seeded third of the rest.
later     every pipeline the builder ACCEPTED is evaluated with Pandas on a small null-free data set (prefixes of depth <= 1
          always; depth 2: a seeded 1/2 in thorough, 1/24 in quick); provided the prefix alone evaluates
          to its declared columns, the extended pipeline must not raise a RULE error (is_rule_error: unknown column,
          non-aggregating / invalid function, join-key / concat-column complaints); other evaluation failures (e.g. a
          dtype error inside pandas) belong to other properties and are only counted in the evidence.

The rules (property statement) as predicates over (step, columns):
R1 unknown-column     a column named in an expression, partition_by, order_by, reverse, group_by, a column list, a
                      rename/map source or a record map is not in `columns`
R2 change-window-key  an extend assigns to one of its own partition_by / order_by columns
R3 same-extend        an extend uses, in one assignment, a column that another assignment of the same extend produces
                      (a column updating itself, {'x': 'x + 1'}, is not covered by this check either way: not generated)
R4 expression-form    in project and in a windowed extend every assignment must be  agg(column | constant)  or  agg()
                      with `agg` catalogued (data_algebra.op_catalog, read live) for that context: op_class p/up for
                      project, g for an un-ordered window, w for an ordered window; anything else is non-aggregating
                      (bare column, constant, row-wise method, arithmetic) or too complex (aggregate of an expression,
                      arithmetic on an aggregate)
R5 join-keys          a join key is missing on its side; with check_all_common_keys_in_equi_spec=True: a column common to
                      both sides is not an equality key
R6 concat-columns     the two inputs of concat_rows have different column sets
"""
from __future__ import annotations

import hashlib
import json
import os
import warnings
import zlib
from typing import Any, Dict, Iterator, List, Optional, Tuple

from vlib.core import Report, Violation

warnings.filterwarnings("ignore")

MAX_UNCLASSIFIED_WITNESSES = 40  # replay files written for unclassified failures per run (all failures are counted in the evidence)

MAX_WORKERS = 4
REJECT_TYPES = ("ValueError", "KeyError", "AssertionError", "TypeError", "NameError")

FUNCTIONS_UNDER_CONTRACT = [
    {"function": "ViewRepresentation.extend / extend_parsed_ , ExtendNode.__init__", "contract": "raises when the step is added <=> R1|R2|R3|R4 violated on the prefix's columns"},
    {"function": "ViewRepresentation.project / project_parsed_ , ProjectNode.__init__", "contract": "raises <=> R1|R4 violated"},
    {"function": "expr_parse.parse_assignments_in_context", "contract": "same-extend use/produce check (R3), unknown symbols (R1)"},
    {"function": "ViewRepresentation.select_rows / select_columns / drop_columns / order_rows / rename_columns / map_columns / convert_records and their node constructors", "contract": "raises <=> R1 violated"},
    {"function": "ViewRepresentation.natural_join , NaturalJoinNode.__init__", "contract": "raises <=> R5 violated (flag forwarded through simplified prefixes)"},
    {"function": "ViewRepresentation.concat_rows , ConcatRowsNode.__init__", "contract": "raises <=> R6 violated"},
    {"function": "ViewRepresentation.eval (Pandas)", "contract": "an accepted pipeline does not raise on a small table when its prefix evaluates"},
]

U = "zz_unknown"  # never a column of a prefix
Q = "q_new"
Q2 = "q_two"

# ---------------------------------------------------------------------------------------------------------------
# expressions as plain data
# ---------------------------------------------------------------------------------------------------------------


def col(c):
    return {"col": c}


def const(v):
    return {"const": v}


def meth(op, on, *args):
    return {"method": op, "on": on, "args": list(args)}


def fn0(op):
    return {"fn0": op}


def binop(op, l, r):
    return {"bin": op, "l": l, "r": r}


def render(e: Dict[str, Any]) -> str:
    if "col" in e:
        return e["col"]
    if "const" in e:
        return repr(e["const"])
    if "fn0" in e:
        return "%s()" % e["fn0"]
    if "method" in e:
        on = e["on"]
        base = render(on) if "col" in on else "(%s)" % render(on)
        return "%s.%s(%s)" % (base, e["method"], ", ".join(render(a) for a in e["args"]))
    if "bin" in e:
        def side(x):
            return render(x) if ("col" in x or "const" in x or "method" in x or "fn0" in x) else "(%s)" % render(x)

        return "%s %s %s" % (side(e["l"]), e["bin"], side(e["r"]))
    raise ValueError(e)


def used_columns(e: Dict[str, Any]) -> set:
    if "col" in e:
        return {e["col"]}
    if "const" in e or "fn0" in e:
        return set()
    if "method" in e:
        out = used_columns(e["on"])
        for a in e["args"]:
            out |= used_columns(a)
        return out
    return used_columns(e["l"]) | used_columns(e["r"])


# ---------------------------------------------------------------------------------------------------------------
# the rule predicates (oracle)
# ---------------------------------------------------------------------------------------------------------------

_AGG: Dict[str, set] = {}


def aggregators(context: str) -> set:
    """operators data_algebra.op_catalog (read live) lists as aggregating for the context: 'project' | 'window' | 'ordered-window'."""
    if not _AGG:
        import data_algebra.op_catalog

        mt = data_algebra.op_catalog.methods_table
        for ctx, classes in (("project", ("p", "up")), ("window", ("g",)), ("ordered-window", ("w",))):
            _AGG[ctx] = {str(o) for o, c in zip(mt["op"], mt["op_class"]) if str(c) in classes}
    return _AGG[context]


def _is_aggregation(e: Dict[str, Any], context: str) -> Optional[str]:
    """None if `e` has the documented form agg(column | constant) / agg() for the context, else the reason."""
    if "fn0" in e:
        return None if e["fn0"] in aggregators(context) else "%s() is not an aggregator for %s" % (e["fn0"], context)
    if "method" in e:
        if not ("col" in e["on"] or "const" in e["on"]) or not all("const" in a for a in e["args"]):
            return "too complex: the aggregate's argument is an expression"
        if e["method"] not in aggregators(context):
            return "non-aggregating method %s" % e["method"]
        return None
    if "bin" in e:
        return "non-aggregating / too complex: arithmetic at the top of the expression"
    return "non-aggregating: bare column or constant"


def violations_of(step: Dict[str, Any], columns: List[str]) -> List[str]:
    """names of the construction rules `step` violates when added to a pipeline whose columns are `columns`."""
    cols = set(columns)
    op, p = step["op"], step["params"]
    out: List[str] = []

    def unknown(names) -> bool:
        return any(n not in cols for n in names)

    if op == "extend":
        part = p.get("partition_by")
        part_cols = [] if part in (None, 1) else list(part)
        order = list(p.get("order_by") or [])
        rev = list(p.get("reverse") or [])
        used = set()
        for _, e in p["ops"]:
            used |= used_columns(e)
        if unknown(used) or unknown(part_cols) or unknown(order) or unknown(rev):
            out.append("R1")
        produced = [k for k, _ in p["ops"]]
        if set(produced) & (set(part_cols) | set(order)):
            out.append("R2")
        for k, _ in p["ops"]:
            if any(k in used_columns(e2) for k2, e2 in p["ops"] if k2 != k):
                out.append("R3")
                break
        if part is not None or order:
            ctx = "ordered-window" if order else "window"
            if any(_is_aggregation(e, ctx) for _, e in p["ops"]):
                out.append("R4")
    elif op == "project":
        used = set(p.get("group_by") or [])
        for _, e in p["ops"]:
            used |= used_columns(e)
        if unknown(used):
            out.append("R1")
        if any(_is_aggregation(e, "project") for _, e in p["ops"]):
            out.append("R4")
    elif op == "select_rows":
        if unknown(used_columns(p["expr"])):
            out.append("R1")
    elif op in ("select_columns", "drop_columns"):
        if unknown(p["columns"]):
            out.append("R1")
    elif op == "order_rows":
        if unknown(p["columns"]) or unknown(p.get("reverse") or []):
            out.append("R1")
    elif op == "rename_columns":  # {new: old}
        if unknown(p["map"].values()):
            out.append("R1")
    elif op == "map_columns":  # {old: new}
        if unknown(p["map"].keys()):
            out.append("R1")
    elif op == "convert_records":
        if unknown(list(p["record_keys"]) + list(p["value_cols"])):
            out.append("R1")
    elif op == "natural_join":
        right = set(p["right_columns"])
        on_a = [o if isinstance(o, str) else o[0] for o in p["on"]]
        on_b = [o if isinstance(o, str) else o[1] for o in p["on"]]
        if any(a not in cols for a in on_a) or any(b not in right for b in on_b):
            out.append("R5")
        elif p.get("check") and ((cols & right) - (set(on_a) & set(on_b))):
            out.append("R5")
    elif op == "concat_rows":
        if set(p["right_columns"]) != cols:
            out.append("R6")
    else:
        raise ValueError(op)
    return out


# ---------------------------------------------------------------------------------------------------------------
# the steps tried on every prefix
# ---------------------------------------------------------------------------------------------------------------


def _step(rule, name, intent, op, params, evaluate=True):
    return {"rule": rule, "name": name, "intent": intent, "op": op, "params": params, "eval": evaluate}


def make_steps(columns: List[str]) -> List[Dict[str, Any]]:
    """one violating ('V') and one conforming ('C') step per rule and builder site, as a function of the prefix's columns."""
    cols = list(columns)
    assert U not in cols and Q not in cols and Q2 not in cols and "rk" not in cols and "rv" not in cols and "extra_c" not in cols
    c0 = cols[0]
    c1 = cols[1] if len(cols) > 1 else None
    v = c1 or c0  # the value column of aggregations
    part = [c0] if c1 else 1  # partition: by the first column when there is a second one to aggregate
    gb = [c0] if c1 else []
    S: List[Dict[str, Any]] = []
    ext = lambda ops, **kw: dict({"ops": ops}, **kw)  # noqa: E731
    # ---- R1 unknown column, at every builder site
    S.append(_step("R1", "extend-expr", "V", "extend", ext([[Q, meth("is_null", col(U))]])))
    S.append(_step("R1", "extend-expr", "C", "extend", ext([[Q, meth("is_null", col(c0))]])))
    S.append(_step("R1", "select_rows", "V", "select_rows", {"expr": meth("is_null", col(U))}))
    S.append(_step("R1", "select_rows", "C", "select_rows", {"expr": meth("is_null", col(c0))}))
    S.append(_step("R1", "select_columns", "V", "select_columns", {"columns": [c0, U]}))
    S.append(_step("R1", "select_columns", "C", "select_columns", {"columns": [c0]}))
    S.append(_step("R1", "drop_columns", "V", "drop_columns", {"columns": [U]}))
    if c1:
        S.append(_step("R1", "drop_columns", "C", "drop_columns", {"columns": [c0]}))
    S.append(_step("R1", "order_rows", "V", "order_rows", {"columns": [U], "reverse": [], "limit": None}))
    S.append(_step("R1", "order_rows-reverse", "V", "order_rows", {"columns": [c0], "reverse": [U], "limit": None}))
    S.append(_step("R1", "order_rows-limit", "V", "order_rows", {"columns": [c0, U], "reverse": [], "limit": 2}))
    S.append(_step("R1", "order_rows", "C", "order_rows", {"columns": [c0], "reverse": [c0], "limit": None}))
    S.append(_step("R1", "order_rows-limit", "C", "order_rows", {"columns": [c0], "reverse": [], "limit": 2}))
    S.append(_step("R1", "rename_columns", "V", "rename_columns", {"map": {Q: U}}))
    S.append(_step("R1", "rename_columns", "C", "rename_columns", {"map": {Q: c0}}))
    S.append(_step("R1", "map_columns", "V", "map_columns", {"map": {U: Q}}))
    S.append(_step("R1", "map_columns", "C", "map_columns", {"map": {c0: Q}}))
    S.append(_step("R1", "project-group_by", "V", "project", {"ops": [[Q, fn0("_size")]], "group_by": [U]}))
    S.append(_step("R1", "project-group_by", "C", "project", {"ops": [[Q, fn0("_size")]], "group_by": [c0]}))
    S.append(_step("R1", "project-expr", "V", "project", {"ops": [[Q, meth("count", col(U))]], "group_by": []}))
    S.append(_step("R1", "project-expr", "C", "project", {"ops": [[Q, meth("count", col(c0))]], "group_by": []}))
    S.append(_step("R1", "extend-partition_by", "V", "extend", ext([[Q, fn0("_size")]], partition_by=[U])))
    S.append(_step("R1", "extend-partition_by", "C", "extend", ext([[Q, fn0("_size")]], partition_by=[c0])))
    S.append(_step("R1", "extend-order_by", "V", "extend", ext([[Q, fn0("_row_number")]], partition_by=1, order_by=[U])))
    S.append(_step("R1", "extend-order_by", "C", "extend", ext([[Q, fn0("_row_number")]], partition_by=1, order_by=[c0])))
    S.append(_step("R1", "extend-reverse", "V", "extend", ext([[Q, fn0("_row_number")]], partition_by=1, order_by=[c0], reverse=[U])))
    S.append(_step("R1", "extend-reverse", "C", "extend", ext([[Q, fn0("_row_number")]], partition_by=1, order_by=[c0], reverse=[c0])))
    if len(cols) >= 3:  # a record map needs a key and at least two value columns
        rm = {"kind": "rowrecs_to_blocks", "key_col": "rk", "val_col": "rv", "record_keys": [cols[2]]}
        S.append(_step("R1", "convert_records", "V", "convert_records", dict(rm, value_cols=[c0, U]), evaluate=False))
        S.append(_step("R1", "convert_records", "C", "convert_records", dict(rm, value_cols=[c0, c1]), evaluate=False))
    # ---- R2 changing a partition / ordering column
    S.append(_step("R2", "partition-column", "V", "extend", ext([[c0, fn0("_size")]], partition_by=[c0])))
    S.append(_step("R2", "partition-column", "C", "extend", ext([[c1 or Q2, fn0("_size")]], partition_by=[c0])))
    S.append(_step("R2", "order-column", "V", "extend", ext([[c0, fn0("_row_number")]], partition_by=1, order_by=[c0])))
    S.append(_step("R2", "order-column", "C", "extend", ext([[c1 or Q2, fn0("_row_number")]], partition_by=1, order_by=[c0])))
    if c1:
        S.append(_step("R2", "order-column-partitioned", "V", "extend", ext([[c1, fn0("_row_number")]], partition_by=[c0], order_by=[c1])))
    # ---- R3 a column used in the same extend that produces it
    S.append(_step("R3", "produce-then-use", "V", "extend", ext([[c0, const(1)], [Q, meth("is_null", col(c0))]])))
    S.append(_step("R3", "use-then-produce", "V", "extend", ext([[Q, meth("is_null", col(c0))], [c0, const(1)]])))
    S.append(_step("R3+R1", "new-column-used", "V", "extend", ext([[Q, const(1)], [Q2, meth("is_null", col(Q))]])))
    S.append(_step("R3", "independent", "C", "extend", ext([[Q, meth("is_null", col(c0))], [Q2, const(1)]])))
    if c1:
        S.append(_step("R3", "produce-one-use-other", "C", "extend", ext([[c0, const(1)], [Q, meth("is_null", col(c1))]])))
    # ---- R4 non-aggregating or too complex project / window expressions
    bad_forms = [
        ("bare-column", col(v)),
        ("constant", const(1)),
        ("row-method", meth("is_null", col(v))),
        ("column-plus-constant", binop("+", col(v), const(1))),
        ("column-plus-column", binop("+", col(v), col(v))),
        ("aggregate-of-expression", meth("max", binop("+", col(v), const(1)))),
        ("aggregate-plus-constant", binop("+", meth("max", col(v)), const(1))),
        ("cumulative-method", meth("cumsum", col(v))),
    ]
    for nm, e in bad_forms:
        S.append(_step("R4", "project-" + nm, "V", "project", {"ops": [[Q, e]], "group_by": gb}))
        S.append(_step("R4", "window-" + nm, "V", "extend", ext([[Q, e]], partition_by=part)))
    S.append(_step("R4", "window-size-whole-table", "C", "extend", ext([[Q, fn0("_size")]], partition_by=1)))
    for nm, e in (("count", meth("count", col(v))), ("size", fn0("_size"))):
        S.append(_step("R4", "project-" + nm, "C", "project", {"ops": [[Q, e]], "group_by": gb}))
        S.append(_step("R4", "window-" + nm, "C", "extend", ext([[Q, e]], partition_by=part)))
    # ---- R4 in an ORDERED window: the whole-partition aggregates contradict the ordering (only the catalogued ordered-window functions are allowed)
    if c1:
        for m in ("count", "max", "min", "sum", "std", "var", "mean", "cumsum", "cummax"):
            intent = "C" if m in aggregators("ordered-window") else "V"
            S.append(_step("R4", "ordered-window-" + m, intent, "extend", ext([[Q, meth(m, col(v))]], partition_by=1, order_by=[c0])))
    # ---- R5 joins
    jn = lambda right, on, check=False, jt="left": {"right_columns": right, "on": on, "check": check, "jointype": jt}  # noqa: E731
    S.append(_step("R5", "right-key-missing", "V", "natural_join", jn(["rk", "rv"], [[c0, "zz_r"]])))
    S.append(_step("R5", "left-key-missing", "V", "natural_join", jn(["rk", "rv"], [[U, "rk"]])))
    S.append(_step("R5", "key-missing-both", "V", "natural_join", jn(["rk", "rv"], [U])))
    S.append(_step("R5", "right-key-missing-checked", "V", "natural_join", jn(["rk", "rv"], [[c0, "zz_r"]], check=True)))
    S.append(_step("R5", "keys-present", "C", "natural_join", jn(["rk", "rv"], [[c0, "rk"]])))
    S.append(_step("R5", "keys-present-checked", "C", "natural_join", jn([c0, "rv"], [c0], check=True, jt="inner")))
    if c1:
        S.append(_step("R5", "common-non-key-checked", "V", "natural_join", jn([c0, c1, "rv"], [c0], check=True)))
        S.append(_step("R5", "common-non-key-unchecked", "C", "natural_join", jn([c0, c1, "rv"], [c0], check=False)))
        S.append(_step("R5", "all-common-are-keys-checked", "C", "natural_join", jn([c0, c1, "rv"], [c0, c1], check=True)))
    # differently named key pair (left c0 = right 'rk') with the check requested: a column that is named like ONE side's key and
    # occurs on both sides is a common non-key column (it is an equality key on one side only)
    S.append(_step("R5", "renamed-key-left-key-name-also-on-right-checked", "V", "natural_join", jn(["rk", c0, "rv"], [[c0, "rk"]], check=True)))
    S.append(_step("R5", "renamed-key-left-key-name-also-on-right-unchecked", "C", "natural_join", jn(["rk", c0, "rv"], [[c0, "rk"]], check=False)))
    S.append(_step("R5", "renamed-key-no-common-column-checked", "C", "natural_join", jn(["rk", "rv"], [[c0, "rk"]], check=True)))
    if c1:
        # mirrored: the RIGHT key is named like another column of the left table
        S.append(_step("R5", "renamed-key-right-key-name-also-on-left-checked", "V", "natural_join", jn([c1, "rv"], [[c0, c1]], check=True)))
        S.append(_step("R5", "renamed-key-right-key-name-also-on-left-unchecked", "C", "natural_join", jn([c1, "rv"], [[c0, c1]], check=False), evaluate=False))  # build time only: the right key would have to carry c0's values AND be coalesced with the left column c1 of another type
        # both at once: keys (c0, rk) and (c1, c1): c1 is a key on both sides, c0 on the left only
        S.append(_step("R5", "renamed-key-plus-same-named-key-checked", "C", "natural_join", jn(["rk", c1, "rv"], [[c0, "rk"], c1], check=True)))
        S.append(_step("R5", "renamed-key-plus-same-named-key-left-name-on-right-checked", "V", "natural_join", jn(["rk", c1, c0, "rv"], [[c0, "rk"], c1], check=True)))
    # ---- R6 concat
    cc = lambda right: {"right_columns": right}  # noqa: E731
    S.append(_step("R6", "extra-column", "V", "concat_rows", cc(cols + ["extra_c"])))
    S.append(_step("R6", "renamed-column", "V", "concat_rows", cc(cols[:-1] + ["extra_c"])))
    if c1:
        S.append(_step("R6", "column-missing", "V", "concat_rows", cc(cols[:-1])))
        S.append(_step("R6", "same-columns-other-order", "C", "concat_rows", cc(list(reversed(cols)))))
    S.append(_step("R6", "same-columns", "C", "concat_rows", cc(cols)))
    return S


def step_id(step: Dict[str, Any]) -> str:
    return "%s/%s/%s" % (step["rule"], step["name"], step["intent"])


def describe_step(step: Dict[str, Any]) -> str:
    op, p = step["op"], step["params"]
    if op in ("extend", "project"):
        ops = "{%s}" % ", ".join("%r: %r" % (k, render(e)) for k, e in p["ops"])
        extra = "".join(", %s=%r" % (k, p[k]) for k in ("partition_by", "order_by", "reverse", "group_by") if p.get(k) not in (None, []))
        return ".%s(%s%s)" % (op, ops, extra)
    if op == "select_rows":
        return ".select_rows(%r)" % render(p["expr"])
    if op in ("select_columns", "drop_columns"):
        return ".%s(%r)" % (op, p["columns"])
    if op == "order_rows":
        return ".order_rows(%r, reverse=%r, limit=%r)" % (p["columns"], p.get("reverse"), p.get("limit"))
    if op in ("rename_columns", "map_columns"):
        return ".%s(%r)" % (op, p["map"])
    if op == "convert_records":
        return ".convert_records(rowrecs_to_blocks keys=%r values=%r)" % (p["record_keys"], p["value_cols"])
    if op == "natural_join":
        return ".natural_join(TableDescription('jr', %r), on=%r, jointype=%r, check_all_common_keys_in_equi_spec=%r)" % (p["right_columns"], p["on"], p["jointype"], p["check"])
    return ".concat_rows(TableDescription('cr', %r), id_column=None)" % (p["right_columns"],)


# ---------------------------------------------------------------------------------------------------------------
# applying a step with the real builder
# ---------------------------------------------------------------------------------------------------------------


def apply_step(ops, step: Dict[str, Any]):
    """add `step` to the pipeline `ops` with the public builder methods."""
    from data_algebra import TableDescription

    op, p = step["op"], step["params"]
    if op == "extend":
        return ops.extend({k: render(e) for k, e in p["ops"]}, partition_by=p.get("partition_by"), order_by=p.get("order_by"), reverse=p.get("reverse"))
    if op == "project":
        return ops.project({k: render(e) for k, e in p["ops"]}, group_by=list(p.get("group_by") or []))
    if op == "select_rows":
        return ops.select_rows(render(p["expr"]))
    if op == "select_columns":
        return ops.select_columns(list(p["columns"]))
    if op == "drop_columns":
        return ops.drop_columns(list(p["columns"]))
    if op == "order_rows":
        return ops.order_rows(list(p["columns"]), reverse=list(p.get("reverse") or []), limit=p.get("limit"))
    if op == "rename_columns":
        return ops.rename_columns(dict(p["map"]))
    if op == "map_columns":
        return ops.map_columns(dict(p["map"]))
    if op == "convert_records":
        import data_algebra.cdata

        rm = data_algebra.cdata.pivot_rowrecs_to_blocks(
            attribute_key_column=p["key_col"], attribute_value_column=p["val_col"], record_keys=list(p["record_keys"]), record_value_columns=list(p["value_cols"])
        )
        return ops.convert_records(rm)
    if op == "natural_join":
        b = TableDescription(table_name="jr", column_names=list(p["right_columns"]))
        on = [o if isinstance(o, str) else tuple(o) for o in p["on"]]
        return ops.natural_join(b, on=on, jointype=p["jointype"], check_all_common_keys_in_equi_spec=bool(p["check"]))
    if op == "concat_rows":
        b = TableDescription(table_name="cr", column_names=list(p["right_columns"]))
        return ops.concat_rows(b, id_column=None)
    raise ValueError(op)


def try_step(ops, step) -> Tuple[str, Any]:
    """("accepted", pipeline) | ("rejected", exception type name, message) | ("crashed", type name, message)"""
    try:
        return ("accepted", apply_step(ops, step))
    except Exception as e:
        kind = "rejected" if type(e).__name__ in REJECT_TYPES else "crashed"
        return (kind, type(e).__name__, str(e)[:200])


# ---------------------------------------------------------------------------------------------------------------
# evaluation of accepted pipelines
# ---------------------------------------------------------------------------------------------------------------

#: small null-free data set; d / f are complete (k, g) blocks so that the pivot prefixes have well-formed input
DATA = {
    "d": {"g": ["a", "b", "a", "b"], "k": [1, 1, 2, 2], "x": [0.5, 2.0, -1.5, 0.5], "y": [0.0, 2.0, 0.5, 0.5]},
    "f": {"g": ["b", "a", "b", "a"], "k": [2, 2, 1, 1], "x": [2.0, 0.5, 0.5, -1.5], "y": [0.5, 0.5, 2.0, 0.0]},
    "e": {"k": [1, 2, 0], "z": [0.5, 2.0, -1.5]},
    "h": {"k2": [2, 1, -1], "z": [2.0, 0.5, 0.0]},
    "c": {"k": [2, 1], "x": [0.5, 2.0]},
}


def _base_frames(spec):
    from cbc import common

    return common.pandas_frames(spec, DATA)


_RULE_ERROR_RE = None


def is_rule_error(exc_type: str, message: str) -> bool:
    """Is an exception raised at Pandas evaluation time the LATE detection of one of the construction rules?
    unknown column: KeyError / 'not in index' / 'Column not found' / 'missing required columns' / 'unknown column';
    non-aggregating or too complex expression: 'is not a valid function name' / groupby object 'has no attribute' / the
    builder's own wording; join keys / concat columns: the builder's own wording; plus NameError and AssertionError
    (internal consistency checks on columns and shapes)."""
    import re

    global _RULE_ERROR_RE
    if _RULE_ERROR_RE is None:
        _RULE_ERROR_RE = re.compile(
            r"not in index|Column not found|missing required columns|unknown column|unknown symbol|not a valid function|has no attribute|"
            r"non-aggregat|too complex|not in source column set|not allowed in|missing join keys|same set of column names|must not change|both produced and used",
            re.I,
        )
    if exc_type in ("KeyError", "NameError", "AssertionError", "AttributeError"):
        return True
    return bool(_RULE_ERROR_RE.search(message or ""))


def extra_tables(step, prefix_result):
    """data for the right-hand table of a join / concat step, cut from the evaluated prefix (so dtypes agree)."""
    import pandas

    op, p = step["op"], step["params"]
    if op == "concat_rows":
        return {"cr": prefix_result[list(p["right_columns"])].reset_index(drop=True).copy()}
    if op == "natural_join":
        head = prefix_result.iloc[:2].reset_index(drop=True)
        pair = {}
        for o in p["on"]:
            a, b = (o, o) if isinstance(o, str) else (o[0], o[1])
            pair[b] = a
        data = {}
        for c in p["right_columns"]:
            src = pair[c] if (c in pair and pair[c] in head.columns) else (c if c in head.columns else None)
            if src is not None:
                data[c] = head[src].reset_index(drop=True).rename(c)  # a Series: keeps the dtype of the prefix's column (also when all values are null)
            else:
                data[c] = pandas.Series([1.5] * head.shape[0], dtype="float64", name=c)
        return {"jr": pandas.concat([data[c] for c in p["right_columns"]], axis=1) if data else pandas.DataFrame()}
    return {}


# ---------------------------------------------------------------------------------------------------------------
# one prefix
# ---------------------------------------------------------------------------------------------------------------


def classify(spec, step, kind: str, detail: Dict[str, Any]) -> str:
    """narrow classifiers.  kind: 'violating-step-accepted' | 'conforming-step-rejected' | 'crashed' | 'raises-at-evaluation'."""
    if kind == "violating-step-accepted" and step["rule"] == "R4" and detail.get("materialised") == "accepted":
        # accepted on the plain table description as well: the node constructor itself lacks the check (no prefix involved)
        e = step["params"]["ops"][0][1]
        if step["op"] == "project" and step["name"] == "project-row-method" and "method" in e and "col" in e["on"] and not e["args"]:
            return "C26:ProjectNode.__init__:non-aggregating-method-of-a-column"
        if step["op"] == "extend" and step["name"] == "window-row-method" and "method" in e and "col" in e["on"] and not e["args"]:
            return "C26:ExtendNode.__init__:non-aggregating-method-of-a-column-in-window"
        if step["op"] == "extend" and step["name"] == "window-column-plus-constant" and "bin" in e and "col" in e["l"] and "const" in e["r"]:
            return "C26:ExtendNode.__init__:column-operator-constant-in-window"
        if step["op"] == "extend" and step["name"] == "ordered-window-mean" and e.get("method") == "mean":
            return "C26:expr_rep.fn_names_that_contradict_ordered_windowed_situation:mean-accepted-in-ordered-window"
    if step["op"] == "extend" and step["params"].get("partition_by") == 1 and not step["params"].get("order_by") and step["intent"] == "C":
        # a whole-table window (partition_by=1) whose operators do not by themselves imply windowing (_size) is MERGED into a preceding
        # row-wise extend by extend_parsed_ (partition_by=1 counts as 'compatible' with no partition): the row-wise assignments then sit in a windowed node
        run = _trailing_plain_extends(spec)
        if run:
            produced_by_step = [kk for kk, _ in step["params"]["ops"]]
            prefix_keys = [k for p_ in run for k in p_["ops"] if k not in produced_by_step]
            if kind == "conforming-step-rejected" and detail.get("materialised") == "accepted" and any(("'%s': '" % k) in detail.get("message", "") for k in prefix_keys):
                return "C26:ViewRepresentation.extend_parsed_:row-wise-extend-merged-into-partition_by-1-window"
            if kind == "raises-at-evaluation" and any(k in detail.get("top_node_keys", []) for k in prefix_keys):
                return "C26:ViewRepresentation.extend_parsed_:row-wise-extend-merged-into-partition_by-1-window"
    return "C26:unclassified:" + case_hash({"spec": _plain_spec(spec), "step": step, "kind": kind})


def _trailing_plain_extends(spec) -> List[Dict[str, Any]]:
    """parameters of the row-wise extends (no partition_by / order_by) that end the prefix; an order_rows without limit is
    skipped (the builder treats it as trivial when intermediate).  These are the steps the builder may have merged into one node."""
    run: List[Dict[str, Any]] = []
    for op, p in reversed(spec["steps"]):
        if op == "order_rows" and p.get("limit") is None:
            continue
        if op == "extend" and not p.get("partition_by") and not p.get("order_by"):
            run.append(p)
            continue
        break
    return run


def _plain_spec(spec):
    return {"table": spec["table"], "steps": spec["steps"]}


def case_hash(case: Dict[str, Any]) -> str:
    return hashlib.sha256(json.dumps(case, sort_keys=True, default=repr).encode()).hexdigest()[:8]


def check_prefix(job: Dict[str, Any]) -> Dict[str, Any]:
    """worker: all steps on one prefix.  job = {"spec": spec, "evaluate": bool, "only": optional step id}"""
    from cbc import common
    from data_algebra import TableDescription

    spec = job["spec"]
    out: Dict[str, Any] = {"results": [], "errors": [], "prefix_eval": None}
    try:
        prefix = common.build(spec)
    except Exception as e:
        out["errors"].append("c26: could not build the prefix %s: %r" % (common.describe(spec), e))
        return out
    columns = [str(c) for c in prefix.column_names]
    materialised = TableDescription(table_name="m", column_names=columns)
    prefix_frames = None
    prefix_res = None
    if job.get("evaluate"):
        prefix_frames = _base_frames(spec)
        pr = common.run_pandas(prefix, prefix_frames)
        out["prefix_eval"] = pr[0]
        if pr[0] == "ok" and set(str(c) for c in pr[1].columns) != set(columns):
            # the data does not meet a documented requirement of the PREFIX (e.g. incomplete blocks for blocks_to_rowrecs):
            # its result lacks declared columns, so a later failure could not be attributed to the added step
            out["prefix_eval"] = "columns-differ"
        elif pr[0] == "ok":
            prefix_res = pr[1]
    for step in make_steps(columns):
        sid = step_id(step)
        if job.get("only") and sid != job["only"]:
            continue
        res: Dict[str, Any] = {"step": sid, "failure": None, "evaluated": False}
        try:
            viol = violations_of(step, columns)
            if bool(viol) != (step["intent"] == "V"):
                raise RuntimeError("harness: step %s intended %s but the rule predicate says %r on columns %r" % (sid, step["intent"], viol, columns))
            got = try_step(prefix, step)
            res["outcome"] = got[0] if got[0] == "accepted" else "%s %s: %s" % got
            kind = None
            if got[0] == "crashed":
                kind, msg = "crashed", "the builder raised %s (%s), which is not one of its rejection errors" % (got[1], got[2])
            elif viol and got[0] == "accepted":
                kind, msg = "violating-step-accepted", "violates %s on columns %r but the builder accepted it" % ("+".join(viol), columns)
            elif (not viol) and got[0] == "rejected":
                kind, msg = "conforming-step-rejected", "follows all rules on columns %r but the builder raised %s: %s" % (columns, got[1], got[2])
            detail: Dict[str, Any] = {"message": got[2] if got[0] != "accepted" else ""}
            if got[0] == "accepted" and type(got[1]).__name__ == "ExtendNode":
                detail["top_node_keys"] = [str(k) for k in got[1].ops.keys()]
            if kind in ("violating-step-accepted", "conforming-step-rejected"):
                detail["materialised"] = try_step(materialised, step)[0]  # same step on the materialised description (names the site only)
                msg += " [on TableDescription('m', columns): %s]" % detail["materialised"]
            if got[0] == "accepted" and step["eval"] and prefix_res is not None:
                tables = dict(prefix_frames)
                tables.update(extra_tables(step, prefix_res))
                ev = common.run_pandas(got[1], tables)
                res["evaluated"] = True
                if ev[0] != "ok":
                    if kind is None and not is_rule_error(ev[1], ev[2]):
                        # an evaluation failure that is not the late detection of a construction rule (e.g. a dtype error inside
                        # pandas): outside this property; recorded in the evidence, never a verdict here
                        res["other_eval_error"] = "%s: %s" % (ev[1], ev[2][:160])
                    elif kind is None:
                        kind, msg = "raises-at-evaluation", "accepted by the builder, the prefix evaluates, but Pandas evaluation raises the rule error %s: %s" % (ev[1], ev[2])
                    else:
                        msg += "; at Pandas evaluation it then raises %s: %s" % (ev[1], ev[2][:120])
                elif kind == "violating-step-accepted":
                    msg += "; Pandas evaluation returns a frame of shape %r" % (tuple(ev[1].shape),)
            if kind:
                res["failure"] = {"kind": kind, "msg": msg, "key": classify(spec, step, kind, detail), "step_desc": step}
        except Exception as e:
            out["errors"].append("c26 harness error, prefix %s step %s: %r" % (common.describe(spec), sid, e))
            continue
        out["results"].append(res)
    return out


def _work(jobs: List[Dict[str, Any]]) -> List[Dict[str, Any]]:
    return [check_prefix(j) for j in jobs]


# ---------------------------------------------------------------------------------------------------------------
# driver
# ---------------------------------------------------------------------------------------------------------------


def prefixes(tier: str) -> List[Dict[str, Any]]:
    from cbc import common

    out = []
    for depth in (0, 1, 2):
        out += list(common.gen_pipelines(depth, tier=tier, two_table=True, reduced=False))
    return out


def _is_simplified_prefix(spec) -> bool:
    """prefixes whose last step the builder treats specially: order_rows without limit, select after select/drop, extend after extend"""
    st = spec["steps"]
    if st and st[-1][0] == "order_rows" and st[-1][1].get("limit") is None:
        return True
    if len(st) == 2 and st[1][0] == "select_columns" and st[0][0] in ("select_columns", "drop_columns"):
        return True
    return len(st) == 2 and st[0][0] == "extend" and st[1][0] == "extend"


def _shard(spec, seed: int, n: int) -> bool:
    from cbc import common

    return (int(common.spec_hash(spec), 16) + seed) % n == 0


def _build_here(spec, tier: str, seed: int) -> bool:
    """thorough: every prefix.  quick: every prefix of depth <= 1, every depth-2 prefix the builder simplifies, and a seeded
    third of the other depth-2 prefixes."""
    return tier == "thorough" or len(spec["steps"]) <= 1 or _is_simplified_prefix(spec) or _shard(spec, seed, 3)


def _evaluate_here(spec, tier: str, seed: int) -> bool:
    """Pandas evaluation of the accepted pipelines: prefixes of depth <= 1 always; depth 2: a seeded 1/2 (thorough) / 1/24 (quick)."""
    if len(spec["steps"]) <= 1:
        return True
    return _shard(spec, seed, 2 if tier == "thorough" else 24)


def bounded(rep: Report, tier: str, seed: int) -> None:
    from cbc import common

    all_specs = prefixes(tier)
    specs = [s_ for s_ in all_specs if _build_here(s_, tier, seed)]
    rep.extra["c26_prefixes_enumerated"] = len(all_specs)
    jobs = [{"spec": s, "evaluate": _evaluate_here(s, tier, seed)} for s in specs]
    chunks = [jobs[i : i + 40] for i in range(0, len(jobs), 40)]
    if os.environ.get("VERIF_SERIAL") == "1":
        parts = [_work(c) for c in chunks]
    else:
        import concurrent.futures
        import multiprocessing

        ctx = multiprocessing.get_context("spawn")
        with concurrent.futures.ProcessPoolExecutor(max_workers=MAX_WORKERS, mp_context=ctx) as ex:
            parts = list(ex.map(_work, chunks))
    results = [r for part in parts for r in part]
    per_key: Dict[str, int] = {}
    n_unclassified = 0
    counts = {"prefixes": 0, "builder_calls": 0, "violating_steps": 0, "conforming_steps": 0, "evaluations": 0, "prefixes_evaluated": 0, "prefixes_whose_own_evaluation_raises": 0, "prefixes_not_evaluating_to_their_declared_columns": 0, "evaluation_errors_outside_the_property": 0}
    other_examples: List[str] = []
    by_depth: Dict[int, int] = {}
    simplified = {"order_rows-without-limit": 0, "select-after-select/drop": 0, "extend-after-extend": 0}
    for spec, r in zip(specs, results):
        rep.errors += r["errors"]
        counts["prefixes"] += 1
        by_depth[len(spec["steps"])] = by_depth.get(len(spec["steps"]), 0) + 1
        st = spec["steps"]
        if st and st[-1][0] == "order_rows" and st[-1][1].get("limit") is None:
            simplified["order_rows-without-limit"] += 1
        if len(st) == 2 and st[1][0] == "select_columns" and st[0][0] in ("select_columns", "drop_columns"):
            simplified["select-after-select/drop"] += 1
        if len(st) == 2 and st[0][0] == "extend" and st[1][0] == "extend":
            simplified["extend-after-extend"] += 1
        if r["prefix_eval"] is not None:
            counts["prefixes_evaluated"] += 1
            if r["prefix_eval"] == "columns-differ":
                counts["prefixes_not_evaluating_to_their_declared_columns"] += 1
            elif r["prefix_eval"] != "ok":
                counts["prefixes_whose_own_evaluation_raises"] += 1
        sh = common.spec_hash(spec)
        for res in r["results"]:
            counts["builder_calls"] += 1
            counts["violating_steps" if res["step"].endswith("/V") else "conforming_steps"] += 1
            rep.case((sh, res["step"]), nontrivial=True)  # accept / reject compared with the rule predicate
            if res["evaluated"]:
                counts["evaluations"] += 1
                rep.case((sh, res["step"], "eval"), nontrivial=True)  # evaluated with Pandas, outcome compared
            if res.get("other_eval_error"):
                counts["evaluation_errors_outside_the_property"] += 1
                if len(other_examples) < 3:
                    other_examples.append("%s%s -> %s" % (common.describe(spec), res["step"], res["other_eval_error"]))
            f = res["failure"]
            if f:
                per_key[f["key"]] = per_key.get(f["key"], 0) + 1
                n_unclassified += ":unclassified:" in f["key"]
                # every failing case is counted (rep.extra); at most 2 witnesses per classified key and MAX_UNCLASSIFIED_WITNESSES unclassified ones are stored
                if per_key[f["key"]] <= 2 and not (":unclassified:" in f["key"] and n_unclassified > MAX_UNCLASSIFIED_WITNESSES):
                    what = "%s%s: %s" % (common.describe(spec), describe_step(f["step_desc"]), f["msg"])
                    rep.violations.append(
                        Violation(key=f["key"], what=what, replay={"module": "cbc.c26", "case": {"spec": {"table": spec["table"], "steps": spec["steps"]}, "step": f["step_desc"]}})
                    )
        if counts["prefixes"] in (2, 30, 700) and r["results"]:
            rep.add_sample({"prefix": common.describe(spec), "steps_tried": len(r["results"]), "example": r["results"][counts["prefixes"] % len(r["results"])]["step"]})
    rep.extra["c26_counts"] = counts
    rep.extra["c26_evaluation_errors_outside_the_property_examples"] = other_examples
    rep.extra["c26_prefixes_by_depth"] = {str(k): v for k, v in sorted(by_depth.items())}
    rep.extra["c26_simplified_prefixes"] = simplified
    rep.extra["c26_failing_cases_by_key"] = dict(sorted(per_key.items()))
    rep.violations.sort(key=lambda v: (v.key, len(v.replay["case"]["spec"]["steps"]), len(v.what)))


def scope_sizes(tier: str, seed: int = 0) -> Dict[str, int]:
    ps = prefixes(tier)
    return {"prefixes_enumerated": len(ps), "prefixes": sum(1 for s_ in ps if _build_here(s_, tier, seed)), "steps_on_4_columns": len(make_steps(["g", "k", "x", "y"]))}


def replay_case(case: Dict[str, Any]) -> bool:
    from cbc import common

    spec = {"table": case["spec"]["table"], "steps": case["spec"]["steps"]}
    r = check_prefix({"spec": spec, "evaluate": True, "only": step_id(case["step"])})
    print("prefix:", common.describe(spec))
    print("step:  ", describe_step(case["step"]))
    for e in r["errors"]:
        print("harness error:", e)
    failing = False
    for res in r["results"]:
        print("observed:", res.get("outcome"), "| evaluated with Pandas:", res["evaluated"])
        if res["failure"]:
            failing = True
            print(res["failure"]["msg"])
    if not failing:
        print("case passes on this tree")
    return failing
