"""cbc.oracles_c -- helpers shared by the bounded checks C04 C07 C12 C13 C14 C15 C17 C21.

Contents
--------
* pool_map                  process pool limited to MAX_WORKERS (6) workers, workers die with their parent
* build_pipe(spec)          generalised pipeline builder (arbitrary table / column names, nested right hand
                            sides, expressions given as text or as a small JSON expression AST, full RecordMaps)
* expression ASTs           gen_exprs(depth), ast_to_text (fully parenthesised), ast_to_term (Python API),
                            term_dump / pipe_dump (structural dumps, independent of is_equal / ==)
* expression TEXT grammar   gen_texts(n_ops) for C13, python_shape / term_shape
* SQL lexers                lex_sql(dialect, text) for C14 (own implementation of the vendors' lexical rules)
* reference computations    ref_* for C17 / C21 (independent of data_algebra)
* misc                      short, vkey, uhash

Nothing in here imports data_algebra.test_util.
"""
from __future__ import annotations

import hashlib
import itertools
import json
import math
import os
import pickle
import sys
import warnings
from typing import Any, Callable, Dict, Iterable, Iterator, List, Optional, Sequence, Tuple

warnings.filterwarnings("ignore")

MAX_WORKERS = 6

# --------------------------------------------------------------------------------------------------
# process pool
# --------------------------------------------------------------------------------------------------


def _init_worker():
    warnings.filterwarnings("ignore")
    try:  # die with the parent (the parent may be killed by vlib.core.run_bounded on a time-out)
        import ctypes
        import signal

        ctypes.CDLL("libc.so.6", use_errno=True).prctl(1, signal.SIGKILL)  # PR_SET_PDEATHSIG
    except Exception:
        pass


def n_workers() -> int:
    try:
        env = int(os.environ.get("VERIF_WORKERS", "0") or 0)
    except ValueError:
        env = 0
    n = env if env > 0 else MAX_WORKERS
    return max(1, min(MAX_WORKERS, n, os.cpu_count() or 1))


def pool_map(worker: Callable[[Any], Any], jobs: Sequence[Any], chunksize: int = 1) -> List[Any]:
    """Order preserving map of a module-level worker over plain-data jobs; at most 6 processes.
    VERIF_SERIAL=1 runs in-process."""
    jobs = list(jobs)
    if os.environ.get("VERIF_SERIAL") == "1" or len(jobs) <= 1:
        return [worker(j) for j in jobs]
    import concurrent.futures
    import multiprocessing

    ctx = multiprocessing.get_context("spawn")
    with concurrent.futures.ProcessPoolExecutor(max_workers=n_workers(), mp_context=ctx, initializer=_init_worker) as ex:
        return list(ex.map(worker, jobs, chunksize=chunksize))


def shards(seq: Sequence[Any], per_worker: int = 6) -> List[List[Any]]:
    """Interleaved shards, `per_worker` shards per worker process (deterministic)."""
    n = max(1, n_workers() * per_worker)
    return [s for s in (list(seq[i::n]) for i in range(n)) if s]


def uhash(obj: Any) -> str:
    return hashlib.sha256(json.dumps(obj, sort_keys=True, default=repr).encode()).hexdigest()[:8]


def short(x: Any, n: int = 300) -> str:
    s = x if isinstance(x, str) else repr(x)
    return s if len(s) <= n else s[: n - 3] + "..."


# --------------------------------------------------------------------------------------------------
# expression ASTs (plain JSON data)
# --------------------------------------------------------------------------------------------------
#   ["c", name]                     column reference
#   ["v", value]                    constant (int / float / str / bool)
#   ["b", op, A, B]                 inline binary operator
#   ["n", A]                        unary minus
#   ["not", A]                      not A                 (text route only)
#   ["m", name, A, [args...]]       method call  A.name(args)
#   ["f", name, [args...]]          function call form  name(args)
#   ["l", [values]] / ["d", {k: v}] list / dict literal (only as arguments)

API_ONLY_OPS = {"&", "|", "^"}  # Term.__and__ / __or__ / __xor__ build them; the text grammar refuses them
TEXT_ONLY_OPS = {"and", "or"}  # Python cannot overload them


def ast_depth(a) -> int:
    k = a[0]
    if k in ("c", "v", "l", "d"):
        return 0
    if k == "b":
        return 1 + max(ast_depth(a[2]), ast_depth(a[3]))
    if k in ("n", "not"):
        return 1 + ast_depth(a[1])
    if k == "m":
        return 1 + max([ast_depth(a[2])] + [ast_depth(x) for x in a[3]])
    if k == "f":
        return 1 + max([0] + [ast_depth(x) for x in a[2]])
    raise ValueError(a)


def ast_ops(a, out=None) -> set:
    """set of operator / method names used"""
    out = set() if out is None else out
    k = a[0]
    if k == "b":
        out.add(a[1])
        ast_ops(a[2], out)
        ast_ops(a[3], out)
    elif k == "n":
        out.add("neg")
        ast_ops(a[1], out)
    elif k == "not":
        out.add("not")
        ast_ops(a[1], out)
    elif k == "m":
        out.add(a[1])
        ast_ops(a[2], out)
        for x in a[3]:
            ast_ops(x, out)
    elif k == "f":
        out.add(a[1])
        for x in a[2]:
            ast_ops(x, out)
    return out


def _const_text(v) -> str:
    return repr(v)


def ast_to_text(a, top: bool = True) -> Optional[str]:
    """Fully parenthesised source text (every non-leaf operand is wrapped, negative constants are
    wrapped), so the tree the parser builds is determined by the AST alone.  None if the AST uses an
    operator the text grammar refuses (& | ^)."""
    k = a[0]
    if k == "c":
        return a[1]
    if k == "v":
        v = a[1]
        s = _const_text(v)
        if not top and isinstance(v, (int, float)) and not isinstance(v, bool) and s.startswith("-"):
            return "(" + s + ")"
        return s
    if k == "l":
        return "[" + ", ".join(_const_text(v) for v in a[1]) + "]"
    if k == "d":
        return "{" + ", ".join(_const_text(kk) + ": " + _const_text(vv) for kk, vv in a[1]) + "}"

    def operand(x):
        s = ast_to_text(x, top=False)
        if s is None:
            return None
        if x[0] in ("c", "v", "l", "d"):
            return s
        return "(" + s + ")"

    if k == "b":
        if a[1] in API_ONLY_OPS:
            return None
        l, r = operand(a[2]), operand(a[3])
        if l is None or r is None:
            return None
        return "%s %s %s" % (l, a[1], r)
    if k == "n":
        s = operand(a[1])
        return None if s is None else "-" + s
    if k == "not":
        s = operand(a[1])
        return None if s is None else "not " + s
    if k == "m":
        s = operand(a[2])
        if s is None:
            return None
        if a[2][0] == "v" and not s.startswith("("):
            s = "(" + s + ")"  # (1).sum()
        args = [ast_to_text(x, top=True) for x in a[3]]
        if any(x is None for x in args):
            return None
        return "%s.%s(%s)" % (s, a[1], ", ".join(args))
    if k == "f":
        args = [ast_to_text(x, top=True) for x in a[2]]
        if any(x is None for x in args):
            return None
        return "%s(%s)" % (a[1], ", ".join(args))
    raise ValueError(a)


_PY_BIN = {
    "+": lambda l, r: l + r,
    "-": lambda l, r: l - r,
    "*": lambda l, r: l * r,
    "/": lambda l, r: l / r,
    "//": lambda l, r: l // r,
    "%": lambda l, r: l % r,
    "**": lambda l, r: l**r,
    "==": lambda l, r: l == r,
    "!=": lambda l, r: l != r,
    "<": lambda l, r: l < r,
    "<=": lambda l, r: l <= r,
    ">": lambda l, r: l > r,
    ">=": lambda l, r: l >= r,
    "&": lambda l, r: l & r,
    "|": lambda l, r: l | r,
    "^": lambda l, r: l ^ r,
    "%/%": lambda l, r: l.float_divide(r),
}


def ast_to_term(a):
    """Build the Term through the Python API (operator overloads and Term methods).  None if the AST
    uses a form that has no API spelling (and / or / not)."""
    import data_algebra.expr_rep as er

    k = a[0]
    if k == "c":
        return er.ColumnReference(a[1])
    if k == "v":
        return er.Value(a[1])
    if k == "l":
        return er.ListTerm([er.Value(v) for v in a[1]])
    if k == "d":
        return er.DictTerm({kk: vv for kk, vv in a[1]})
    if k == "b":
        if a[1] in TEXT_ONLY_OPS:
            return None
        l, r = ast_to_term(a[2]), ast_to_term(a[3])
        if l is None or r is None:
            return None
        return _PY_BIN[a[1]](l, r)
    if k == "n":
        t = ast_to_term(a[1])
        return None if t is None else -t
    if k == "not":
        return None
    if k == "m":
        t = ast_to_term(a[2])
        args = [ast_to_term(x) for x in a[3]]
        if t is None or any(x is None for x in args):
            return None
        return getattr(t, a[1])(*args)
    if k == "f":
        args = [ast_to_term(x) for x in a[2]]
        if any(x is None for x in args):
            return None
        return er.Expression(op=a[1], args=args)
    raise ValueError(a)


def term_dump(t) -> Any:
    """Structural dump of a Term (own traversal; does not use is_equal)."""
    import data_algebra.expr_rep as er

    if isinstance(t, er.Value):
        return ("V", type(t.value).__name__, repr(t.value))
    if isinstance(t, er.ColumnReference):
        return ("C", t.column_name)
    if isinstance(t, er.ListTerm):
        return ("L", tuple(term_dump(v) if isinstance(v, er.PreTerm) else ("raw", type(v).__name__, repr(v)) for v in t.value))
    if isinstance(t, er.DictTerm):
        return ("D", tuple((type(k).__name__, repr(k), type(v).__name__, repr(v)) for k, v in t.value.items()))
    if isinstance(t, er.Expression):
        return ("E", t.op, bool(t.inline), bool(t.method), repr(t.params), tuple(term_dump(x) for x in t.args))
    return ("?", type(t).__name__, repr(t))


def child_kind(t) -> str:
    """Syntactic kind of an operand (for finding-key triggers)."""
    import data_algebra.expr_rep as er

    if isinstance(t, er.Value):
        v = t.value
        if isinstance(v, bool):
            return "bool"
        if isinstance(v, (int, float)):
            if isinstance(v, float) and (v != v or v in (float("inf"), float("-inf"))):
                return "nonfinite"
            return "negconst" if (v < 0 or (isinstance(v, float) and math.copysign(1.0, v) < 0)) else "const"
        if isinstance(v, str):
            return "str"
        return "none" if v is None else "value"
    if isinstance(t, er.ColumnReference):
        return "col"
    if isinstance(t, er.ListTerm):
        return "list"
    if isinstance(t, er.DictTerm):
        return "dict"
    if isinstance(t, er.Expression):
        return "expr[%s%s]" % (t.op, ":inline" if t.inline else (":method" if t.method else ":call"))
    return type(t).__name__


def term_shape(t) -> str:
    """op + operand kinds of the root of an Expression, e.g.  **:inline(expr[-:inline],const)"""
    import data_algebra.expr_rep as er

    if not isinstance(t, er.Expression):
        return child_kind(t)
    return "%s%s(%s)" % (t.op, ":inline" if t.inline else (":method" if t.method else ":call"), ",".join(child_kind(x) for x in t.args))


def subterms(t) -> List[Any]:
    """all Expression sub-terms, children before parents"""
    import data_algebra.expr_rep as er

    out: List[Any] = []

    def rec(x):
        if isinstance(x, er.Expression):
            for c in x.args:
                rec(c)
            out.append(x)

    rec(t)
    return out


def reparse_term(t, columns: Sequence[str]):
    """parse(print(t)) with the real printer and the real parser; ('ok', term) | ('raise', type, msg)"""
    import data_algebra.expr_rep as er
    import data_algebra.parse_by_lark as pl

    try:
        txt = str(t.to_python())
        return ("ok", pl.parse_by_lark(txt, data_def={c: er.ColumnReference(c) for c in columns}), txt)
    except Exception as e:
        return ("raise", type(e).__name__, str(e)[:200])


def minimal_unfaithful_subterms(t, columns: Sequence[str]) -> List[Tuple[str, str]]:
    """[(shape, detail)] of the smallest sub-terms whose printed text does not parse back to a
    structurally identical term (term_dump), children before parents; a parent is reported only if
    none of its descendants is."""
    import data_algebra.expr_rep as er

    bad_ids = set()
    out = []

    def has_bad_desc(x) -> bool:
        if not isinstance(x, er.Expression):
            return False
        return any((id(c) in bad_ids) or has_bad_desc(c) for c in x.args)

    for s in subterms(t):
        if has_bad_desc(s):
            continue
        r = reparse_term(s, columns)
        if r[0] == "raise":
            bad_ids.add(id(s))
            out.append((term_shape(s), "printed %r does not parse: %s: %s" % (str(s.to_python()), r[1], r[2])))
        elif term_dump(r[1]) != term_dump(s):
            bad_ids.add(id(s))
            out.append((term_shape(s), "printed %r parses back as %r" % (r[2], str(r[1].to_python()))))
    return out


# ---- typed enumeration -----------------------------------------------------------------------------

#: leaves by type.  N numeric, B boolean, S string
N_LEAVES = [["c", "x"], ["c", "y"], ["v", 2], ["v", -3], ["v", 0.5], ["v", -0.5]]
N_LEAVES_EXTRA = [["c", "k"], ["v", 3], ["v", 0], ["v", 1e22], ["v", 1e-07], ["v", -2]]
S_LEAVES = [["c", "g"], ["v", "a"], ["v", "it's"], ["v", 'q"q'], ["v", "b\\s"], ["v", "l\nn"], ["v", "'\"\\"]]
B_LEAVES = [["v", True], ["v", False]]

ARITH = ["+", "-", "*", "/", "//", "%", "**", "%/%"]
CMP = ["==", "!=", "<", "<=", ">", ">="]
BOOL_TEXT = ["and", "or"]
BOOL_API = ["&", "|", "^"]

#: (form id, kind, name, argument types, result type); the first argument of "m" is the receiver
FORMS: List[Tuple[str, str, str, Tuple[str, ...], str]] = (
    [("b" + op, "b", op, ("N", "N"), "N") for op in ARITH]
    + [("c" + op, "b", op, ("N", "N"), "B") for op in CMP]
    + [("s==", "b", "==", ("S", "S"), "B"), ("s!=", "b", "!=", ("S", "S"), "B")]
    + [("l" + op, "b", op, ("B", "B"), "B") for op in BOOL_TEXT + BOOL_API]
    + [
        ("neg", "n", "-", ("N",), "N"),
        ("not", "not", "not", ("B",), "B"),
        ("m.sin", "m", "sin", ("N",), "N"),
        ("m.abs", "m", "abs", ("N",), "N"),
        ("m.exp", "m", "exp", ("N",), "N"),
        ("m.floor", "m", "floor", ("N",), "N"),
        ("m.is_null", "m", "is_null", ("N",), "B"),
        ("m.is_bad", "m", "is_bad", ("N",), "B"),
        ("m.as_str", "m", "as_str", ("N",), "S"),
        ("m.coalesce0", "m", "coalesce", ("N", "=0"), "N"),
        ("m.coalesce", "m", "coalesce", ("N", "N"), "N"),
        ("m.maximum", "m", "maximum", ("N", "N"), "N"),
        ("m.minimum", "m", "minimum", ("N", "N"), "N"),
        ("m.arctan2", "m", "arctan2", ("N", "N"), "N"),
        ("m.mod", "m", "mod", ("N", "N"), "N"),
        ("m.if_else", "m", "if_else", ("B", "N", "N"), "N"),
        ("m.where", "m", "where", ("B", "N", "N"), "N"),
        ("m.is_in", "m", "is_in", ("N", "=LN"), "B"),
        ("m.is_in_s", "m", "is_in", ("S", "=LS"), "B"),
        ("m.mapv", "m", "mapv", ("S", "=D"), "N"),
        ("m.mapv_d", "m", "mapv", ("S", "=D", "=-1.5"), "N"),
        ("m.concat", "m", "concat", ("S", "S"), "S"),
        ("m.trimstr", "m", "trimstr", ("S", "=0", "=1"), "S"),
        ("f.sin", "f", "sin", ("N",), "N"),
        ("f.fmax", "f", "fmax", ("N", "N"), "N"),
        ("f.maximum", "f", "maximum", ("N", "N"), "N"),
        ("f.is_null", "f", "is_null", ("N",), "B"),
        ("f.coalesce", "f", "coalesce", ("N", "=0"), "N"),
        ("f.if_else", "f", "if_else", ("B", "N", "N"), "N"),
        ("f.around", "f", "around", ("N", "=1"), "N"),
    ]
)

_FIXED = {
    "=0": ["v", 0],
    "=1": ["v", 1],
    "=-1.5": ["v", -1.5],
    "=LN": ["l", [1.0, -0.5, 2.0]],
    "=LS": ["l", ["a", "it's", 'q"q', "b\\s", "l\nn"]],
    "=D": ["d", [["a", 1.0], ["it's", -2.0], ["b\\s", 0.5], ['q"q', 3.0]]],
}


def _mk(form, args):
    fid, kind, name, sig, res = form
    if kind == "b":
        return ["b", name, args[0], args[1]]
    if kind == "n":
        return ["n", args[0]]
    if kind == "not":
        return ["not", args[0]]
    if kind == "m":
        return ["m", name, args[0], list(args[1:])]
    if kind == "f":
        return ["f", name, list(args)]
    raise ValueError(kind)


def _leaves(t: str, wide: bool) -> List[Any]:
    if t == "N":
        return N_LEAVES + (N_LEAVES_EXTRA if wide else [])
    if t == "S":
        return S_LEAVES
    if t == "B":
        return B_LEAVES
    return [_FIXED[t]]


def _default_leaf(t: str, i: int) -> Any:
    if t == "N":
        return N_LEAVES[i % 2]  # x, y
    if t == "S":
        return S_LEAVES[0] if i % 2 == 0 else S_LEAVES[1]
    if t == "B":
        return B_LEAVES[i % 2]
    return _FIXED[t]


def gen_depth1(wide: bool = False) -> Iterator[Tuple[str, str, Any]]:
    """every form with every combination of leaves -> (id, result type, ast)"""
    for form in FORMS:
        sig = form[3]
        pools = [_leaves(t, wide) for t in sig]
        for combo in itertools.product(*pools):
            yield (form[0], form[4], _mk(form, list(combo)))


def _rep_depth1(t: str) -> List[Tuple[str, Any]]:
    """one representative depth-1 expression of type t per form (leaves: columns; plus a variant with a
    negative constant first for inline forms)"""
    out = []
    for form in FORMS:
        if form[4] != t:
            continue
        sig = form[3]
        args = [_default_leaf(s, i) for i, s in enumerate(sig)]
        out.append((form[0], _mk(form, args)))
        if form[1] == "b" and sig[0] == "N":
            out.append((form[0] + "~n", _mk(form, [["v", -3]] + args[1:])))
    return out


def gen_depth2(both_children: bool = True) -> Iterator[Tuple[str, str, Any]]:
    """every (root form, argument position, child form): the child is a representative depth-1
    expression, the other arguments are leaves; for inline binary roots also both children non-leaf
    over a reduced child set."""
    reps = {t: _rep_depth1(t) for t in ("N", "B", "S")}
    reduced_ids = {"b+", "b-", "b*", "b/", "b**", "neg", "m.sin", "c<", "c==", "land", "lor", "l&", "not", "m.is_null", "m.concat", "f.sin", "b-~n", "b**~n"}
    for form in FORMS:
        sig = form[3]
        for p, t in enumerate(sig):
            if t not in reps:
                continue
            for cid, child in reps[t]:
                args = [_default_leaf(s, i + 1) for i, s in enumerate(sig)]
                args[p] = child
                yield ("%s@%d<%s>" % (form[0], p, cid), form[4], _mk(form, args))
        if both_children and form[1] == "b":
            la = [(cid, c) for cid, c in reps[sig[0]] if cid in reduced_ids]
            ra = [(cid, c) for cid, c in reps[sig[1]] if cid in reduced_ids]
            for (ca, a), (cb, b) in itertools.product(la, ra):
                yield ("%s<%s,%s>" % (form[0], ca, cb), form[4], _mk(form, [a, b]))


def gen_depth3() -> Iterator[Tuple[str, str, Any]]:
    """spines of three operators: (root form, position, middle form, position, inner form)"""
    reps1 = {t: _rep_depth1(t) for t in ("N", "B", "S")}
    # depth-2 representatives by type: middle form with one non-leaf child
    reps2: Dict[str, List[Tuple[str, Any]]] = {"N": [], "B": [], "S": []}
    for form in FORMS:
        sig = form[3]
        for p, t in enumerate(sig):
            if t not in reps1:
                continue
            for cid, child in reps1[t]:
                if cid.endswith("~n"):
                    continue
                args = [_default_leaf(s, i + 1) for i, s in enumerate(sig)]
                args[p] = child
                reps2[form[4]].append(("%s@%d<%s>" % (form[0], p, cid), _mk(form, args)))
    for form in FORMS:
        sig = form[3]
        for p, t in enumerate(sig):
            if t not in reps2:
                continue
            for cid, child in reps2[t]:
                args = [_default_leaf(s, i) for i, s in enumerate(sig)]
                args[p] = child
                yield ("%s@%d<%s>" % (form[0], p, cid), form[4], _mk(form, args))


# --------------------------------------------------------------------------------------------------
# generalised pipeline builder
# --------------------------------------------------------------------------------------------------


def _expr_param(e):
    """text stays text; {"ast":..., "route": "A"|"T"} is built by the chosen route"""
    if isinstance(e, dict) and "ast" in e:
        if e.get("route", "T") == "A":
            t = ast_to_term(e["ast"])
            if t is None:
                raise ValueError("AST has no API spelling")
            return t
        s = ast_to_text(e["ast"])
        if s is None:
            raise ValueError("AST has no text spelling")
        return s
    if isinstance(e, dict) and "lit" in e:
        import data_algebra.expr_rep as er

        return er.Value(e["lit"])
    return e


def record_spec(rs: Optional[Dict[str, Any]]):
    """{"control": {col: [values]}, "record_keys": [...], "control_table_keys": [...], "strict": bool}"""
    if rs is None:
        return None
    import pandas
    import data_algebra.cdata

    ct = pandas.DataFrame({c: list(v) for c, v in rs["control"].items()})
    return data_algebra.cdata.RecordSpecification(
        ct,
        record_keys=list(rs.get("record_keys") or []),
        control_table_keys=(None if rs.get("control_table_keys") is None else list(rs["control_table_keys"])),
        strict=bool(rs.get("strict", True)),
    )


def record_map(p: Dict[str, Any]):
    import data_algebra.cdata

    if "rm" in p:
        rm = p["rm"]
        return data_algebra.cdata.RecordMap(
            blocks_in=record_spec(rm.get("blocks_in")), blocks_out=record_spec(rm.get("blocks_out")), strict=bool(rm.get("strict", True))
        )
    f = data_algebra.cdata.pivot_rowrecs_to_blocks if p["kind"] == "rowrecs_to_blocks" else data_algebra.cdata.pivot_blocks_to_rowrecs
    return f(
        attribute_key_column=p["key_col"],
        attribute_value_column=p["val_col"],
        record_keys=list(p["record_keys"]),
        record_value_columns=list(p["value_cols"]),
    )


def build_pipe(spec: Dict[str, Any], upto: Optional[int] = None):
    """spec = {"table": name, "cols": [...], "quals": {...} (optional), "steps": [[op, params], ...]}
    params["b"] of natural_join / concat_rows is a nested spec or "self"."""
    from data_algebra import TableDescription

    kw = {}
    if spec.get("quals"):
        kw["qualifiers"] = dict(spec["quals"])
    ops = TableDescription(table_name=spec["table"], column_names=list(spec["cols"]), **kw)
    steps = spec["steps"] if upto is None else spec["steps"][:upto]
    for op, p in steps:
        if op == "extend":
            ops = ops.extend(
                {k: _expr_param(v) for k, v in p["ops"].items()},
                partition_by=p.get("partition_by"),
                order_by=p.get("order_by"),
                reverse=p.get("reverse"),
            )
        elif op == "project":
            ops = ops.project({k: _expr_param(v) for k, v in p["ops"].items()}, group_by=list(p.get("group_by") or []))
        elif op == "select_rows":
            ops = ops.select_rows(_expr_param(p["expr"]))
        elif op == "select_columns":
            ops = ops.select_columns(list(p["columns"]))
        elif op == "drop_columns":
            ops = ops.drop_columns(list(p["columns"]))
        elif op == "rename_columns":
            ops = ops.rename_columns(dict(p["map"]))
        elif op == "map_columns":
            ops = ops.map_columns(dict(p["map"]))
        elif op == "order_rows":
            ops = ops.order_rows(list(p["columns"]), reverse=list(p.get("reverse") or []), limit=p.get("limit"))
        elif op in ("natural_join", "concat_rows"):
            b = p["b"]
            bops = ops if b == "self" else build_pipe(b)
            if op == "natural_join":
                on = p["on"]
                if isinstance(on, list):
                    on = [tuple(o) if isinstance(o, (list, tuple)) else o for o in on]
                ops = ops.natural_join(bops, on=on, jointype=p["jointype"])
            else:
                ops = ops.concat_rows(bops, id_column=p.get("id_column"), a_name=p.get("a_name", "a"), b_name=p.get("b_name", "b"))
        elif op == "convert_records":
            ops = ops.convert_records(record_map(p))
        else:
            raise ValueError("unknown operator in spec: %r" % (op,))
    return ops


def ast_pretty(a) -> str:
    """readable rendering of an AST whatever the route (API-only operators included)"""
    k = a[0]
    if k == "c":
        return a[1]
    if k == "v":
        return repr(a[1])
    if k == "l":
        return repr(list(a[1]))
    if k == "d":
        return repr({kk: vv for kk, vv in a[1]})
    w = lambda x: ast_pretty(x) if x[0] in ("c", "v", "l", "d") else "(" + ast_pretty(x) + ")"  # noqa: E731
    if k == "b":
        return "%s %s %s" % (w(a[2]), a[1], w(a[3]))
    if k == "n":
        return "-" + w(a[1])
    if k == "not":
        return "not " + w(a[1])
    if k == "m":
        return "%s.%s(%s)" % (w(a[2]), a[1], ", ".join(ast_pretty(x) for x in a[3]))
    if k == "f":
        return "%s(%s)" % (a[1], ", ".join(ast_pretty(x) for x in a[2]))
    return json.dumps(a)


def pipe_tables(spec: Dict[str, Any]) -> Dict[str, List[str]]:
    """{table name: columns} of all leaves of a build_pipe spec"""
    out = {spec["table"]: list(spec["cols"])}
    for op, p in spec["steps"]:
        b = p.get("b") if isinstance(p, dict) else None
        if isinstance(b, dict):
            for k, v in pipe_tables(b).items():
                out.setdefault(k, v)
    return out


def describe_pipe(spec: Dict[str, Any]) -> str:
    parts = ["TableDescription(table_name=%r, column_names=%r%s)" % (spec["table"], list(spec["cols"]), (", qualifiers=%r" % spec["quals"]) if spec.get("quals") else "")]

    def ex(e):
        if isinstance(e, dict) and "ast" in e:
            if e.get("route", "T") == "A":
                return "<API>" + ast_pretty(e["ast"])
            return repr(ast_to_text(e["ast"]))
        if isinstance(e, dict) and "lit" in e:
            return "lit(%r)" % (e["lit"],)
        return repr(e)

    for op, p in spec["steps"]:
        if op in ("extend", "project"):
            extra = "".join(", %s=%r" % (k, p[k]) for k in ("partition_by", "order_by", "reverse", "group_by") if p.get(k))
            parts.append(".%s({%s}%s)" % (op, ", ".join("%r: %s" % (k, ex(v)) for k, v in p["ops"].items()), extra))
        elif op == "select_rows":
            parts.append(".select_rows(%s)" % ex(p["expr"]))
        elif op in ("select_columns", "drop_columns"):
            parts.append(".%s(%r)" % (op, p["columns"]))
        elif op in ("rename_columns", "map_columns"):
            parts.append(".%s(%r)" % (op, p["map"]))
        elif op == "order_rows":
            parts.append(".order_rows(%r, reverse=%r, limit=%r)" % (p["columns"], p.get("reverse") or [], p.get("limit")))
        elif op == "natural_join":
            b = "self" if p["b"] == "self" else describe_pipe(p["b"])
            parts.append(".natural_join(b=%s, on=%r, jointype=%r)" % (b, p["on"], p["jointype"]))
        elif op == "concat_rows":
            b = "self" if p["b"] == "self" else describe_pipe(p["b"])
            parts.append(".concat_rows(b=%s, id_column=%r, a_name=%r, b_name=%r)" % (b, p.get("id_column"), p.get("a_name", "a"), p.get("b_name", "b")))
        elif op == "convert_records":
            parts.append(".convert_records(%s)" % (json.dumps(p, sort_keys=True),))
    return "".join(parts)
