"""cbc.oracles_c -- helpers shared by the bounded checks C04 C07 C12 C13 C14 C15 C17 C21.

Contents
--------
* pool_map                  process pool limited to MAX_WORKERS (6) workers, workers die with their parent
* build_pipe(spec)          generalised pipeline builder (arbitrary table / column names, nested right hand
                            sides, expressions given as text or as a small JSON expression AST, full RecordMaps)
* expression ASTs           gen_exprs(depth), ast_to_text (fully parenthesised), ast_to_term (Python API),
                            term_dump / pipe_dump (structural dumps, independent of is_equal / ==)
* expression TEXT grammar   gen_texts(n_ops) for C13, python_shape / term_shape
* SQL lexers                lex_sql(dialect, text) for C14 (own implementation of the vendors' lexical rules)
* reference computations    ref_* for C17 / C21 (independent of data_algebra)
* misc                      short, vkey, uhash

Nothing in here imports data_algebra.test_util.
"""
from __future__ import annotations

import collections
import hashlib
import itertools
import json
import math
import os
import pickle
import sys
import warnings
from typing import Any, Callable, Dict, Iterable, Iterator, List, Optional, Sequence, Tuple

warnings.filterwarnings("ignore")

MAX_WORKERS = 6

# --------------------------------------------------------------------------------------------------
# process pool
# --------------------------------------------------------------------------------------------------


def _init_worker():
    warnings.filterwarnings("ignore")
    try:  # die with the parent (the parent may be killed by vlib.core.run_bounded on a time-out)
        import ctypes
        import signal

        ctypes.CDLL("libc.so.6", use_errno=True).prctl(1, signal.SIGKILL)  # PR_SET_PDEATHSIG
    except Exception:
        pass


def n_workers() -> int:
    try:
        env = int(os.environ.get("VERIF_WORKERS", "0") or 0)
    except ValueError:
        env = 0
    n = env if env > 0 else MAX_WORKERS
    return max(1, min(MAX_WORKERS, n, os.cpu_count() or 1))


def pool_map(worker: Callable[[Any], Any], jobs: Sequence[Any], chunksize: int = 1) -> List[Any]:
    """Order preserving map of a module-level worker over plain-data jobs; at most 6 processes.
    VERIF_SERIAL=1 runs in-process."""
    jobs = list(jobs)
    if os.environ.get("VERIF_SERIAL") == "1" or len(jobs) <= 1:
        return [worker(j) for j in jobs]
    import concurrent.futures
    import multiprocessing

    ctx = multiprocessing.get_context("spawn")
    with concurrent.futures.ProcessPoolExecutor(max_workers=n_workers(), mp_context=ctx, initializer=_init_worker) as ex:
        return list(ex.map(worker, jobs, chunksize=chunksize))


def shards(seq: Sequence[Any], per_worker: int = 6) -> List[List[Any]]:
    """Interleaved shards, `per_worker` shards per worker process (deterministic)."""
    n = max(1, n_workers() * per_worker)
    return [s for s in (list(seq[i::n]) for i in range(n)) if s]


def uhash(obj: Any) -> str:
    return hashlib.sha256(json.dumps(obj, sort_keys=True, default=repr).encode()).hexdigest()[:8]


def short(x: Any, n: int = 300) -> str:
    s = x if isinstance(x, str) else repr(x)
    return s if len(s) <= n else s[: n - 3] + "..."


# --------------------------------------------------------------------------------------------------
# expression ASTs (plain JSON data)
# --------------------------------------------------------------------------------------------------
#   ["c", name]                     column reference
#   ["v", value]                    constant (int / float / str / bool)
#   ["b", op, A, B]                 inline binary operator
#   ["n", A]                        unary minus
#   ["not", A]                      not A                 (text route only)
#   ["m", name, A, [args...]]       method call  A.name(args)
#   ["f", name, [args...]]          function call form  name(args)
#   ["l", [values]] / ["d", {k: v}] list / dict literal (only as arguments)

API_ONLY_OPS = {"&", "|", "^"}  # Term.__and__ / __or__ / __xor__ build them; the text grammar refuses them
TEXT_ONLY_OPS = {"and", "or"}  # Python cannot overload them


def ast_depth(a) -> int:
    k = a[0]
    if k in ("c", "v", "l", "d"):
        return 0
    if k == "b":
        return 1 + max(ast_depth(a[2]), ast_depth(a[3]))
    if k in ("n", "not"):
        return 1 + ast_depth(a[1])
    if k == "m":
        return 1 + max([ast_depth(a[2])] + [ast_depth(x) for x in a[3]])
    if k == "f":
        return 1 + max([0] + [ast_depth(x) for x in a[2]])
    raise ValueError(a)


def ast_ops(a, out=None) -> set:
    """set of operator / method names used"""
    out = set() if out is None else out
    k = a[0]
    if k == "b":
        out.add(a[1])
        ast_ops(a[2], out)
        ast_ops(a[3], out)
    elif k == "n":
        out.add("neg")
        ast_ops(a[1], out)
    elif k == "not":
        out.add("not")
        ast_ops(a[1], out)
    elif k == "m":
        out.add(a[1])
        ast_ops(a[2], out)
        for x in a[3]:
            ast_ops(x, out)
    elif k == "f":
        out.add(a[1])
        for x in a[2]:
            ast_ops(x, out)
    return out


def _const_text(v) -> str:
    return repr(v)


def ast_to_text(a, top: bool = True) -> Optional[str]:
    """Fully parenthesised source text (every non-leaf operand is wrapped, negative constants are
    wrapped), so the tree the parser builds is determined by the AST alone.  None if the AST uses an
    operator the text grammar refuses (& | ^)."""
    k = a[0]
    if k == "c":
        return a[1]
    if k == "v":
        v = a[1]
        s = _const_text(v)
        if not top and isinstance(v, (int, float)) and not isinstance(v, bool) and s.startswith("-"):
            return "(" + s + ")"
        return s
    if k == "l":
        return "[" + ", ".join(_const_text(v) for v in a[1]) + "]"
    if k == "d":
        return "{" + ", ".join(_const_text(kk) + ": " + _const_text(vv) for kk, vv in a[1]) + "}"

    def operand(x):
        s = ast_to_text(x, top=False)
        if s is None:
            return None
        if x[0] in ("c", "v", "l", "d"):
            return s
        return "(" + s + ")"

    if k == "b":
        if a[1] in API_ONLY_OPS:
            return None
        l, r = operand(a[2]), operand(a[3])
        if l is None or r is None:
            return None
        return "%s %s %s" % (l, a[1], r)
    if k == "n":
        s = operand(a[1])
        return None if s is None else "-" + s
    if k == "not":
        s = operand(a[1])
        return None if s is None else "not " + s
    if k == "m":
        s = operand(a[2])
        if s is None:
            return None
        if a[2][0] == "v" and not s.startswith("("):
            s = "(" + s + ")"  # (1).sum()
        args = [ast_to_text(x, top=True) for x in a[3]]
        if any(x is None for x in args):
            return None
        return "%s.%s(%s)" % (s, a[1], ", ".join(args))
    if k == "f":
        args = [ast_to_text(x, top=True) for x in a[2]]
        if any(x is None for x in args):
            return None
        return "%s(%s)" % (a[1], ", ".join(args))
    raise ValueError(a)


_PY_BIN = {
    "+": lambda l, r: l + r,
    "-": lambda l, r: l - r,
    "*": lambda l, r: l * r,
    "/": lambda l, r: l / r,
    "//": lambda l, r: l // r,
    "%": lambda l, r: l % r,
    "**": lambda l, r: l**r,
    "==": lambda l, r: l == r,
    "!=": lambda l, r: l != r,
    "<": lambda l, r: l < r,
    "<=": lambda l, r: l <= r,
    ">": lambda l, r: l > r,
    ">=": lambda l, r: l >= r,
    "&": lambda l, r: l & r,
    "|": lambda l, r: l | r,
    "^": lambda l, r: l ^ r,
    "%/%": lambda l, r: l.float_divide(r),
}


def ast_to_term(a):
    """Build the Term through the Python API (operator overloads and Term methods).  None if the AST
    uses a form that has no API spelling (and / or / not)."""
    import data_algebra.expr_rep as er

    k = a[0]
    if k == "c":
        return er.ColumnReference(a[1])
    if k == "v":
        return er.Value(a[1])
    if k == "l":
        return er.ListTerm([er.Value(v) for v in a[1]])
    if k == "d":
        return er.DictTerm({kk: vv for kk, vv in a[1]})
    if k == "b":
        if a[1] in TEXT_ONLY_OPS:
            return None
        l, r = ast_to_term(a[2]), ast_to_term(a[3])
        if l is None or r is None:
            return None
        return _PY_BIN[a[1]](l, r)
    if k == "n":
        t = ast_to_term(a[1])
        return None if t is None else -t
    if k == "not":
        return None
    if k == "m":
        t = ast_to_term(a[2])
        args = [ast_to_term(x) for x in a[3]]
        if t is None or any(x is None for x in args):
            return None
        return getattr(t, a[1])(*args)
    if k == "f":
        args = [ast_to_term(x) for x in a[2]]
        if any(x is None for x in args):
            return None
        return er.Expression(op=a[1], args=args)
    raise ValueError(a)


def term_dump(t) -> Any:
    """Structural dump of a Term (own traversal; does not use is_equal)."""
    import data_algebra.expr_rep as er

    if isinstance(t, er.Value):
        return ("V", type(t.value).__name__, repr(t.value))
    if isinstance(t, er.ColumnReference):
        return ("C", t.column_name)
    if isinstance(t, er.ListTerm):
        return ("L", tuple(term_dump(v) if isinstance(v, er.PreTerm) else ("raw", type(v).__name__, repr(v)) for v in t.value))
    if isinstance(t, er.DictTerm):
        return ("D", tuple((type(k).__name__, repr(k), type(v).__name__, repr(v)) for k, v in t.value.items()))
    if isinstance(t, er.Expression):
        return ("E", t.op, bool(t.inline), bool(t.method), repr(t.params), tuple(term_dump(x) for x in t.args))
    return ("?", type(t).__name__, repr(t))


def child_kind(t) -> str:
    """Syntactic kind of an operand (for finding-key triggers)."""
    import data_algebra.expr_rep as er

    if isinstance(t, er.Value):
        v = t.value
        if isinstance(v, bool):
            return "bool"
        if isinstance(v, (int, float)):
            if isinstance(v, float) and (v != v or v in (float("inf"), float("-inf"))):
                return "nonfinite"
            return "negconst" if (v < 0 or (isinstance(v, float) and math.copysign(1.0, v) < 0)) else "const"
        if isinstance(v, str):
            return "str"
        return "none" if v is None else "value"
    if isinstance(t, er.ColumnReference):
        return "col"
    if isinstance(t, er.ListTerm):
        return "list"
    if isinstance(t, er.DictTerm):
        return "dict"
    if isinstance(t, er.Expression):
        return "expr[%s%s]" % (t.op, ":inline" if t.inline else (":method" if t.method else ":call"))
    return type(t).__name__


def term_shape(t) -> str:
    """op + operand kinds of the root of an Expression, e.g.  **:inline(expr[-:inline],const)"""
    import data_algebra.expr_rep as er

    if not isinstance(t, er.Expression):
        return child_kind(t)
    return "%s%s(%s)" % (t.op, ":inline" if t.inline else (":method" if t.method else ":call"), ",".join(child_kind(x) for x in t.args))


def subterms(t) -> List[Any]:
    """all Expression sub-terms, children before parents"""
    import data_algebra.expr_rep as er

    out: List[Any] = []

    def rec(x):
        if isinstance(x, er.Expression):
            for c in x.args:
                rec(c)
            out.append(x)

    rec(t)
    return out


def reparse_term(t, columns: Sequence[str]):
    """parse(print(t)) with the real printer and the real parser; ('ok', term) | ('raise', type, msg)"""
    import data_algebra.expr_rep as er
    import data_algebra.parse_by_lark as pl

    try:
        txt = str(t.to_python())
        return ("ok", pl.parse_by_lark(txt, data_def={c: er.ColumnReference(c) for c in columns}), txt)
    except Exception as e:
        return ("raise", type(e).__name__, str(e)[:200])


def minimal_unfaithful_subterms(t, columns: Sequence[str]) -> List[Tuple[str, str]]:
    """[(shape, detail)] of the smallest sub-terms whose printed text does not parse back to a
    structurally identical term (term_dump), children before parents; a parent is reported only if
    none of its descendants is."""
    import data_algebra.expr_rep as er

    bad_ids = set()
    out = []

    def has_bad_desc(x) -> bool:
        if not isinstance(x, er.Expression):
            return False
        return any((id(c) in bad_ids) or has_bad_desc(c) for c in x.args)

    for s in subterms(t):
        if has_bad_desc(s):
            continue
        r = reparse_term(s, columns)
        if r[0] == "raise":
            bad_ids.add(id(s))
            out.append((term_shape(s), "printed %r does not parse: %s: %s" % (str(s.to_python()), r[1], r[2])))
        elif term_dump(r[1]) != term_dump(s):
            bad_ids.add(id(s))
            out.append((term_shape(s), "printed %r parses back as %r" % (r[2], str(r[1].to_python()))))
    return out


# ---- typed enumeration -----------------------------------------------------------------------------

#: leaves by type.  N numeric, B boolean, S string
N_LEAVES = [["c", "x"], ["c", "y"], ["v", 2], ["v", -3], ["v", 0.5], ["v", -0.5]]
N_LEAVES_EXTRA = [["c", "k"], ["v", 3], ["v", 0], ["v", 1e22], ["v", 1e-07], ["v", -2]]
S_LEAVES = [["c", "g"], ["v", "a"], ["v", "it's"], ["v", 'q"q'], ["v", "b\\s"], ["v", "l\nn"], ["v", "'\"\\"]]
B_LEAVES = [["v", True], ["v", False]]

ARITH = ["+", "-", "*", "/", "//", "%", "**", "%/%"]
CMP = ["==", "!=", "<", "<=", ">", ">="]
BOOL_TEXT = ["and", "or"]
BOOL_API = ["&", "|", "^"]

#: (form id, kind, name, argument types, result type); the first argument of "m" is the receiver
FORMS: List[Tuple[str, str, str, Tuple[str, ...], str]] = (
    [("b" + op, "b", op, ("N", "N"), "N") for op in ARITH]
    + [("c" + op, "b", op, ("N", "N"), "B") for op in CMP]
    + [("s==", "b", "==", ("S", "S"), "B"), ("s!=", "b", "!=", ("S", "S"), "B")]
    + [("l" + op, "b", op, ("B", "B"), "B") for op in BOOL_TEXT + BOOL_API]
    + [
        ("neg", "n", "-", ("N",), "N"),
        ("not", "not", "not", ("B",), "B"),
        ("m.sin", "m", "sin", ("N",), "N"),
        ("m.abs", "m", "abs", ("N",), "N"),
        ("m.exp", "m", "exp", ("N",), "N"),
        ("m.floor", "m", "floor", ("N",), "N"),
        ("m.is_null", "m", "is_null", ("N",), "B"),
        ("m.is_bad", "m", "is_bad", ("N",), "B"),
        ("m.as_str", "m", "as_str", ("N",), "S"),
        ("m.coalesce0", "m", "coalesce", ("N", "=0"), "N"),
        ("m.coalesce", "m", "coalesce", ("N", "N"), "N"),
        ("m.maximum", "m", "maximum", ("N", "N"), "N"),
        ("m.minimum", "m", "minimum", ("N", "N"), "N"),
        ("m.arctan2", "m", "arctan2", ("N", "N"), "N"),
        ("m.mod", "m", "mod", ("N", "N"), "N"),
        ("m.if_else", "m", "if_else", ("B", "N", "N"), "N"),
        ("m.where", "m", "where", ("B", "N", "N"), "N"),
        ("m.is_in", "m", "is_in", ("N", "=LN"), "B"),
        ("m.is_in_s", "m", "is_in", ("S", "=LS"), "B"),
        ("m.mapv", "m", "mapv", ("S", "=D"), "N"),
        ("m.mapv_d", "m", "mapv", ("S", "=D", "=-1.5"), "N"),
        ("m.concat", "m", "concat", ("S", "S"), "S"),
        ("m.trimstr", "m", "trimstr", ("S", "=0", "=1"), "S"),
        ("f.sin", "f", "sin", ("N",), "N"),
        ("f.fmax", "f", "fmax", ("N", "N"), "N"),
        ("f.maximum", "f", "maximum", ("N", "N"), "N"),
        ("f.is_null", "f", "is_null", ("N",), "B"),
        ("f.coalesce", "f", "coalesce", ("N", "=0"), "N"),
        ("f.if_else", "f", "if_else", ("B", "N", "N"), "N"),
        ("f.around", "f", "around", ("N", "=1"), "N"),
    ]
)

_FIXED = {
    "=0": ["v", 0],
    "=1": ["v", 1],
    "=-1.5": ["v", -1.5],
    "=LN": ["l", [1.0, -0.5, 2.0]],
    "=LS": ["l", ["a", "it's", 'q"q', "b\\s", "l\nn"]],
    "=D": ["d", [["a", 1.0], ["it's", -2.0], ["b\\s", 0.5], ['q"q', 3.0]]],
}


def _mk(form, args):
    fid, kind, name, sig, res = form
    if kind == "b":
        return ["b", name, args[0], args[1]]
    if kind == "n":
        return ["n", args[0]]
    if kind == "not":
        return ["not", args[0]]
    if kind == "m":
        return ["m", name, args[0], list(args[1:])]
    if kind == "f":
        return ["f", name, list(args)]
    raise ValueError(kind)


def _leaves(t: str, wide: bool) -> List[Any]:
    if t == "N":
        return N_LEAVES + (N_LEAVES_EXTRA if wide else [])
    if t == "S":
        return S_LEAVES
    if t == "B":
        return B_LEAVES
    return [_FIXED[t]]


def _default_leaf(t: str, i: int) -> Any:
    if t == "N":
        return N_LEAVES[i % 2]  # x, y
    if t == "S":
        return S_LEAVES[0] if i % 2 == 0 else S_LEAVES[1]
    if t == "B":
        return B_LEAVES[i % 2]
    return _FIXED[t]


def gen_depth1(wide: bool = False) -> Iterator[Tuple[str, str, Any]]:
    """every form with every combination of leaves -> (id, result type, ast)"""
    for form in FORMS:
        sig = form[3]
        pools = [_leaves(t, wide) for t in sig]
        for combo in itertools.product(*pools):
            yield (form[0], form[4], _mk(form, list(combo)))


def _rep_depth1(t: str) -> List[Tuple[str, Any]]:
    """one representative depth-1 expression of type t per form (leaves: columns; plus a variant with a
    negative constant first for inline forms)"""
    out = []
    for form in FORMS:
        if form[4] != t:
            continue
        sig = form[3]
        args = [_default_leaf(s, i) for i, s in enumerate(sig)]
        out.append((form[0], _mk(form, args)))
        if form[1] == "b" and sig[0] == "N":
            out.append((form[0] + "~n", _mk(form, [["v", -3]] + args[1:])))
    return out


def gen_depth2(both_children: bool = True) -> Iterator[Tuple[str, str, Any]]:
    """every (root form, argument position, child form): the child is a representative depth-1
    expression, the other arguments are leaves; for inline binary roots also both children non-leaf
    over a reduced child set."""
    reps = {t: _rep_depth1(t) for t in ("N", "B", "S")}
    reduced_ids = {"b+", "b-", "b*", "b/", "b**", "neg", "m.sin", "c<", "c==", "land", "lor", "l&", "not", "m.is_null", "m.concat", "f.sin", "b-~n", "b**~n"}
    for form in FORMS:
        sig = form[3]
        for p, t in enumerate(sig):
            if t not in reps:
                continue
            for cid, child in reps[t]:
                args = [_default_leaf(s, i + 1) for i, s in enumerate(sig)]
                args[p] = child
                yield ("%s@%d<%s>" % (form[0], p, cid), form[4], _mk(form, args))
        if both_children and form[1] == "b":
            la = [(cid, c) for cid, c in reps[sig[0]] if cid in reduced_ids]
            ra = [(cid, c) for cid, c in reps[sig[1]] if cid in reduced_ids]
            for (ca, a), (cb, b) in itertools.product(la, ra):
                yield ("%s<%s,%s>" % (form[0], ca, cb), form[4], _mk(form, [a, b]))


def gen_depth3() -> Iterator[Tuple[str, str, Any]]:
    """spines of three operators: (root form, position, middle form, position, inner form)"""
    reps1 = {t: _rep_depth1(t) for t in ("N", "B", "S")}
    # depth-2 representatives by type: middle form with one non-leaf child
    reps2: Dict[str, List[Tuple[str, Any]]] = {"N": [], "B": [], "S": []}
    for form in FORMS:
        sig = form[3]
        for p, t in enumerate(sig):
            if t not in reps1:
                continue
            for cid, child in reps1[t]:
                if cid.endswith("~n"):
                    continue
                args = [_default_leaf(s, i + 1) for i, s in enumerate(sig)]
                args[p] = child
                reps2[form[4]].append(("%s@%d<%s>" % (form[0], p, cid), _mk(form, args)))
    for form in FORMS:
        sig = form[3]
        for p, t in enumerate(sig):
            if t not in reps2:
                continue
            for cid, child in reps2[t]:
                args = [_default_leaf(s, i) for i, s in enumerate(sig)]
                args[p] = child
                yield ("%s@%d<%s>" % (form[0], p, cid), form[4], _mk(form, args))


# --------------------------------------------------------------------------------------------------
# generalised pipeline builder
# --------------------------------------------------------------------------------------------------


def _expr_param(e):
    """text stays text; {"ast":..., "route": "A"|"T"} is built by the chosen route"""
    if isinstance(e, dict) and "ast" in e:
        if e.get("route", "T") == "A":
            t = ast_to_term(e["ast"])
            if t is None:
                raise ValueError("AST has no API spelling")
            return t
        s = ast_to_text(e["ast"])
        if s is None:
            raise ValueError("AST has no text spelling")
        return s
    if isinstance(e, dict) and "lit" in e:
        import data_algebra.expr_rep as er

        return er.Value(e["lit"])
    return e


def record_spec(rs: Optional[Dict[str, Any]]):
    """{"control": {col: [values]}, "record_keys": [...], "control_table_keys": [...], "strict": bool}"""
    if rs is None:
        return None
    import pandas
    import data_algebra.cdata

    ct = pandas.DataFrame({c: list(v) for c, v in rs["control"].items()})
    return data_algebra.cdata.RecordSpecification(
        ct,
        record_keys=list(rs.get("record_keys") or []),
        control_table_keys=(None if rs.get("control_table_keys") is None else list(rs["control_table_keys"])),
        strict=bool(rs.get("strict", True)),
    )


def record_map(p: Dict[str, Any]):
    import data_algebra.cdata

    if "rm" in p:
        rm = p["rm"]
        return data_algebra.cdata.RecordMap(
            blocks_in=record_spec(rm.get("blocks_in")), blocks_out=record_spec(rm.get("blocks_out")), strict=bool(rm.get("strict", True))
        )
    f = data_algebra.cdata.pivot_rowrecs_to_blocks if p["kind"] == "rowrecs_to_blocks" else data_algebra.cdata.pivot_blocks_to_rowrecs
    return f(
        attribute_key_column=p["key_col"],
        attribute_value_column=p["val_col"],
        record_keys=list(p["record_keys"]),
        record_value_columns=list(p["value_cols"]),
    )


def build_pipe(spec: Dict[str, Any], upto: Optional[int] = None):
    """spec = {"table": name, "cols": [...], "quals": {...} (optional), "steps": [[op, params], ...]}
    params["b"] of natural_join / concat_rows is a nested spec or "self"."""
    from data_algebra import TableDescription

    kw = {}
    if spec.get("quals"):
        kw["qualifiers"] = dict(spec["quals"])
    ops = TableDescription(table_name=spec["table"], column_names=list(spec["cols"]), **kw)
    steps = spec["steps"] if upto is None else spec["steps"][:upto]
    return apply_steps(ops, steps)


def apply_steps(ops, steps):
    """apply build_pipe steps to an existing pipeline object (keeps object sharing of `ops`)"""
    for op, p in steps:
        if op == "extend":
            ops = ops.extend(
                {k: _expr_param(v) for k, v in p["ops"].items()},
                partition_by=p.get("partition_by"),
                order_by=p.get("order_by"),
                reverse=p.get("reverse"),
            )
        elif op == "project":
            ops = ops.project({k: _expr_param(v) for k, v in p["ops"].items()}, group_by=list(p.get("group_by") or []))
        elif op == "select_rows":
            ops = ops.select_rows(_expr_param(p["expr"]))
        elif op == "select_columns":
            ops = ops.select_columns(list(p["columns"]))
        elif op == "drop_columns":
            ops = ops.drop_columns(list(p["columns"]))
        elif op == "rename_columns":
            ops = ops.rename_columns(dict(p["map"]))
        elif op == "map_columns":
            ops = ops.map_columns(dict(p["map"]))
        elif op == "order_rows":
            ops = ops.order_rows(list(p["columns"]), reverse=list(p.get("reverse") or []), limit=p.get("limit"))
        elif op in ("natural_join", "concat_rows"):
            b = p["b"]
            bops = ops if b == "self" else (b if not isinstance(b, dict) else build_pipe(b))
            if op == "natural_join":
                on = p["on"]
                if isinstance(on, list):
                    on = [tuple(o) if isinstance(o, (list, tuple)) else o for o in on]
                ops = ops.natural_join(bops, on=on, jointype=p["jointype"])
            else:
                ops = ops.concat_rows(bops, id_column=p.get("id_column"), a_name=p.get("a_name", "a"), b_name=p.get("b_name", "b"))
        elif op == "convert_records":
            ops = ops.convert_records(record_map(p))
        else:
            raise ValueError("unknown operator in spec: %r" % (op,))
    return ops


def ast_pretty(a) -> str:
    """readable rendering of an AST whatever the route (API-only operators included)"""
    k = a[0]
    if k == "c":
        return a[1]
    if k == "v":
        return repr(a[1])
    if k == "l":
        return repr(list(a[1]))
    if k == "d":
        return repr({kk: vv for kk, vv in a[1]})
    w = lambda x: ast_pretty(x) if x[0] in ("c", "v", "l", "d") else "(" + ast_pretty(x) + ")"  # noqa: E731
    if k == "b":
        return "%s %s %s" % (w(a[2]), a[1], w(a[3]))
    if k == "n":
        return "-" + w(a[1])
    if k == "not":
        return "not " + w(a[1])
    if k == "m":
        return "%s.%s(%s)" % (w(a[2]), a[1], ", ".join(ast_pretty(x) for x in a[3]))
    if k == "f":
        return "%s(%s)" % (a[1], ", ".join(ast_pretty(x) for x in a[2]))
    return json.dumps(a)


def pipe_tables(spec: Dict[str, Any]) -> Dict[str, List[str]]:
    """{table name: columns} of all leaves of a build_pipe spec"""
    out = {spec["table"]: list(spec["cols"])}
    for op, p in spec["steps"]:
        b = p.get("b") if isinstance(p, dict) else None
        if isinstance(b, dict):
            for k, v in pipe_tables(b).items():
                out.setdefault(k, v)
    return out


def describe_pipe(spec: Dict[str, Any]) -> str:
    parts = ["TableDescription(table_name=%r, column_names=%r%s)" % (spec["table"], list(spec["cols"]), (", qualifiers=%r" % spec["quals"]) if spec.get("quals") else "")]

    def ex(e):
        if isinstance(e, dict) and "ast" in e:
            if e.get("route", "T") == "A":
                return "<API>" + ast_pretty(e["ast"])
            return repr(ast_to_text(e["ast"]))
        if isinstance(e, dict) and "lit" in e:
            return "lit(%r)" % (e["lit"],)
        return repr(e)

    for op, p in spec["steps"]:
        if op in ("extend", "project"):
            extra = "".join(", %s=%r" % (k, p[k]) for k in ("partition_by", "order_by", "reverse", "group_by") if p.get(k))
            parts.append(".%s({%s}%s)" % (op, ", ".join("%r: %s" % (k, ex(v)) for k, v in p["ops"].items()), extra))
        elif op == "select_rows":
            parts.append(".select_rows(%s)" % ex(p["expr"]))
        elif op in ("select_columns", "drop_columns"):
            parts.append(".%s(%r)" % (op, p["columns"]))
        elif op in ("rename_columns", "map_columns"):
            parts.append(".%s(%r)" % (op, p["map"]))
        elif op == "order_rows":
            parts.append(".order_rows(%r, reverse=%r, limit=%r)" % (p["columns"], p.get("reverse") or [], p.get("limit")))
        elif op == "natural_join":
            b = "self" if p["b"] == "self" else describe_pipe(p["b"])
            parts.append(".natural_join(b=%s, on=%r, jointype=%r)" % (b, p["on"], p["jointype"]))
        elif op == "concat_rows":
            b = "self" if p["b"] == "self" else describe_pipe(p["b"])
            parts.append(".concat_rows(b=%s, id_column=%r, a_name=%r, b_name=%r)" % (b, p.get("id_column"), p.get("a_name", "a"), p.get("b_name", "b")))
        elif op == "convert_records":
            parts.append(".convert_records(%s)" % (json.dumps(p, sort_keys=True),))
    return "".join(parts)


# --------------------------------------------------------------------------------------------------
# C13: expression TEXT generator, Python-side shape and value oracles
# --------------------------------------------------------------------------------------------------

T_ARITH = ["+", "-", "*", "/", "//", "%", "**"]
T_CMP = ["<", "<=", ">", ">=", "==", "!="]
T_BOOL = ["and", "or"]
T_BIN = T_ARITH + T_CMP + T_BOOL
LEAF_PATTERNS = [["x", 2, "y", 3, 0.5], [3, "x", 0.5, "y", 2], ["y", "x", 2, 0.5, 3]]
XY_VALUES = [-2, -1, 1, 2, 0.5]

_TREE_CACHE: Dict[int, List[Any]] = {}


def gen_trees(n: int) -> List[Any]:
    """all operator trees with exactly n operators over leaf placeholders "L":
    ("bin", op, A, B) | ("neg", A) | ("not", A) | ("chain", [op1, op2], [A, B, C]) (two comparison operators)"""
    if n in _TREE_CACHE:
        return _TREE_CACHE[n]
    if n == 0:
        out: List[Any] = ["L"]
    else:
        out = []
        for t in gen_trees(n - 1):
            out.append(("neg", t))
            out.append(("not", t))
        for i in range(n):
            for a in gen_trees(i):
                for b in gen_trees(n - 1 - i):
                    for op in T_BIN:
                        out.append(("bin", op, a, b))
        if n >= 2:
            for i in range(n - 1):
                for j in range(n - 1 - i):
                    k = n - 2 - i - j
                    for a in gen_trees(i):
                        for b in gen_trees(j):
                            for c in gen_trees(k):
                                for o1 in T_CMP:
                                    for o2 in T_CMP:
                                        out.append(("chain", [o1, o2], [a, b, c]))
    _TREE_CACHE[n] = out
    return out


def fill_leaves(tree, pattern: Sequence[Any]):
    it = [0]

    def rec(t):
        if t == "L":
            v = pattern[it[0] % len(pattern)]
            it[0] += 1
            return ("leaf", v)
        if t[0] == "bin":
            l = rec(t[2])
            r = rec(t[3])
            return ("bin", t[1], l, r)
        if t[0] in ("neg", "not"):
            return (t[0], rec(t[1]))
        if t[0] == "chain":
            return ("chain", list(t[1]), [rec(x) for x in t[2]])
        raise ValueError(t)

    return rec(tree)


def full_paren_text(t, top: bool = True) -> str:
    """every compound operand in parentheses"""
    k = t[0]
    if k == "leaf":
        return t[1] if isinstance(t[1], str) else repr(t[1])
    w = lambda x: full_paren_text(x, False) if x[0] == "leaf" else "(" + full_paren_text(x, False) + ")"  # noqa: E731
    if k == "bin":
        return "%s %s %s" % (w(t[2]), t[1], w(t[3]))
    if k == "neg":
        return "-" + w(t[1])
    if k == "not":
        return "not " + w(t[1])
    if k == "chain":
        return "%s %s %s %s %s" % (w(t[2][0]), t[1][0], w(t[2][1]), t[1][1], w(t[2][2]))
    raise ValueError(t)


_PYOPS = None


def _pyops():
    global _PYOPS
    if _PYOPS is None:
        import ast

        _PYOPS = {
            ast.Add: "+", ast.Sub: "-", ast.Mult: "*", ast.Div: "/", ast.FloorDiv: "//", ast.Mod: "%", ast.Pow: "**",
            ast.Lt: "<", ast.LtE: "<=", ast.Gt: ">", ast.GtE: ">=", ast.Eq: "==", ast.NotEq: "!=",
            ast.And: "and", ast.Or: "or",
        }  # fmt: skip
    return _PYOPS


FLATTEN = ("+", "*", "and", "or")


def _flat(op, args):
    """left-spine flattening of an associative operator (a op b) op c == a op b op c"""
    if op in FLATTEN and args and isinstance(args[0], tuple) and args[0][0] == op:
        return (op,) + tuple(args[0][1:]) + tuple(args[1:])
    return (op,) + tuple(args)


def python_shape(text: str):
    """Shape of the text under PYTHON's grammar (ast.parse), mapped to the DSL's documented encodings:
    -<constant> is a constant; `not a` is `a == False`; + * and or are flattened along the left spine;
    a comparison chain stays a chain node (the DSL has no such node)."""
    import ast

    ops = _pyops()

    def rec(n):
        if isinstance(n, ast.Constant):
            return ("v", type(n.value).__name__, n.value)
        if isinstance(n, ast.Name):
            return ("c", n.id)
        if isinstance(n, ast.UnaryOp):
            a = rec(n.operand)
            if isinstance(n.op, ast.USub):
                if a[0] == "v" and a[1] in ("int", "float"):
                    return ("v", a[1], -a[2])
                return ("neg", a)
            if isinstance(n.op, ast.Not):
                return ("==", a, ("v", "bool", False))
            raise ValueError("unary " + type(n.op).__name__)
        if isinstance(n, ast.BinOp):
            return _flat(ops[type(n.op)], [rec(n.left), rec(n.right)])
        if isinstance(n, ast.BoolOp):
            vals = [rec(v) for v in n.values]
            out = vals[0]
            for v in vals[1:]:
                out = _flat(ops[type(n.op)], [out, v])
            return out
        if isinstance(n, ast.Compare):
            if len(n.ops) == 1:
                return (ops[type(n.ops[0])], rec(n.left), rec(n.comparators[0]))
            return ("chain", tuple(ops[type(o)] for o in n.ops), tuple([rec(n.left)] + [rec(c) for c in n.comparators]))
        raise ValueError("node " + type(n).__name__)

    return rec(ast.parse(text, mode="eval").body)


def unchain(shape):
    """the DSL's (known, wrong) reading of comparison chains: left-nested binary comparisons"""
    if not isinstance(shape, tuple) or not shape:
        return shape
    if shape[0] == "chain":
        ops, args = shape[1], [unchain(a) for a in shape[2]]
        out = args[0]
        for o, a in zip(ops, args[1:]):
            out = (o, out, a)
        return out
    if shape[0] in ("v", "c"):
        return shape
    return _flat(shape[0], [unchain(a) for a in shape[1:]])


def has_chain(shape) -> bool:
    if not isinstance(shape, tuple) or not shape or shape[0] in ("v", "c"):
        return False
    if shape[0] == "chain":
        return True
    return any(has_chain(a) for a in shape[1:])


def dsl_shape(term):
    """Shape of a parsed DSL term in the same vocabulary"""
    import data_algebra.expr_rep as er

    if isinstance(term, er.Value):
        return ("v", type(term.value).__name__, term.value)
    if isinstance(term, er.ColumnReference):
        return ("c", term.column_name)
    if isinstance(term, er.Expression):
        args = [dsl_shape(a) for a in term.args]
        if term.op == "-" and len(args) == 1:
            return ("neg", args[0])
        if not term.inline:
            return ("call:" + term.op,) + tuple(args)
        out = args[0]
        if len(args) == 1:
            return (term.op, out)
        if term.op in FLATTEN:
            for a in args[1:]:
                out = _flat(term.op, [out, a])
            return out
        return (term.op,) + tuple(args)
    return ("?", repr(term))


def minimal_paren_text(full: str) -> str:
    """remove every pair of parentheses whose removal leaves python_shape unchanged"""
    want = python_shape(full)
    text = full
    changed = True
    while changed:
        changed = False
        stack = []
        pairs = []
        for i, ch in enumerate(text):
            if ch == "(":
                stack.append(i)
            elif ch == ")":
                pairs.append((stack.pop(), i))
        for a, b in pairs:
            cand = text[:a] + text[a + 1 : b] + text[b + 1 :]
            try:
                if python_shape(cand) == want:
                    text = cand
                    changed = True
                    break
            except (SyntaxError, ValueError):
                continue
    return text


class Skip(Exception):
    pass


def python_value(text: str, env: Dict[str, Any]):
    """Evaluate the text with Python's semantics on Python's AST, raising Skip(reason) where Python and
    the DSL do not define the operators identically.  The caller cross-checks with the builtin eval()."""
    import ast
    import operator

    BIN = {
        ast.Add: operator.add, ast.Sub: operator.sub, ast.Mult: operator.mul, ast.Div: operator.truediv,
        ast.FloorDiv: operator.floordiv, ast.Mod: operator.mod, ast.Pow: operator.pow,
    }  # fmt: skip
    CMP = {ast.Lt: operator.lt, ast.LtE: operator.le, ast.Gt: operator.gt, ast.GtE: operator.ge, ast.Eq: operator.eq, ast.NotEq: operator.ne}

    def chk(v):
        if isinstance(v, complex):
            raise Skip("complex-power")
        if isinstance(v, bool):
            return v
        if isinstance(v, int) and abs(v) >= 2**62:
            raise Skip("overflow")
        if isinstance(v, float) and (v != v or v in (float("inf"), float("-inf")) or abs(v) > 1e300):
            raise Skip("overflow")
        return v

    def rec(n):
        if isinstance(n, ast.Constant):
            return n.value
        if isinstance(n, ast.Name):
            return env[n.id]
        if isinstance(n, ast.UnaryOp):
            a = rec(n.operand)
            if isinstance(n.op, ast.USub):
                if isinstance(a, bool):
                    raise Skip("bool-arithmetic")
                return chk(-a)
            if isinstance(n.op, ast.Not):
                if not isinstance(a, bool):
                    raise Skip("truthiness-of-number")
                return not a
            raise Skip("unary-op")
        if isinstance(n, ast.BinOp):
            l, r = rec(n.left), rec(n.right)
            if isinstance(l, bool) or isinstance(r, bool):
                raise Skip("bool-arithmetic")
            if isinstance(n.op, ast.Pow):
                if isinstance(l, int) and isinstance(r, int) and r < 0:
                    raise Skip("int-pow-negative-int")
                if l < 0 and isinstance(r, float) and r != int(r):
                    raise Skip("complex-power")
                if isinstance(r, (int, float)) and abs(r) > 64 and abs(l) > 1:
                    raise Skip("overflow")
            try:
                return chk(BIN[type(n.op)](l, r))
            except ZeroDivisionError:
                raise Skip("division-by-zero")
            except OverflowError:
                raise Skip("overflow")
        if isinstance(n, ast.BoolOp):
            vals = []
            for v in n.values:  # no short circuit: every operand must be defined in both worlds
                a = rec(v)
                if not isinstance(a, bool):
                    raise Skip("truthiness-of-number")
                vals.append(a)
            return all(vals) if isinstance(n.op, ast.And) else any(vals)
        if isinstance(n, ast.Compare):
            operands = [rec(n.left)] + [rec(c) for c in n.comparators]
            res = True
            for o, a, b in zip(n.ops, operands, operands[1:]):
                if isinstance(a, bool) != isinstance(b, bool):
                    raise Skip("bool-number-comparison")
                res = res and CMP[type(o)](a, b)
            return res
        raise Skip("node-" + type(n).__name__)

    return rec(ast.parse(text, mode="eval").body)


#: shapes (O.term_shape of the minimal sub-term whose printed text parses back differently) of the
#: printing defects confirmed natively on the pinned tree -> (site, trigger); shared by C12 and C13
def print_shape_trigger(shape: str) -> Optional[Tuple[str, str]]:
    if shape.startswith("**:inline(expr[-:inline],"):
        return ("expr_rep.Expression.to_python", "unary-minus-base-of-power")
    if shape.startswith("**:inline(negconst,"):
        return ("expr_rep.Expression.to_python", "negative-constant-base-of-power")
    return None


# --------------------------------------------------------------------------------------------------
# C14: small SQL lexers (own implementation of the dialects' documented lexical rules)
# --------------------------------------------------------------------------------------------------
# string literals:  quote doubling ('' inside '...') in every dialect; backslash escapes additionally in
#                   MySQL, Spark SQL and BigQuery; MySQL / Spark / BigQuery accept both ' and " as string quotes
# identifiers:      "..." for SQLite / PostgreSQL (SQLite also accepts `...` and [...]); `...` for MySQL / Spark / BigQuery
# comments:         -- to end of line (MySQL: only when followed by white space), /* ... */, # to end of line in MySQL / BigQuery

SQL_DIALECTS: Dict[str, Dict[str, Any]] = {
    "SQLiteModel": {"str_quotes": "'", "id_quotes": '"`', "backslash": False, "hash_comment": False, "dashdash_needs_space": False},
    "PostgreSQLModel": {"str_quotes": "'", "id_quotes": '"', "backslash": False, "hash_comment": False, "dashdash_needs_space": False},
    "MySQLModel": {"str_quotes": "'\"", "id_quotes": "`", "backslash": True, "hash_comment": True, "dashdash_needs_space": True},
    "SparkSQLModel": {"str_quotes": "'\"", "id_quotes": "`", "backslash": True, "hash_comment": False, "dashdash_needs_space": False},
    "BigQueryModel": {"str_quotes": "'\"", "id_quotes": "`", "backslash": True, "hash_comment": True, "dashdash_needs_space": False},
}

_SIMPLE_ESC = {"n": "\n", "t": "\t", "r": "\r", "b": "\b", "0": "\0", "\\": "\\", "'": "'", '"': '"', "`": "`"}


def _decode_escape(dialect: str, c: str) -> Optional[str]:
    """value of the escape sequence backslash + c (single character escapes only); None = invalid"""
    if c in _SIMPLE_ESC:
        if c == "0" and dialect == "BigQueryModel":
            return None  # octal escapes need three digits
        if c == "`" and dialect != "BigQueryModel":
            return "`"
        return _SIMPLE_ESC[c]
    if dialect in ("MySQLModel", "SparkSQLModel"):
        if c in "%_":
            return "\\" + c  # the backslash is kept
        if c == "Z":
            return "\x1a"
        return c  # any other escaped character stands for itself
    if dialect == "BigQueryModel":
        if c in "afv?":
            return {"a": "\a", "f": "\f", "v": "\v", "?": "?"}[c]
        return None  # BigQuery: unknown escape sequences are errors
    return c


def lex_sql(dialect: str, text: str) -> List[Tuple[str, Any]]:
    """-> [(kind, decoded)]: kind is 'str' | 'qid' | 'w:<UPPERCASE WORD>' | 'num' | 'p:<char>' | 'err:<what>';
    comments and white space are dropped."""
    d = SQL_DIALECTS[dialect]
    out: List[Tuple[str, Any]] = []
    i, n = 0, len(text)
    while i < n:
        ch = text[i]
        if ch.isspace():
            i += 1
            continue
        if text.startswith("--", i) and (not d["dashdash_needs_space"] or i + 2 >= n or text[i + 2].isspace() or ord(text[i + 2]) < 32):
            j = text.find("\n", i)
            i = n if j < 0 else j + 1
            continue
        if ch == "#" and d["hash_comment"]:
            j = text.find("\n", i)
            i = n if j < 0 else j + 1
            continue
        if text.startswith("/*", i):
            j = text.find("*/", i + 2)
            if j < 0:
                out.append(("err:unterminated-comment", text[i:]))
                return out
            i = j + 2
            continue
        if ch in d["str_quotes"] or ch in d["id_quotes"] or (ch == "[" and dialect == "SQLiteModel"):
            is_str = ch in d["str_quotes"]
            close = "]" if ch == "[" else ch
            j = i + 1
            buf = []
            ok = False
            while j < n:
                c = text[j]
                if c == "\\" and d["backslash"] and (is_str or dialect == "BigQueryModel"):
                    if j + 1 >= n:
                        break
                    v = _decode_escape(dialect, text[j + 1])
                    if v is None:
                        out.append(("err:bad-escape", text[j : j + 2]))
                        v = text[j + 1]
                    buf.append(v)
                    j += 2
                    continue
                if c == close:
                    if close != "]" and j + 1 < n and text[j + 1] == close:
                        buf.append(close)  # doubled quote
                        j += 2
                        continue
                    ok = True
                    j += 1
                    break
                buf.append(c)
                j += 1
            if not ok:
                out.append(("err:unterminated-" + ("string" if is_str else "identifier"), "".join(buf)))
                return out
            out.append(("str" if is_str else "qid", "".join(buf)))
            i = j
            continue
        if ch.isalpha() or ch == "_" or ord(ch) >= 128:
            j = i + 1
            while j < n and (text[j].isalnum() or text[j] in "_$" or ord(text[j]) >= 128):
                j += 1
            out.append(("w:" + text[i:j].upper(), text[i:j]))
            i = j
            continue
        if ch.isdigit() or (ch == "." and i + 1 < n and text[i + 1].isdigit()):
            j = i + 1
            while j < n and (text[j].isdigit() or text[j] == "."):
                j += 1
            if j < n and text[j] in "eE" and j + 1 < n and (text[j + 1].isdigit() or (text[j + 1] in "+-" and j + 2 < n and text[j + 2].isdigit())):
                j += 2
                while j < n and text[j].isdigit():
                    j += 1
            out.append(("num", text[i:j]))
            i = j
            continue
        out.append(("p:" + ch, ch))
        i += 1
    return out


def sql_string_literal(dialect: str, quote: str, s: str) -> str:
    """a correct literal for s in the dialect (used only to test the 'backslash not escaped' explanation)"""
    body = s.replace(quote, quote + quote)
    if SQL_DIALECTS[dialect]["backslash"]:
        body = s.replace("\\", "\\\\").replace(quote, quote + quote)
    return quote + body + quote


# --------------------------------------------------------------------------------------------------
# C15: internal names harvested from the CURRENT library source
# --------------------------------------------------------------------------------------------------

HARVEST_FILES = ["pandas_base.py", "polars_model.py", "sql_model.py", "near_sql.py", "SQLite.py", "view_representations.py"]


def harvest_internal_names(repo_root: Optional[str] = None) -> Dict[str, Dict[str, Any]]:
    """{pattern: {"kind": exact|prefix|suffix, "files": [...]}} of identifier-like string constants the
    executors / the SQL generator use for their own temporary columns, sub-query aliases and tables.

    Read from the source that is actually imported (data_algebra.__file__), with Python's ast:
      * plain string constants that are identifiers and look internal (contain temp / tmp / _da_ / data_algebra /
        orig_index, or are the one-letter sub-query aliases found as `) a` / `a.` / ` b ` inside SQL fragments);
      * f-string skeletons and  "literal" + str(...)  /  name + "literal"  concatenations: the literal part is a
        prefix (literal first) or suffix (literal last) of generated names (extend_N, x_tmp_right_col, ...)."""
    import ast
    import re

    if repo_root is None:
        import data_algebra

        repo_root = os.path.dirname(os.path.abspath(data_algebra.__file__))
    ident = re.compile(r"^[A-Za-z_][A-Za-z0-9_]*$")
    internal = re.compile(r"temp|tmp|_da_|^_da|data_algebra|orig_index|^table_values$")
    out: Dict[str, Dict[str, Any]] = {}

    def add(pat, kind, fn):
        if not pat or not ident.match(pat.strip("_") or "x"):
            return
        e = out.setdefault(pat + "|" + kind, {"pattern": pat, "kind": kind, "files": []})
        if fn not in e["files"]:
            e["files"].append(fn)

    for fn in HARVEST_FILES:
        path = os.path.join(repo_root, fn)
        try:
            with open(path) as f:
                tree = ast.parse(f.read())
        except OSError:
            continue
        doc_ids = set()
        for node in ast.walk(tree):  # skip docstrings
            if isinstance(node, (ast.FunctionDef, ast.ClassDef, ast.Module, ast.AsyncFunctionDef)) and node.body:
                b0 = node.body[0]
                if isinstance(b0, ast.Expr) and isinstance(b0.value, ast.Constant) and isinstance(b0.value.value, str):
                    doc_ids.add(id(b0.value))
        for node in ast.walk(tree):
            if isinstance(node, ast.Constant) and isinstance(node.value, str) and id(node) not in doc_ids:
                s = node.value
                if ident.match(s) and internal.search(s):
                    add(s, "exact", fn)
                # one-letter aliases inside SQL fragments:  ") a"  "a."  " b"
                for m in re.finditer(r"(?:^|[\s)])([a-z])(?=$|[\s.])", s):
                    if ("." in s or ")" in s or s.strip() == m.group(1)) and len(s) <= 12 and any(ch in s for ch in ").") :
                        add(m.group(1), "exact", fn)
            if isinstance(node, ast.JoinedStr):
                parts = node.values
                if parts and isinstance(parts[0], ast.Constant) and isinstance(parts[0].value, str) and len(parts) > 1:
                    lit = parts[0].value
                    if ident.match(lit) and lit.endswith("_"):
                        add(lit, "prefix", fn)
                if parts and isinstance(parts[-1], ast.Constant) and isinstance(parts[-1].value, str) and len(parts) > 1:
                    lit = parts[-1].value
                    if lit.startswith("_") and ident.match(lit):
                        add(lit, "suffix", fn)
            if isinstance(node, ast.BinOp) and isinstance(node.op, ast.Add):
                l, r = node.left, node.right
                if isinstance(l, ast.Constant) and isinstance(l.value, str) and ident.match(l.value) and l.value.endswith("_") and not isinstance(r, ast.Constant):
                    add(l.value, "prefix", fn)
                if isinstance(r, ast.Constant) and isinstance(r.value, str) and r.value.startswith("_") and ident.match(r.value) and not isinstance(l, ast.Constant):
                    add(r.value, "suffix", fn)
            if isinstance(node, ast.keyword) and node.arg in ("suffix", "suffixes", "lsuffix", "rsuffix"):
                for c in ast.walk(node.value):
                    if isinstance(c, ast.Constant) and isinstance(c.value, str) and c.value.startswith("_") and ident.match(c.value):
                        add(c.value, "suffix", fn)
    return out


def instantiate_names(patterns: Dict[str, Dict[str, Any]], columns: Sequence[str], numbers: Sequence[int] = (0, 1, 2)) -> List[Tuple[str, str]]:
    """[(concrete name, pattern it comes from)]: exact names as they are, prefixes + small numbers,
    column name + suffixes"""
    out, seen = [], set()
    for key in sorted(patterns):
        p = patterns[key]
        if p["kind"] == "exact":
            cands = [p["pattern"]]
        elif p["kind"] == "prefix":
            cands = [p["pattern"] + str(n) for n in numbers]
        else:
            cands = [c + p["pattern"] for c in columns]
        for c in cands:
            if c not in seen:
                seen.add(c)
                out.append((c, p["pattern"] + ("*" if p["kind"] == "prefix" else "") if p["kind"] != "suffix" else "*" + p["pattern"]))
    return out


# --------------------------------------------------------------------------------------------------
# C17: reference record transforms on plain tables (independent of data_algebra)
# --------------------------------------------------------------------------------------------------
# a record specification here is plain data:
#   {"control": {col: [values]}, "record_keys": [...], "control_table_keys": [...]}
# tables are (columns, rows) pairs


def rs_content_keys(rs) -> List[str]:
    """content keys in the library's order: value columns left to right, rows top to bottom"""
    keys = rs["control_table_keys"]
    out = []
    for c, vals in rs["control"].items():
        if c not in keys:
            out += list(vals)
    return out


def ref_blocks_to_rowrecs(rs, cols: Sequence[str], rows: Sequence[Sequence[Any]]):
    """one row per record: record keys + one column per content key (missing cells -> None)"""
    cols = list(cols)
    rk = list(rs["record_keys"])
    ck = list(rs["control_table_keys"])
    ctrl = rs["control"]
    n = len(next(iter(ctrl.values())))
    vcols = [c for c in ctrl if c not in ck]
    where = {}
    for i in range(n):
        kv = tuple(ctrl[c][i] for c in ck)
        for vc in vcols:
            where[(kv, vc)] = ctrl[vc][i]
    recs: Dict[Tuple, Dict[str, Any]] = collections.OrderedDict()
    for r in rows:
        d = dict(zip(cols, r))
        rid = tuple(d[c] for c in rk)
        rec = recs.setdefault(rid, {})
        kv = tuple(d[c] for c in ck)
        for vc in vcols:
            if (kv, vc) in where:
                rec[where[(kv, vc)]] = d[vc]
    ckeys = rs_content_keys(rs)
    out_rows = [tuple(rid) + tuple(rec.get(k) for k in ckeys) for rid, rec in recs.items()]
    return rk + ckeys, out_rows


def ref_rowrecs_to_blocks(rs, cols: Sequence[str], rows: Sequence[Sequence[Any]]):
    """one block (one row per control-table row) per input row"""
    cols = list(cols)
    rk = list(rs["record_keys"])
    ctrl = rs["control"]
    ccols = list(ctrl.keys())
    ck = list(rs["control_table_keys"])
    n = len(next(iter(ctrl.values())))
    out_rows = []
    for r in rows:
        d = dict(zip(cols, r))
        for i in range(n):
            out_rows.append(tuple(d[c] for c in rk) + tuple(ctrl[c][i] if c in ck else d.get(ctrl[c][i]) for c in ccols))
    return rk + ccols, out_rows
