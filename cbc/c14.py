"""C14 (bounded): generated SQL carries every literal and identifier verbatim.

Contract on the REAL `ops.to_sql(model, sql_format_options=...)` of the five dialect models:

    for every probe string s and every use site (string literal, column / table name, concat_rows label,
    convert_records control-table key / value, annotation comments):
      executable dialects (SQLiteModel; PostgreSQLModel's text on sqlite3 when the neutral query runs there):
          the query runs and returns exactly the expected table (names and values read back verbatim)
      tokenised dialects (MySQLModel, SparkSQLModel, BigQueryModel; PostgreSQLModel otherwise):
          the token stream (own lexer, cbc.oracles_c.lex_sql) has the same sequence of token kinds as the query
          generated for the neutral string 'a', and every token that differs is a string / quoted-identifier
          token decoding to s where the neutral one decodes to 'a' (at least one such token exists)
"""
from __future__ import annotations

import collections
import json
import sys
import time
import traceback
from typing import Any, Dict, List, Optional, Tuple

from vlib.core import Report, Violation
from cbc import common as C
from cbc import oracles_c as O

PID = "C14"
ALPHABET = ["'", '"', "\\", "\n", "%", "-", "*", "/", ";", "`", "é", "a"]
NEUTRAL = "a"
DIALECTS = ["SQLiteModel", "PostgreSQLModel", "MySQLModel", "SparkSQLModel", "BigQueryModel"]
_MODULES = {"SQLiteModel": "SQLite", "PostgreSQLModel": "PostgreSQL", "MySQLModel": "MySQL", "SparkSQLModel": "SparkSQL", "BigQueryModel": "BigQuery"}

FUNCTIONS_UNDER_CONTRACT = [
    {"file": "data_algebra/sql_model.py", "function": "SQLModel.to_sql"},
    {"file": "data_algebra/sql_model.py", "function": "SQLModel.quote_string"},
    {"file": "data_algebra/sql_model.py", "function": "SQLModel.quote_identifier"},
    {"file": "data_algebra/sql_model.py", "function": "SQLModel.value_to_sql"},
    {"file": "data_algebra/sql_model.py", "function": "SQLModel.concat_rows_to_near_sql"},
    {"file": "data_algebra/sql_model.py", "function": "SQLModel.blocks_to_row_recs_query_str_list_pair"},
    {"file": "data_algebra/sql_model.py", "function": "SQLModel.row_recs_to_blocks_query_str_list_pair"},
    {"file": "data_algebra/sql_model.py", "function": "_clean_annotation"},
]

# --------------------------------------------------------------------------------------------------
# use sites: s -> (pipeline spec for oracles_c.build_pipe, tables {name: (columns, rows)}, expected (columns, rows))
# kind: "lit" (s is a string VALUE) or "id" (s is a table / column NAME)
# --------------------------------------------------------------------------------------------------


def _t(name, cols, steps):
    return {"table": name, "cols": cols, "steps": steps}


def _site_literal(s):
    spec = _t("d", ["g", "x"], [["extend", {"ops": {"r": {"lit": s}}}]])
    return spec, {"d": (["g", "x"], [("p", 1.0), ("q", 2.0)])}, (["g", "x", "r"], [("p", 1.0, s), ("q", 2.0, s)])


def _site_literal_text(s):
    spec = _t("d", ["g", "x"], [["extend", {"ops": {"r": repr(s)}}]])
    return spec, {"d": (["g", "x"], [("p", 1.0), ("q", 2.0)])}, (["g", "x", "r"], [("p", 1.0, s), ("q", 2.0, s)])


def _site_compare(s):
    spec = _t("d", ["g", "x"], [["extend", {"ops": {"m": {"ast": ["b", "==", ["c", "g"], ["v", s]], "route": "A"}}}]])
    other = "zz" if s != "zz" else "yy"
    return spec, {"d": (["g", "x"], [(s, 1.0), (other, 2.0)])}, (["g", "x", "m"], [(s, 1.0, 1), (other, 2.0, 0)])


def _site_select_rows(s):
    spec = _t("d", ["g", "x"], [["select_rows", {"expr": {"ast": ["b", "==", ["c", "g"], ["v", s]], "route": "A"}}]])
    return spec, {"d": (["g", "x"], [(s, 1.0), ("zz", 2.0)])}, (["g", "x"], [(s, 1.0)])


def _site_is_in(s):
    spec = _t("d", ["g", "x"], [["extend", {"ops": {"m": {"ast": ["m", "is_in", ["c", "g"], [["l", [s, "qq"]]]], "route": "A"}}}]])
    return spec, {"d": (["g", "x"], [(s, 1.0), ("zz", 2.0)])}, (["g", "x", "m"], [(s, 1.0, 1), ("zz", 2.0, 0)])


def _site_col_pass(s):
    spec = _t("d", [s, "x"], [["extend", {"ops": {"r": "x + 1"}}]])
    return spec, {"d": ([s, "x"], [("p", 1.0), ("q", 2.0)])}, ([s, "x", "r"], [("p", 1.0, 2.0), ("q", 2.0, 3.0)])


def _site_col_rename(s):
    spec = _t("d", ["g", "x"], [["rename_columns", {"map": {s: "g"}}]])
    return spec, {"d": (["g", "x"], [("p", 1.0), ("q", 2.0)])}, ([s, "x"], [("p", 1.0), ("q", 2.0)])


def _site_col_new(s):
    spec = _t("d", ["g", "x"], [["extend", {"ops": {s: "x + 1"}}]])
    return spec, {"d": (["g", "x"], [("p", 1.0), ("q", 2.0)])}, (["g", "x", s], [("p", 1.0, 2.0), ("q", 2.0, 3.0)])


def _site_col_group(s):
    spec = _t("d", [s, "x"], [["project", {"ops": {"n": "x.sum()"}, "group_by": [s]}]])
    return spec, {"d": ([s, "x"], [("p", 1.0), ("p", 2.0), ("q", 4.0)])}, ([s, "n"], [("p", 3.0), ("q", 4.0)])


def _site_col_rename_source(s):
    spec = _t("d", [s, "x"], [["rename_columns", {"map": {"n": s}}]])
    return spec, {"d": ([s, "x"], [("p", 1.0), ("q", 2.0)])}, (["n", "x"], [("p", 1.0), ("q", 2.0)])


def _site_col_map_source(s):
    spec = _t("d", [s, "x"], [["map_columns", {"map": {s: "n"}}]])
    return spec, {"d": ([s, "x"], [("p", 1.0), ("q", 2.0)])}, (["n", "x"], [("p", 1.0), ("q", 2.0)])


def _site_col_select(s):
    spec = _t("d", [s, "x"], [["select_columns", {"columns": [s]}]])
    return spec, {"d": ([s, "x"], [("p", 1.0), ("q", 2.0)])}, ([s], [("p",), ("q",)])


def _site_col_drop(s):
    spec = _t("d", [s, "x", "y"], [["drop_columns", {"columns": ["y"]}]])
    return spec, {"d": ([s, "x", "y"], [("p", 1.0, 0.0), ("q", 2.0, 0.0)])}, ([s, "x"], [("p", 1.0), ("q", 2.0)])


def _site_col_order(s):
    spec = _t("d", [s, "x"], [["order_rows", {"columns": [s], "reverse": [s], "limit": 1}]])
    return spec, {"d": ([s, "x"], [("p", 1.0), ("q", 2.0)])}, ([s, "x"], [("q", 2.0)])


def _site_col_expr(s):
    spec = _t("d", [s, "x"], [["extend", {"ops": {"r": {"ast": ["b", "+", ["c", s], ["v", 1]], "route": "A"}}}]])
    return spec, {"d": ([s, "x"], [(3.0, 1.0), (4.0, 2.0)])}, ([s, "x", "r"], [(3.0, 1.0, 4.0), (4.0, 2.0, 5.0)])


def _site_col_project_arg(s):
    spec = _t("d", ["g", s], [["project", {"ops": {"n": {"ast": ["m", "sum", ["c", s], []], "route": "A"}}, "group_by": ["g"]}]])
    return spec, {"d": (["g", s], [("p", 1.0), ("p", 2.0), ("q", 4.0)])}, (["g", "n"], [("p", 3.0), ("q", 4.0)])


def _site_col_window(s):
    spec = _t("d", [s, "x"], [["extend", {"ops": {"n": "x.sum()"}, "partition_by": [s]}]])
    return spec, {"d": ([s, "x"], [("p", 1.0), ("p", 2.0), ("q", 4.0)])}, ([s, "x", "n"], [("p", 1.0, 3.0), ("p", 2.0, 3.0), ("q", 4.0, 4.0)])


def _site_col_join_key(s):
    spec = _t("d", [s, "x"], [["natural_join", {"b": _t("e", [s, "z"], []), "on": [s], "jointype": "inner"}]])
    return spec, {"d": ([s, "x"], [(1, 1.0), (2, 2.0)]), "e": ([s, "z"], [(1, 5.0), (3, 6.0)])}, ([s, "x", "z"], [(1, 1.0, 5.0)])


def _site_table(s):
    spec = _t(s, ["g", "x"], [["extend", {"ops": {"r": "x + 1"}}]])
    return spec, {s: (["g", "x"], [("p", 1.0), ("q", 2.0)])}, (["g", "x", "r"], [("p", 1.0, 2.0), ("q", 2.0, 3.0)])


def _site_concat(which):
    def f(s):
        p = {"b": _t("f", ["g", "x"], []), "id_column": "src", "a_name": "L", "b_name": "R"}
        p[which] = s
        spec = _t("d", ["g", "x"], [["concat_rows", p]])
        a, b = p["a_name"], p["b_name"]
        return spec, {"d": (["g", "x"], [("p", 1.0)]), "f": (["g", "x"], [("q", 2.0)])}, (["g", "x", "src"], [("p", 1.0, a), ("q", 2.0, b)])

    return f


def _site_concat_id(s):
    spec = _t("d", ["g", "x"], [["concat_rows", {"b": _t("f", ["g", "x"], []), "id_column": s, "a_name": "L", "b_name": "R"}]])
    return spec, {"d": (["g", "x"], [("p", 1.0)]), "f": (["g", "x"], [("q", 2.0)])}, (["g", "x", s], [("p", 1.0, "L"), ("q", 2.0, "R")])


def _site_rec_key_in(s):
    rs = {"control": {"g": [s, "zz"], "v": ["v1", "v2"]}, "record_keys": ["k"], "control_table_keys": ["g"]}
    spec = _t("d", ["k", "g", "v"], [["convert_records", {"rm": {"blocks_in": rs}}]])
    return spec, {"d": (["k", "g", "v"], [(1, s, 10.0), (1, "zz", 20.0)])}, (["k", "v1", "v2"], [(1, 10.0, 20.0)])


def _site_rec_val_in(s):
    rs = {"control": {"g": ["k1", "k2"], "v": [s, "zz"]}, "record_keys": ["k"], "control_table_keys": ["g"]}
    spec = _t("d", ["k", "g", "v"], [["convert_records", {"rm": {"blocks_in": rs}}]])
    return spec, {"d": (["k", "g", "v"], [(1, "k1", 10.0), (1, "k2", 20.0)])}, (["k", s, "zz"], [(1, 10.0, 20.0)])


def _site_rec_key_out(s):
    rs = {"control": {"g": [s, "zz"], "v": ["v1", "v2"]}, "record_keys": ["k"], "control_table_keys": ["g"]}
    spec = _t("d", ["k", "v1", "v2"], [["convert_records", {"rm": {"blocks_out": rs}}]])
    return spec, {"d": (["k", "v1", "v2"], [(1, 10.0, 20.0)])}, (["k", "g", "v"], [(1, s, 10.0), (1, "zz", 20.0)])


def _site_rec_val_out(s):
    rs = {"control": {"g": ["k1", "k2"], "v": [s, "zz"]}, "record_keys": ["k"], "control_table_keys": ["g"]}
    spec = _t("d", ["k", s, "zz"], [["convert_records", {"rm": {"blocks_out": rs}}]])
    return spec, {"d": (["k", s, "zz"], [(1, 10.0, 20.0)])}, (["k", "g", "v"], [(1, "k1", 10.0), (1, "k2", 20.0)])


def _site_rec_colname(s):
    rs = {"control": {s: ["k1", "k2"], "v": ["v1", "v2"]}, "record_keys": ["k"], "control_table_keys": [s]}
    spec = _t("d", ["k", "v1", "v2"], [["convert_records", {"rm": {"blocks_out": rs}}]])
    return spec, {"d": (["k", "v1", "v2"], [(1, 10.0, 20.0)])}, (["k", s, "v"], [(1, "k1", 10.0), (1, "k2", 20.0)])


SITES: Dict[str, Tuple[str, Any]] = collections.OrderedDict(
    [
        ("literal:extend-lit", ("lit", _site_literal)),
        ("literal:extend-quoted-text", ("lit", _site_literal_text)),
        ("literal:compare", ("lit", _site_compare)),
        ("literal:select_rows", ("lit", _site_select_rows)),
        ("literal:is_in-list", ("lit", _site_is_in)),
        ("column:pass-through", ("id", _site_col_pass)),
        ("column:rename-target", ("id", _site_col_rename)),
        ("column:extend-target", ("id", _site_col_new)),
        ("column:group_by", ("id", _site_col_group)),
        ("column:rename-source", ("id", _site_col_rename_source)),
        ("column:map-source", ("id", _site_col_map_source)),
        ("column:select_columns", ("id", _site_col_select)),
        ("column:drop_columns-survivor", ("id", _site_col_drop)),
        ("column:order_rows", ("id", _site_col_order)),
        ("column:expression-operand", ("id", _site_col_expr)),
        ("column:aggregate-argument", ("id", _site_col_project_arg)),
        ("column:partition_by", ("id", _site_col_window)),
        ("column:join-key", ("id", _site_col_join_key)),
        ("table:name", ("id", _site_table)),
        ("concat_rows:a_name", ("lit", _site_concat("a_name"))),
        ("concat_rows:b_name", ("lit", _site_concat("b_name"))),
        ("concat_rows:id_column", ("id", _site_concat_id)),
        ("convert_records:control-key-in", ("lit", _site_rec_key_in)),
        ("convert_records:control-value-in", ("id", _site_rec_val_in)),
        ("convert_records:control-key-out", ("lit", _site_rec_key_out)),
        ("convert_records:control-value-out", ("id", _site_rec_val_out)),
        ("convert_records:control-column-name", ("id", _site_rec_colname)),
    ]
)


#: identifiers that are SQL keywords / niladic functions (tried as table and column NAMES, lower and UPPER case)
SQL_KEYWORDS = ["null", "true", "false", "current_date", "current_time", "current_timestamp", "group", "order", "select", "table", "index", "values",
                "default", "check", "from", "where", "join", "union", "case", "when", "end", "as", "by", "limit", "rowid"]  # fmt: skip


def keyword_probes() -> List[str]:
    return [k for kw in SQL_KEYWORDS for k in (kw, kw.upper())]


def probes(max_len: int) -> List[str]:
    out = [""]
    import itertools

    for n in range(1, max_len + 1):
        out += ["".join(t) for t in itertools.product(ALPHABET, repeat=n)]
    return out


# --------------------------------------------------------------------------------------------------
# generation / execution
# --------------------------------------------------------------------------------------------------

_MODELS: Dict[str, Any] = {}


def model(dialect: str):
    if dialect not in _MODELS:
        import importlib

        m = importlib.import_module("data_algebra." + _MODULES[dialect])
        _MODELS[dialect] = getattr(m, dialect)()
    return _MODELS[dialect]


def gen_sql(spec, dialect: str, annotate: bool):
    """('ok', sql) | ('build-raise' | 'sql-raise', type, msg)"""
    from data_algebra.sql_format_options import SQLFormatOptions

    try:
        ops = O.build_pipe(spec)
    except Exception as e:
        return ("build-raise", type(e).__name__, str(e)[:200])
    try:
        return ("ok", ops.to_sql(model(dialect), sql_format_options=SQLFormatOptions(annotate=annotate)))
    except Exception as e:
        return ("sql-raise", type(e).__name__, str(e)[:200])


_NEUTRAL: Dict[Any, Any] = {}


def _neutral_sql(site, dialect, annotate):
    k = ("sql", site, dialect, annotate)
    if k not in _NEUTRAL:
        _NEUTRAL[k] = gen_sql(SITES[site][1](NEUTRAL)[0], dialect, annotate)
    return _NEUTRAL[k]


def _neutral_run(site, dialect, annotate):
    k = ("run", site, dialect, annotate)
    if k not in _NEUTRAL:
        _NEUTRAL[k] = run_on_sqlite(_neutral_sql(site, dialect, annotate)[1], SITES[site][1](NEUTRAL)[1])
    return _NEUTRAL[k]


def _q(name: str) -> str:
    return '"' + name.replace('"', '""') + '"'


_HANDLE = None


def run_on_sqlite(sql: str, tables) -> Tuple:
    """execute on a SQLite connection prepared by the library (custom functions registered; one connection
    per worker process, all tables dropped after each query), tables created with OUR quoting
    -> ('ok', [names], [rows]) | ('raise', type, msg)"""
    global _HANDLE
    import data_algebra.SQLite

    if _HANDLE is None:
        _HANDLE = data_algebra.SQLite.example_handle()
    conn = _HANDLE.conn
    try:
        for name, (cols, rows) in tables.items():
            conn.execute("CREATE TABLE %s (%s)" % (_q(name), ", ".join(_q(c) for c in cols)))
            for r in rows:
                conn.execute("INSERT INTO %s VALUES (%s)" % (_q(name), ", ".join("?" for _ in r)), tuple(r))
        try:
            cur = conn.execute(sql)
            names = [d[0] for d in cur.description]
            rows = [tuple(r) for r in cur.fetchall()]
            return ("ok", names, rows)
        except Exception as e:
            return ("raise", type(e).__name__, str(e)[:200])
    finally:
        try:
            left = [r[0] for r in conn.execute("SELECT name FROM sqlite_master WHERE type = 'table'").fetchall()]
            for nm in left:
                conn.execute("DROP TABLE %s" % _q(nm))
            conn.commit()
        except Exception:
            try:
                _HANDLE.close()
            finally:
                _HANDLE = None


def _same_table(got_names, got_rows, want) -> Tuple[bool, str]:
    wn, wr = want
    if list(got_names) != list(wn):
        if sorted(got_names) != sorted(wn):
            return False, "column names read back %r, expected %r" % (list(got_names), list(wn))
        idx = [list(got_names).index(c) for c in wn]
        got_rows = [tuple(r[i] for i in idx) for r in got_rows]
    key = lambda r: tuple((0, "") if v is None else ((1, float(v)) if isinstance(v, (int, float)) else (2, str(v))) for v in r)  # noqa: E731
    a, b = sorted(got_rows, key=key), sorted([tuple(r) for r in wr], key=key)
    if len(a) != len(b):
        return False, "%d rows read back, expected %d: %r vs %r" % (len(a), len(b), a[:3], b[:3])
    for x, y in zip(a, b):
        for u, v in zip(x, y):
            if isinstance(v, str) or isinstance(u, str):
                if u != v:
                    return False, "read back %r, expected %r" % (x, y)
            elif not C.values_equiv(u, v):
                return False, "read back %r, expected %r" % (x, y)
    return True, ""


def compare_tokens(dialect: str, sql_neutral: str, sql_probe: str, s: str) -> Tuple[bool, str]:
    tn = O.lex_sql(dialect, sql_neutral)
    tp = O.lex_sql(dialect, sql_probe)
    bad_n = [t for t in tn if t[0].startswith("err:")]
    if bad_n:
        raise AssertionError("harness: the neutral query does not lex: %r" % (bad_n[:2],))
    errs = [t for t in tp if t[0].startswith("err:")]
    if errs:
        return False, "the query is not well-formed for the %s lexer: %s %r" % (dialect, errs[0][0][4:], O.short(errs[0][1], 60))
    kn, kp = [t[0] for t in tn], [t[0] for t in tp]
    if kn != kp:
        i = next((j for j, (a, b) in enumerate(zip(kn, kp)) if a != b), min(len(kn), len(kp)))
        return False, "token stream changes shape at token %d: neutral ...%s, with the probe ...%s (%d vs %d tokens)" % (
            i,
            " ".join("%s" % (t[1] if not t[0] in ("str", "qid") else t[0] + repr(t[1])) for t in tn[max(0, i - 3) : i + 3]),
            " ".join("%s" % (t[1] if not t[0] in ("str", "qid") else t[0] + repr(t[1])) for t in tp[max(0, i - 3) : i + 3]),
            len(kn),
            len(kp),
        )
    carriers = 0
    for a, b in zip(tn, tp):
        if a[1] != b[1]:
            if a[0] not in ("str", "qid"):
                return False, "token %r became %r" % (a, b)
            if a[1] == NEUTRAL and b[1] == s:
                carriers += 1
                continue
            return False, "the %s token decodes to %r instead of %r (neutral: %r)" % ("string" if a[0] == "str" else "identifier", b[1], s, a[1])
    if carriers == 0 and s != NEUTRAL:
        return False, "no token carries the probe string"
    return True, ""


def applicable(kind: str, dialect: str, s: str) -> Optional[str]:
    """None if the property speaks about (site kind, dialect, s); else the reason it does not"""
    if kind == "id":
        if s == "":
            return "empty identifier"
        q = model(dialect).identifier_quote
        if q in s:
            return "name contains the dialect's identifier quote"
    return None


def check_case(site: str, s: str, dialect: str) -> Dict[str, Any]:
    kind, fn = SITES[site]
    res: Dict[str, Any] = {"site": site, "s": s, "dialect": dialect, "fails": []}
    why = applicable(kind, dialect, s)
    if why is not None:
        res["status"] = "not-applicable"
        res["detail"] = why
        return res
    spec, tables, want = fn(s)
    nspec, ntables, nwant = fn(NEUTRAL)
    modes = []
    for annotate in (True, False):
        gn = _neutral_sql(site, dialect, annotate)
        if gn[0] != "ok":
            res["status"] = "site-unsupported"  # the dialect cannot translate this site at all (neutral string)
            res["detail"] = "%s %s: %s" % gn
            return res
        gp = gen_sql(spec, dialect, annotate)
        tag = "annotate=%s" % annotate
        if gp[0] == "build-raise":
            res["status"] = "refused"  # the pipeline builder itself refuses the name / value: no SQL is generated
            res["detail"] = "%s: %s" % (gp[1], gp[2])
            return res
        if gp[0] == "sql-raise":
            res["fails"].append([tag, "to_sql-raises", "%s: %s" % (gp[1], gp[2])])
            continue
        executed = False
        # sqlite3 is not a faithful surrogate for PostgreSQL where the identifiers "true" / "false" are concerned (see classify)
        pg_unfaithful = dialect == "PostgreSQLModel" and kind == "id" and s.lower() in ("true", "false")
        if dialect in ("SQLiteModel", "PostgreSQLModel") and not pg_unfaithful:
            rn = _neutral_run(site, dialect, annotate)
            if rn[0] == "ok":
                okn, whyn = _same_table(rn[1], rn[2], nwant)
                if not okn:
                    if dialect == "SQLiteModel":
                        raise AssertionError("harness: neutral query gives the wrong table on SQLite: %s" % whyn)
                else:
                    executed = True
                    rp = run_on_sqlite(gp[1], tables)
                    if rp[0] != "ok":
                        res["fails"].append([tag, "execution-raises", "%s: %s" % (rp[1], rp[2])])
                    else:
                        ok, why2 = _same_table(rp[1], rp[2], want)
                        if not ok:
                            res["fails"].append([tag, "read-back", why2])
            elif dialect == "SQLiteModel":
                raise AssertionError("harness: neutral query does not run on SQLite: %s %s" % (rn[1], rn[2]))
        if not executed:
            ok, why2 = compare_tokens(dialect, gn[1], gp[1], s)
            if not ok:
                res["fails"].append([tag, "tokens", why2])
        modes.append("executed" if executed else "tokenised")
        res.setdefault("sql", gp[1])
    res["modes"] = modes
    res["status"] = "fail" if res["fails"] else "ok"
    if res["fails"]:
        res["keys"] = classify(site, kind, s, dialect, spec, res)
    return res


# --------------------------------------------------------------------------------------------------
# classification
# --------------------------------------------------------------------------------------------------

_PY_DQ_SPECIAL = ('"', "\\", "\n")  # characters that cannot stand for themselves inside "..." source text


def classify(site, kind, s, dialect, spec, res) -> Dict[str, List[str]]:
    keys: Dict[str, List[str]] = collections.OrderedDict()
    dets = ["%s %s: %s" % (t, k, d) for t, k, d in res["fails"]]
    kinds = set(k for _, k, _ in res["fails"])
    # (1) concat_rows labels are spliced into expression SOURCE text f'"{a_name}"' by concat_rows_to_near_sql
    if site in ("concat_rows:a_name", "concat_rows:b_name") and any(c in s for c in _PY_DQ_SPECIAL):
        keys["%s:sql_model.SQLModel.concat_rows_to_near_sql:label-spliced-into-expression-source" % PID] = dets
        return keys
    # (1b) SQLite itself (3.40): a double-quoted "true" / "false" in a SELECT list over a sub-query is not resolved to the
    #      sub-query's column of that name but read as the boolean / string constant.  The generated text is well-formed
    #      and carries the name verbatim (it tokenises exactly like the neutral query) -- only the execution misreads it.
    if dialect == "SQLiteModel" and kind == "id" and s.lower() in ("true", "false") and kinds <= {"read-back", "execution-raises"}:
        ok_all = True
        for annotate in (True, False):
            gp, gn = gen_sql(spec, dialect, annotate), _neutral_sql(site, dialect, annotate)
            if gp[0] != "ok" or gn[0] != "ok" or not compare_tokens(dialect, gn[1], gp[1], s)[0]:
                ok_all = False
        if ok_all:
            keys["%s:sql_model.SQLModel.quote_identifier:column-named-true-or-false-misread-by-sqlite" % PID] = dets
            return keys
    # (2) backslash is an escape character inside MySQL / Spark / BigQuery string literals (and, per BigQuery's lexical
    #     rules, inside BigQuery's quoted identifiers); quote_string / quote_identifier emit it bare.  Narrow test:
    #     re-writing exactly those tokens with the backslash doubled removes every failure.
    if O.SQL_DIALECTS[dialect]["backslash"] and "\\" in s and kinds <= {"tokens"}:
        m = model(dialect)
        lit, good_lit = m.quote_string(s), O.sql_string_literal(dialect, m.string_quote, s)
        qid, good_qid = m.identifier_quote + s + m.identifier_quote, m.identifier_quote + s.replace("\\", "\\\\") + m.identifier_quote
        repairs = [("lit",), ("qid",), ("lit", "qid")] if dialect == "BigQueryModel" and kind == "id" else [("lit",)]
        for combo in repairs:
            ok_all = True
            for annotate in (True, False):
                gp = gen_sql(spec, dialect, annotate)
                gn = _neutral_sql(site, dialect, annotate)
                if gp[0] != "ok" or gn[0] != "ok":
                    ok_all = False
                    break
                repaired = gp[1]
                for c in combo:
                    a, b = (lit, good_lit) if c == "lit" else (qid, good_qid)
                    if a not in repaired:
                        ok_all = False
                    repaired = repaired.replace(a, b)
                ok, _ = compare_tokens(dialect, gn[1], repaired, s) if ok_all else (False, "")
                if not ok:
                    ok_all = False
                    break
            if ok_all:
                if "lit" in combo:
                    keys["%s:sql_model.SQLModel.quote_string:backslash-not-escaped-in-backslash-escaping-dialect" % PID] = dets
                if "qid" in combo:
                    keys["%s:sql_model.SQLModel.quote_identifier:backslash-not-escaped-in-bigquery-identifier" % PID] = dets
                return keys
    keys["%s:unclassified:%s" % (PID, O.uhash([site, dialect, sorted(kinds), sorted(set(c for c in s))]))] = dets
    return keys


# --------------------------------------------------------------------------------------------------
# driver
# --------------------------------------------------------------------------------------------------


def scope(tier: str) -> Dict[str, Any]:
    return {"max_len": 2 if tier == "quick" else 3}


def _worker(job):
    out = []
    for site, s, dialect in job:
        try:
            r = check_case(site, s, dialect)
        except Exception as e:
            r = {"site": site, "s": s, "dialect": dialect, "status": "harness-error", "detail": "%s: %s | %s" % (type(e).__name__, e, traceback.format_exc()[-500:])}
        r.pop("sql", None) if r.get("status") != "fail" else None
        out.append(r)
    return out


def bounded(rep: Report, tier: str, seed: int) -> None:
    t0 = time.time()
    sc = scope(tier)
    ps = probes(sc["max_len"])
    jobs = [(site, s, d) for s in ps for site in SITES for d in DIALECTS]
    kws = keyword_probes()
    jobs += [(site, s, d) for s in kws for site, (kind, _) in SITES.items() if kind == "id" for d in DIALECTS]
    outs = O.pool_map(_worker, O.shards(jobs, 8))
    counts = collections.Counter()
    modes = collections.Counter()
    unsupported = collections.Counter()
    refused = collections.Counter()
    for o in outs:
        for r in o:
            st = r["status"]
            counts[st] += 1
            ck = "%s|%s|%r" % (r["site"], r["dialect"], r["s"])
            if st == "harness-error":
                rep.errors.append("harness error on %s: %s" % (ck, r["detail"]))
                continue
            for m in r.get("modes", []):
                modes[r["dialect"] + ":" + m] += 1
            if st == "site-unsupported":
                unsupported["%s|%s" % (r["site"], r["dialect"])] += 1
            if st == "refused":
                refused["%s: %s" % (r["site"], r["detail"][:70])] += 1
            rep.case(ck, nontrivial=(st in ("ok", "fail")))
            if st == "ok":
                rep.add_sample({"site": r["site"], "dialect": r["dialect"], "string": r["s"], "modes": r.get("modes")})
            if st == "fail":
                for key, dets in r["keys"].items():
                    rep.violations.append(
                        Violation(
                            key=key,
                            what="%s with %r on %s: %s" % (r["site"], r["s"], r["dialect"], O.short("; ".join(dets), 420).replace("\n", "\\n").replace("\t", " ")),
                            replay={"module": "cbc.c14", "case": {"site": r["site"], "s": r["s"], "dialect": r["dialect"]}, "n_keys": len(r["keys"])},
                        )
                    )
    rep.violations.sort(key=lambda v: (len(v.replay["case"]["s"]), 0 if v.replay["case"]["dialect"] == "SQLiteModel" else 1, v.replay["case"]["site"], v.replay["case"]["dialect"], v.replay["case"]["s"], v.key))
    rep.extra["status_counts"] = dict(counts)
    rep.extra["check_modes"] = dict(modes)
    rep.extra["sites_a_dialect_cannot_translate"] = dict(unsupported)
    rep.extra["refused_by_pipeline_builder"] = dict(refused)
    rep.extra["failing_cases_by_key"] = dict(collections.Counter(v.key for v in rep.violations))
    rep.extra["sql_keyword_identifiers"] = kws
    print("C14 bounded: (%d probes x %d sites + %d keyword identifiers x %d identifier sites) x %d dialects = %d cases %s in %.1fs" % (len(ps), len(SITES), len(kws), sum(1 for k, _ in SITES.values() if k == "id"), len(DIALECTS), len(jobs), dict(counts), time.time() - t0), file=sys.stderr)


def replay_case(case: Dict[str, Any]) -> bool:
    """Re-run one stored case natively; print what was observed; True iff it still fails."""
    site, s, dialect = case["site"], case["s"], case["dialect"]
    kind, fn = SITES[site]
    spec, tables, want = fn(s)
    print("site %s, string %r, dialect %s" % (site, s, dialect))
    print("pipeline:", O.describe_pipe(spec))
    g = gen_sql(spec, dialect, True)
    if g[0] == "ok":
        print("generated SQL (annotate=True):\n" + g[1])
        if dialect in ("SQLiteModel", "PostgreSQLModel"):
            r = run_on_sqlite(g[1], tables)
            print("executed on sqlite3:", r, "| expected", want)
        else:
            print("tokens:", [t for t in O.lex_sql(dialect, g[1]) if t[0] in ("str", "qid") or t[0].startswith("err")])
    else:
        print("to_sql:", g)
    r = check_case(site, s, dialect)
    for t, k, d in r.get("fails", []):
        print("FAIL %s %s: %s" % (t, k, d))
    print("verdict:", r["status"], list(r.get("keys", {}).keys()), r.get("detail", ""))
    return r["status"] == "fail"
