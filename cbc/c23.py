"""C23 bounded ride-along: every edge list up to a size bound against an independent BFS reference.
bounded: <= 4 edges over 4 vertices (quick), <= 5 edges over 5 vertices (thorough); plus string and tuple vertices."""
import itertools
from vlib.core import Report, Violation


def reference(f, g):
    adj = {}
    for a, b in zip(f, g):
        adj.setdefault(a, set()).add(b)
        adj.setdefault(b, set()).add(a)
    label = {}
    for v in adj:
        if v in label:
            continue
        comp, todo = {v}, [v]
        while todo:
            x = todo.pop()
            for y in adj[x]:
                if y not in comp:
                    comp.add(y)
                    todo.append(y)
        m = min(comp)
        for x in comp:
            label[x] = m
    return [label[a] for a in f]


def check(f, g):
    from data_algebra.connected_components import connected_components
    got = connected_components(list(f), list(g))
    exp = reference(f, g)
    if list(got) != exp:
        return "f=%r g=%r: got %r, reference %r" % (list(f), list(g), list(got), exp)
    return None


def bounded(rep: Report, tier: str, seed: int) -> None:
    nv, ne = (4, 4) if tier == "quick" else (5, 5)
    verts = list(range(nv))
    fails = 0
    for n in range(0, ne + 1):
        for f in itertools.product(verts, repeat=n):
            for g in itertools.product(verts, repeat=n):
                msg = check(f, g)
                rep.case(("edges", f, g), nontrivial=n >= 2)
                if msg and fails < 3:
                    fails += 1
                    rep.violations.append(Violation(key="C23:connected_components:labels-differ-from-reference", what=msg,
                                                    replay={"module": "cbc.c23", "case": {"f": list(f), "g": list(g)}}))
    for (f, g) in [(["b", "a", "c"], ["a", "c", "d"]), ([(1, 2), (0, 1)], [(0, 1), (3, 3)]), ([2.5, 1.0], [1.0, 0.5])]:
        msg = check(f, g)
        rep.case(("typed", repr(f), repr(g)))
        if msg:
            rep.violations.append(Violation(key="C23:connected_components:labels-differ-from-reference", what=msg,
                                            replay={"module": "cbc.c23", "case": {"f": [repr(x) for x in f], "g": [repr(x) for x in g], "repr": True}}))
    rep.add_sample({"f": [1, 4, 6, 2, 1], "g": [2, 5, 7, 3, 7]})
    rep.exhaustive = True


def replay_case(case) -> bool:
    f, g = case["f"], case["g"]
    if case.get("repr"):
        f, g = [eval(x) for x in f], [eval(x) for x in g]
    msg = check(f, g)
    print(msg or "case passes on this tree")
    return bool(msg)
