"""C07 (bounded): pipeline composition equals sequential application and is associative.

Contract on the REAL composition entry points, for pipelines a (over table d) and b (over a table m whose
columns are exactly a's result columns; b may read further free tables):

    R1  a >> b                                   (ViewRepresentation.act_on; only when b reads one table)
    R2  (DataOpArrow(a, 'd') >> DataOpArrow(b, 'm')).pipeline
    R3  b.replace_leaves({'m': a})
    R4  b.eval({'m': a, <other tables of b>: their TableDescriptions})
    post:  composed.eval(data) == b.eval({'m': a.eval(data), ...})     on every data set of a small grid
           (same columns, same multiset of rows, same order-key sequence when b ends with order_rows; or both raise)
           DataOpArrow(composed).dom / cod == the input columns of a's free table / the columns of the result
    triples a, b, c:  (a >> b) >> c  and  a >> (b >> c)  (ViewRepresentation and DataOpArrow) both build and give the
           sequential result on every data set; structural == of the two is only counted (information)

a, b, c are the consecutive segments of one operator chain from cbc.common.gen_pipelines, so every pair is
composable by construction.
"""
from __future__ import annotations

import collections
import copy
import itertools
import json
import sys
import time
import traceback
from typing import Any, Dict, List, Optional, Tuple

from vlib.core import Report, Violation
from cbc import common as C
from cbc import oracles_c as O

PID = "C07"
BACKENDS = ("Pandas",)

FUNCTIONS_UNDER_CONTRACT = [
    {"file": "data_algebra/view_representations.py", "function": "ViewRepresentation.act_on"},
    {"file": "data_algebra/view_representations.py", "function": "ViewRepresentation.eval"},
    {"file": "data_algebra/view_representations.py", "function": "*.replace_leaves"},
    {"file": "data_algebra/arrow.py", "function": "DataOpArrow.act_on"},
    {"file": "data_algebra/arrow.py", "function": "DataOpArrow.dom"},
    {"file": "data_algebra/arrow.py", "function": "DataOpArrow.cod"},
    {"file": "data_algebra/shift_pipe_action.py", "function": "ShiftPipeAction.__rshift__"},
]

# --------------------------------------------------------------------------------------------------
# segments of a chain as pipelines
# --------------------------------------------------------------------------------------------------


def _conv_steps(chain_steps, lo: int, hi: int):
    """steps lo..hi-1 of a cbc.common chain in cbc.oracles_c.build_pipe form (right hand sides expanded)"""
    out = []
    for i in range(lo, hi):
        op, p = chain_steps[i]
        p = copy.deepcopy(p)
        b = p.get("b") if isinstance(p, dict) else None
        if isinstance(b, dict):
            if "table" in b:
                p["b"] = {"table": b["table"], "cols": list(C.SCHEMAS[b["table"]].keys()), "steps": []}
            else:  # the same steps that precede this one (from the very start of the chain), on table f
                t = b["prefix_on"]
                p["b"] = {"table": t, "cols": list(C.SCHEMAS[t].keys()), "steps": _conv_steps(chain_steps, 0, i)}
        out.append([op, p])
    return out


def segments(chain: Dict[str, Any], cuts: List[int]):
    """[(pipeline, free table name)] for the segments of the chain cut at `cuts`; segment 0 reads table d,
    segment j > 0 reads a table m<j> with exactly the columns of the previous segment's result"""
    steps = chain["steps"]
    bounds = [0] + list(cuts) + [len(steps)]
    segs = []
    cols = list(C.SCHEMAS[chain["table"]].keys())
    name = chain["table"]
    for j in range(len(bounds) - 1):
        spec = {"table": name, "cols": cols, "steps": _conv_steps(steps, bounds[j], bounds[j + 1])}
        ops = O.build_pipe(spec)
        segs.append((ops, name))
        cols = list(ops.column_names)
        name = "m%d" % (j + 1)
    return segs


def _other_tables(ops, free: str) -> List[str]:
    return [k for k in ops.get_tables().keys() if k != free]


# --------------------------------------------------------------------------------------------------
# composition routes
# --------------------------------------------------------------------------------------------------


def compose(route: str, a, a_free: str, b, b_free: str):
    """the composed pipeline by one of the four routes; None if the route does not apply"""
    from data_algebra import TableDescription
    from data_algebra.arrow import DataOpArrow

    if route == "R1:>>":
        if len(b.get_tables()) != 1:
            return None  # act_on picks the table by key; with several free tables `a >> b` is not defined for a pipeline a
        return a >> b
    if route == "R2:DataOpArrow":
        arr = DataOpArrow(a, free_table_key=a_free) >> DataOpArrow(b, free_table_key=b_free)
        return arr.pipeline
    if route == "R3:replace_leaves":
        return b.replace_leaves({b_free: a})
    if route == "R4:eval-map":
        m = {b_free: a}
        for k, t in b.get_tables().items():
            if k != b_free:
                m[k] = TableDescription(table_name=t.table_name, column_names=list(t.column_names))
        return b.eval(m)
    raise ValueError(route)


ROUTES = ("R1:>>", "R2:DataOpArrow", "R3:replace_leaves", "R4:eval-map")


def _frames(names, data):
    return {t: C.to_pandas(data[t], C.SCHEMAS[t]) for t in names}


def sequential(segs, data):
    """run the segments one after the other on Pandas -> ('ok', frame) | ('raise', type, msg)"""
    cur = None
    for j, (ops, free) in enumerate(segs):
        tabs = _frames([k for k in ops.get_tables().keys() if k in C.SCHEMAS and (k != free or j == 0)], data)
        if j > 0:
            tabs[free] = cur
        r = C.run_pandas(ops, tabs)
        if r[0] != "ok":
            return r
        cur = r[1]
    return ("ok", cur)


def same_result(seq, comp, order_step) -> Tuple[bool, str]:
    ok, why = C.frames_equiv(seq, comp)
    if not ok:
        return ok, why
    if order_step is not None and order_step.get("columns"):
        P, S = C.canon_rows(seq), C.canon_rows(comp)
        kp = C.key_sequence(P[0], P[1], order_step["columns"])
        ks = C.key_sequence(S[0], S[1], order_step["columns"])
        if not (len(kp) == len(ks) and all(all(C.values_equiv(u, v) for u, v in zip(x, y)) for x, y in zip(kp, ks))):
            return False, "same rows, different order: sequential keys %r, composed keys %r" % (kp, ks)
    return True, ""


# --------------------------------------------------------------------------------------------------
# one case
# --------------------------------------------------------------------------------------------------


def eval_case(chain: Dict[str, Any], cuts: List[int], data_sets: List[Tuple[int, Dict[str, Any]]], _classify: bool = True) -> Dict[str, Any]:
    from data_algebra.arrow import DataOpArrow

    res: Dict[str, Any] = {"fails": [], "compared": 0, "skipped": collections.Counter(), "routes": []}
    segs = segments(chain, cuts)
    order_step = C.last_order_step(chain)
    # usable data sets: results determined (no ties in window orders / at limit cuts), record keying respected
    usable = []
    for di, data in data_sets:
        pc = C.PrefixCache(chain, data)
        skip, _info = C.data_preconditions(chain, pc, backends=("pandas",))
        if skip is None and order_step is not None and order_step.get("limit") is not None:
            pr = pc.rows(len(chain["steps"]) - 1)
            if pr[0] == "ok" and not C.limit_cut_is_determined(pr[1], pr[2], order_step["columns"], order_step.get("reverse"), order_step["limit"]):
                skip = "limit-cut-through-ties"
        if skip is not None:
            res["skipped"][skip] += 1
            continue
        usable.append((di, data, sequential(segs, data)))
    all_tables = list(C.spec_tables(chain))

    def check_composed(tag, comp):
        for di, data, seq in usable:
            r = C.run_pandas(comp, _frames([k for k in comp.get_tables().keys()], data))
            if seq[0] == "raise" and r[0] == "raise":
                continue
            if seq[0] == "raise" or r[0] == "raise":
                who, o = ("sequential application", seq) if seq[0] == "raise" else ("the composed pipeline", r)
                res["fails"].append([tag, "result", "data#%d: only %s raises %s: %s" % (di, who, o[1], o[2][:160])])
                return
            res["compared"] += 1
            ok, why = same_result(seq[1], r[1], order_step)
            if not ok:
                res["fails"].append([tag, "result", "data#%d: sequential vs composed: %s" % (di, why[:300])])
                return
            # cod describes the output columns
            cod = set(comp.cod().column_names)
            if cod != set(r[1].columns):
                res["fails"].append([tag, "cod", "cod() says %r, the result has %r" % (sorted(cod), list(r[1].columns))])
                return

    if len(segs) == 2:
        (a, af), (b, bf) = segs
        for route in ROUTES:
            try:
                comp = compose(route, a, af, b, bf)
            except Exception as e:
                res["fails"].append([route, "raise", "%s: %s" % (type(e).__name__, str(e)[:200])])
                continue
            if comp is None:
                continue
            res["routes"].append(route)
            res.setdefault("composed", comp)
            check_composed(route, comp)
            # dom / cod of the composed arrow
            try:
                arr = DataOpArrow(comp, free_table_key=af)
                dom = list(arr.dom_as_table().column_names)
                want = list(C.SCHEMAS[af].keys())
                if dom != want or list(arr.dom().pipeline.column_names) != want:
                    res["fails"].append([route, "dom", "DataOpArrow.dom says %r, table %s has %r" % (dom, af, want)])
                if sorted(arr.cod_as_table().column_names) != sorted(comp.column_names) or sorted(arr.cod().pipeline.column_names) != sorted(comp.column_names):
                    res["fails"].append([route, "cod", "DataOpArrow.cod says %r, the pipeline produces %r" % (list(arr.cod_as_table().column_names), list(comp.column_names))])
                vd = comp.dom()
                if set(vd.keys()) != set(all_tables) or any(list(vd[k].column_names) != list(C.SCHEMAS[k].keys()) for k in vd if k in C.SCHEMAS):
                    res["fails"].append([route, "dom", "ViewRepresentation.dom() says %r, the chain reads %r" % ({k: list(v.column_names) for k, v in vd.items()}, all_tables)])
            except Exception as e:
                res["fails"].append([route, "raise", "dom/cod: %s: %s" % (type(e).__name__, str(e)[:200])])
    else:
        (a, af), (b, bf), (c, cf) = segs
        for style in ("ViewRepresentation", "DataOpArrow"):
            try:
                if style == "ViewRepresentation":
                    if len(b.get_tables()) != 1 or len(c.get_tables()) != 1:
                        continue
                    left = (a >> b) >> c
                    right = a >> (b >> c)
                else:
                    A, B, Cc = DataOpArrow(a, free_table_key=af), DataOpArrow(b, free_table_key=bf), DataOpArrow(c, free_table_key=cf)
                    la, ra = (A >> B) >> Cc, A >> (B >> Cc)
                    if not (la == ra) or (la != ra):
                        res["assoc_struct_diff"] = res.get("assoc_struct_diff", 0) + 1  # information only
                    left, right = la.pipeline, ra.pipeline
            except Exception as e:
                res["fails"].append(["assoc:" + style, "raise", "%s: %s" % (type(e).__name__, str(e)[:200])])
                continue
            res["routes"].append("assoc:" + style)
            res.setdefault("composed", left)
            if not (left == right) or not (right == left) or (left != right):
                # information only: the statement asks for equal RESULTS; a different grouping of merged extend
                # steps with identical results is not a violation
                res["assoc_struct_diff"] = res.get("assoc_struct_diff", 0) + 1
            check_composed("assoc:" + style + ":left", left)
            check_composed("assoc:" + style + ":right", right)
    res["skipped"] = dict(res["skipped"])
    res["status"] = "fail" if res["fails"] else ("ok" if res["compared"] > 0 else ("no-data" if not usable else "both-raise"))
    if res["fails"] and _classify:
        res["keys"] = classify(chain, cuts, segs, res, data_sets)
    res.pop("composed", None)
    res.pop("assoc_sides", None)
    res.setdefault("assoc_struct_diff", 0)
    return res


def _one_line(ops) -> str:
    return " ".join(ops.to_python(pretty=False).split())


# --------------------------------------------------------------------------------------------------
# classification
# --------------------------------------------------------------------------------------------------


class _Repaired:
    """Counterfactual used ONLY to name the cause of an observed failure: temporarily replace exactly one
    (or both) of the two replace_leaves methods known to be wrong on the pinned tree by a correct version."""

    def __init__(self, which):
        self.which = which
        self.saved = []

    def __enter__(self):
        import data_algebra.view_representations as vr

        if "select" in self.which:
            self.saved.append((vr.SelectRowsNode, vr.SelectRowsNode.replace_leaves))

            def rl_select(node, replacement_map):
                new_sources = [s.replace_leaves(replacement_map) for s in node.sources]
                return new_sources[0].select_rows_parsed_(parsed_expr=node.ops)

            vr.SelectRowsNode.replace_leaves = rl_select
        if "map" in self.which:
            self.saved.append((vr.MapColumnsNode, vr.MapColumnsNode.replace_leaves))

            def rl_map(node, replacement_map):
                new_sources = [s.replace_leaves(replacement_map) for s in node.sources]
                m = dict(node.column_remapping)
                m.update({k: None for k in node.column_deletions})
                return new_sources[0].map_columns(column_remapping=m)

            vr.MapColumnsNode.replace_leaves = rl_map
        if "extend" in self.which:
            self.saved.append((vr.ExtendNode, vr.ExtendNode.replace_leaves))

            def rl_extend(node, replacement_map):
                new_sources = [s.replace_leaves(replacement_map) for s in node.sources]
                pb = 1 if (node.windowed_situation and len(node.partition_by) == 0) else node.partition_by
                return new_sources[0].extend_parsed_(parsed_ops=node.ops, partition_by=pb, order_by=node.order_by, reverse=node.reverse)

            vr.ExtendNode.replace_leaves = rl_extend
        return self

    def __exit__(self, *exc):
        for cls, fn in reversed(self.saved):
            cls.replace_leaves = fn
        return False


def _canon_runs(ops):
    """structure of a pipeline with every run of consecutive ExtendNodes that share their window
    parameters written as ONE list of assignments (in application order)"""
    from cbc.c12 import pipe_dump

    def win(n):
        return (bool(n.windowed_situation), tuple(n.partition_by), tuple(n.order_by), tuple(n.reverse))

    def rec(n):
        if type(n).__name__ == "ExtendNode":
            run = []
            cur = n
            while type(cur).__name__ == "ExtendNode" and win(cur) == win(n):
                run.append([(k, O.term_dump(v)) for k, v in cur.ops.items()])
                cur = cur.sources[0]
            assigns = tuple(x for part in reversed(run) for x in part)
            return ("ExtendRun", win(n), assigns, rec(cur))
        d = pipe_dump(n)
        return (d[0], d[1], tuple(rec(s) for s in n.sources))

    return rec(ops)


def _nodes(ops):
    out, stack, seen = [], [ops], set()
    while stack:
        n = stack.pop()
        if id(n) in seen:
            continue
        seen.add(id(n))
        out.append(n)
        stack.extend(n.sources)
    return out


def classify(chain, cuts, segs, res, data_sets) -> Dict[str, List[str]]:
    """The failure is attributed to a known defect iff it disappears when exactly that function is repaired
    (and the replaced segments contain the triggering node); the smallest sufficient set of repairs names the keys."""
    keys: Dict[str, List[str]] = collections.OrderedDict()
    msgs = ["%s %s: %s" % (t, k, d) for t, k, d in res["fails"]]
    replaced = [n for ops, _ in segs[1:] for n in _nodes(ops)]  # nodes of the pipelines whose leaves get replaced
    cand = []
    if any(type(n).__name__ == "SelectRowsNode" for n in replaced):
        cand.append("select")
    if any(type(n).__name__ == "MapColumnsNode" and len(n.column_deletions) > 0 for n in replaced):
        cand.append("map")
    import data_algebra.expr_rep as er

    if any(type(n).__name__ == "ExtendNode" and n.windowed_situation and len(n.partition_by) == 0 and len(n.order_by) == 0 and not er.implies_windowed(n.ops) for n in replaced):
        cand.append("extend")  # a window that exists only because of partition_by=1
    combos = [(c,) for c in cand] + [t for t in itertools.combinations(cand, 2)] + ([tuple(cand)] if len(cand) == 3 else [])
    names = {
        "extend": "%s:view_representations.ExtendNode.replace_leaves:partition_by-1-lost" % PID,
        "select": "%s:view_representations.SelectRowsNode.replace_leaves:select_rows-in-replaced-pipeline" % PID,
        "map": "%s:view_representations.MapColumnsNode.replace_leaves:map_columns-deletion-lost" % PID,
    }
    for combo in combos:
        with _Repaired(combo):
            r2 = eval_case(chain, cuts, data_sets, _classify=False)
        if r2["status"] != "fail":
            for c in combo:
                keys[names[c]] = msgs
            return keys
    # same defect as C01:util.guess_carried_scalar_type:all-null-column: a string column without any non-null value is typed
    # float, so a comparison with a string constant RAISES when a segment is run on its own; the composed pipeline may merge
    # that (overwritten, hence unused) computation away and return.  Narrow: only sequential application raises exactly this
    # TypeError, and an input table really has an all-null string column.
    if all(k == "result" and "only sequential application raises TypeError: can't compare <class 'float'> to <class 'str'>" in d for _, k, d in res["fails"]):
        if any(len(tab[c]) > 0 and all(v is None for v in tab[c]) for _, data in data_sets for t, tab in data.items() if t in C.SCHEMAS for c in tab if C.SCHEMAS[t].get(c) == "str"):
            keys["%s:util.guess_carried_scalar_type:all-null-column" % PID] = msgs
            return keys
    kinds = sorted(set((k, d.split(":")[0] if k == "raise" else "") for _, k, d in res["fails"]))
    keys["%s:unclassified:%s" % (PID, O.uhash([kinds, [s[0] for s in chain["steps"][cuts[0] :]]]))] = msgs
    return keys


# --------------------------------------------------------------------------------------------------
# driver
# --------------------------------------------------------------------------------------------------


def scope(tier: str) -> Dict[str, Any]:
    if tier == "quick":
        return {"per_case": 2, "d3_shard": 16, "d4_shard": 0, "max_rows": 3, "cap": 24}
    return {"per_case": 3, "d3_shard": 2, "d4_shard": 160, "max_rows": 3, "cap": 40}


def make_cases(tier: str, seed: int) -> List[Dict[str, Any]]:
    sc = scope(tier)
    out = []

    def add(spec, cuts):
        out.append({"chain": {"table": spec["table"], "steps": spec["steps"]}, "ids": spec["meta"]["ids"], "cuts": cuts})

    for spec in C.gen_pipelines(2, tier, two_table=True, backends=BACKENDS, reduced=False):
        add(spec, [1])  # all pairs of single operators
    k = sc["d3_shard"]
    for i, spec in enumerate(C.gen_pipelines(3, tier, two_table=True, backends=BACKENDS, reduced=True)):
        if i % k != seed % k:
            if all(op == "extend" and not p.get("partition_by") and not p.get("order_by") for op, p in spec["steps"]):
                add(spec, [1, 2])  # triples of row-wise extends are always included (merge grouping), whatever the shard
            continue
        add(spec, [1])  # 1 + 2
        add(spec, [2])  # 2 + 1
        add(spec, [1, 2])  # triple
    k = sc["d4_shard"]
    if k:
        for i, spec in enumerate(C.gen_pipelines(4, tier, two_table=True, backends=BACKENDS, reduced=True)):
            if i % k != seed % k:
                continue
            add(spec, [2])  # 2 + 2
            if (i // k) % 4 == 0:
                add(spec, [1, 3])  # triple 1 + 2 + 1
    return out


def _worker(job):
    pool = C.data_pool(*job["pool_args"])
    out = []
    for case, dis in job["cases"]:
        try:
            r = eval_case(case["chain"], case["cuts"], [(di, pool[di]) for di in dis])
        except Exception as e:
            r = {"status": "harness-error", "detail": "%s: %s | %s" % (type(e).__name__, e, traceback.format_exc()[-700:])}
        r["ids"] = case["ids"]
        r["cuts"] = case["cuts"]
        r["dis"] = dis
        r["chain"] = case["chain"] if r["status"] in ("fail", "harness-error") else None
        out.append(r)
    return out


def bounded(rep: Report, tier: str, seed: int) -> None:
    t0 = time.time()
    sc = scope(tier)
    cases = make_cases(tier, seed)
    pool_args = (sc["max_rows"], seed, sc["cap"])
    n_pool = len(C.data_pool(*pool_args))
    work = [(c, C.pick_data(n_pool, i, sc["per_case"], seed)) for i, c in enumerate(cases)]
    jobs = [{"cases": sh, "pool_args": pool_args} for sh in O.shards(work, 8)]
    outs = O.pool_map(_worker, jobs)
    counts = collections.Counter()
    skipped = collections.Counter()
    shapes = collections.Counter()
    routes = collections.Counter()
    struct_diff = 0
    for o in outs:
        for r in o:
            st = r["status"]
            counts[st] += 1
            ck = "%s|%s" % ("+".join(r["ids"]), ",".join(map(str, r["cuts"])))
            if st == "harness-error":
                rep.errors.append("harness error on %s: %s" % (ck, r["detail"]))
                continue
            shapes["%d-segments of a %d-chain" % (len(r["cuts"]) + 1, len(r["ids"]))] += 1
            for k, v in r["skipped"].items():
                skipped[k] += v
            for rt in r["routes"]:
                routes[rt] += 1
            struct_diff += r.get("assoc_struct_diff", 0)
            rep.case(ck, nontrivial=(r["compared"] > 0))
            if st == "ok":
                rep.add_sample({"chain": "+".join(r["ids"]), "cut_at": r["cuts"], "routes": r["routes"], "results_compared": r["compared"]})
            if st == "fail":
                for key, dets in r["keys"].items():
                    rep.violations.append(
                        Violation(
                            key=key,
                            what="%s cut at %s: %s" % (C.describe(r["chain"]), r["cuts"], O.short("; ".join(dets[:2]), 420).replace("\n", " ").replace("\t", " ")),
                            replay={"module": "cbc.c07", "case": {"chain_json": json.dumps(r["chain"]), "cuts": r["cuts"], "dis": r["dis"], "pool_args": list(pool_args)}, "n_keys": len(r["keys"]), "n_steps": len(r["ids"])},
                        )
                    )
    rep.violations.sort(key=lambda v: (v.replay.get("n_keys", 1), v.replay.get("n_steps", 9), len(v.replay["case"]["cuts"]), 0 if " result: " in v.what else 1, len(v.what), v.key, v.what))
    rep.extra["status_counts"] = dict(counts)
    rep.extra["case_shapes"] = dict(shapes)
    rep.extra["routes_composed"] = dict(routes)
    rep.extra["data_sets_skipped"] = dict(skipped)
    rep.extra["assoc_structurally_different_but_same_result"] = struct_diff
    rep.extra["failing_cases_by_key"] = dict(collections.Counter(v.key for v in rep.violations))
    print("C07 bounded: %d cases %s routes %s in %.1fs" % (len(cases), dict(counts), dict(routes), time.time() - t0), file=sys.stderr)


def replay_case(case: Dict[str, Any]) -> bool:
    """Re-run one stored case natively; print what was observed; True iff it still fails."""
    chain, cuts = json.loads(case["chain_json"]), case["cuts"]
    pool = C.data_pool(*case["pool_args"])
    print("chain:", C.describe(chain), "| cut at", cuts)
    segs = segments(chain, cuts)
    for j, (ops, free) in enumerate(segs):
        print("segment %d (free table %s): %s" % (j, free, _one_line(ops)))
    if len(segs) == 2:
        (a, af), (b, bf) = segs
        for route in ROUTES:
            try:
                comp = compose(route, a, af, b, bf)
                print("%-18s -> %s" % (route, "not applicable" if comp is None else _one_line(comp)))
            except Exception as e:
                print("%-18s raises %s: %s" % (route, type(e).__name__, e))
    r = eval_case(chain, cuts, [(di, pool[di]) for di in case["dis"]])
    for tag, kind, det in r["fails"]:
        print("FAIL %s %s: %s" % (tag, kind, det))
    print("verdict:", r["status"], list(r.get("keys", {}).keys()), "| results compared:", r["compared"], "| data sets skipped:", r["skipped"])
    return r["status"] == "fail"
