"""cbc.wrap -- a tiny run-time contract wrapper for REAL functions/methods of the library.

    w = contract(pre=..., post=..., name="DBHandle.read_query")(real_function)
    attach(data_algebra.db_model.DBHandle, "read_query", w)      # monkeypatch in-process
    ...
    detach_all()

* pre(call) -> bool           `call` is a Call(args, kwargs) of the wrapped invocation.  A false (or
                              raising) precondition is a bug of OUR harness: HarnessError is raised.
* the real function is called (exactly once, with the original arguments);
* post(call, outcome)         `outcome` is Outcome(value, exception).  Return None/True when the
                              postcondition holds; anything else (a string, a dict, False) is recorded
                              as a Failure in wrap.FAILURES -- it is NOT raised, the caller sees the
                              real function's own behaviour (its value or its exception).
* every evaluation is counted in the module level Counter  wrap.EVALS[name].

A postcondition that itself raises is a harness bug: recorded in wrap.HARNESS_ERRORS (callers append
these to Report.errors) and re-raised as HarnessError.

Dispatch tables: PandasModelBase and PolarsModel capture *bound methods* in
`self._method_dispatch_table` when the model instance is constructed, so replacing a class attribute
does not reach the live model.  attach_dispatch(model, node_name, wrapper_factory) replaces the entry of
the already-built table of the live instance (data_algebra.data_model.default_data_model() and
lookup_data_model_for_key("default_Polars_model")); detach_all() restores it.

Multi-process use: the counters live in the process that made the calls.  Workers return
`snapshot()`; the parent calls `merge(snapshot)`; `require_evaluated(rep, names)` appends a checker
error to rep.errors for every contracted function that was evaluated zero times.
"""
from __future__ import annotations

import collections
import functools
from typing import Any, Callable, Dict, List, Optional, Tuple


class HarnessError(Exception):
    """The harness (not the library) is wrong: violated precondition or crashing postcondition."""


Call = collections.namedtuple("Call", ["args", "kwargs"])
Outcome = collections.namedtuple("Outcome", ["value", "exception"])


class Failure:
    """A recorded postcondition failure of one evaluation."""

    def __init__(self, name: str, detail: Any, call: Call, outcome: Outcome, context: Any = None):
        self.name = name
        self.detail = detail
        self.call = call
        self.outcome = outcome
        self.context = context

    def __repr__(self):
        return "Failure(%s: %r)" % (self.name, self.detail)


EVALS: collections.Counter = collections.Counter()
FAILURES: List[Failure] = []
HARNESS_ERRORS: List[str] = []
_ATTACHED: List[Tuple[Any, str, Any, bool]] = []  # (object, attribute, original, had_own_attribute)
_DISPATCH: List[Tuple[dict, str, Any]] = []  # (table, key, original)
CONTEXT: Dict[str, Any] = {}  # free slot for the check to describe the current case to its post()


def contract(
    pre: Optional[Callable] = None,
    post: Optional[Callable] = None,
    name: Optional[str] = None,
    when: Optional[Callable] = None,
):
    """Decorator factory: wrap a real function with a pre/post contract (see module docstring).
    when(call) -> bool: optional guard; calls for which it is false are passed straight through,
    neither checked nor counted (e.g. the incidental read_query calls made by insert_table)."""

    def deco(fn):
        nm = name or getattr(fn, "__qualname__", repr(fn))

        @functools.wraps(fn)
        def wrapper(*args, **kwargs):
            call = Call(args, kwargs)
            if when is not None and not when(call):
                return fn(*args, **kwargs)
            if pre is not None:
                try:
                    ok = pre(call)
                except Exception as e:
                    raise HarnessError("precondition of %s crashed: %s: %s" % (nm, type(e).__name__, e)) from e
                if not ok:
                    raise HarnessError("precondition of %s violated by the harness" % nm)
            value, exc = None, None
            try:
                value = fn(*args, **kwargs)
            except Exception as e:  # re-raised below, after post()
                exc = e
            EVALS[nm] += 1
            if post is not None:
                try:
                    verdict = post(call, Outcome(value, exc))
                except HarnessError:
                    raise
                except Exception as e:
                    msg = "postcondition of %s crashed: %s: %s" % (nm, type(e).__name__, e)
                    HARNESS_ERRORS.append(msg)
                    raise HarnessError(msg) from e
                if verdict is not None and verdict is not True:
                    FAILURES.append(Failure(nm, verdict, call, Outcome(value, exc), dict(CONTEXT)))
            if exc is not None:
                raise exc
            return value

        wrapper.__wrapped_real__ = fn
        wrapper.__contract_name__ = nm
        return wrapper

    return deco


def attach(obj: Any, attr: str, wrapper_or_factory: Callable, factory: bool = False) -> Callable:
    """Monkeypatch obj.attr in-process.  With factory=True the argument is `contract(...)` itself and
    is applied to the current attribute; otherwise it must already wrap the real function."""
    had_own = attr in getattr(obj, "__dict__", {})
    original = obj.__dict__[attr] if had_own else getattr(obj, attr)
    real = getattr(obj, attr)
    w = wrapper_or_factory(real) if factory else wrapper_or_factory
    setattr(obj, attr, w)
    _ATTACHED.append((obj, attr, original, had_own))
    return w


def attach_dispatch(model: Any, node_name: str, contract_factory: Callable) -> Callable:
    """Replace model._method_dispatch_table[node_name] (a bound method captured at construction of the
    live model instance) by contract_factory(bound_method)."""
    table = model._method_dispatch_table
    original = table[node_name]
    w = contract_factory(original)
    table[node_name] = w
    _DISPATCH.append((table, node_name, original))
    return w


def detach_all() -> None:
    """Undo every attach()/attach_dispatch() in reverse order."""
    while _DISPATCH:
        table, key, original = _DISPATCH.pop()
        table[key] = original
    while _ATTACHED:
        obj, attr, original, had_own = _ATTACHED.pop()
        if had_own:
            setattr(obj, attr, original)
        else:
            try:
                delattr(obj, attr)
            except AttributeError:
                setattr(obj, attr, original)


def take_failures() -> List[Failure]:
    """Return and clear the failures recorded so far (per evaluated case)."""
    out = list(FAILURES)
    del FAILURES[:]
    return out


def snapshot(reset: bool = True) -> Dict[str, Any]:
    """Counters of this process as plain data (for returning from a worker)."""
    snap = {"evals": dict(EVALS), "harness_errors": list(HARNESS_ERRORS)}
    if reset:
        EVALS.clear()
        del HARNESS_ERRORS[:]
    return snap


def merge(snap: Dict[str, Any]) -> None:
    """Add a worker's snapshot to this process' counters."""
    for k, v in snap.get("evals", {}).items():
        EVALS[k] += v
    HARNESS_ERRORS.extend(snap.get("harness_errors", []))


def require_evaluated(rep: Any, names: List[str]) -> None:
    """A contracted function evaluated zero times makes the run a checker error, not a pass."""
    for nm in names:
        if EVALS.get(nm, 0) <= 0:
            rep.errors.append("contracted function %s was evaluated 0 times in this run" % nm)
    for e in HARNESS_ERRORS:
        rep.errors.append(e)
