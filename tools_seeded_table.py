#!/usr/bin/env python3
"""maintenance: print the markdown table of DESIGN.md §13 from seeded/<id>/meta.json (written by tools_seeded_meta.py)"""
import glob, json, os, re
rows = []
for d in sorted(glob.glob("seeded/*/")):
    try:
        m = json.load(open(d + "meta.json"))
    except Exception:
        continue
    what = (m.get("what_it_breaks") or "").replace("\n", " ").replace("|", "/")
    what = re.split(r"(?<=[.;]) ", what)[0][:230]
    files = ", ".join(os.path.basename(f) for f in (m.get("files_touched") or []))[:60]
    rep = m["our_check"].get("reported") or []
    how = ""
    if m.get("caught"):
        kinds = []
        if any("unclassified" in r for r in rep):
            kinds.append("bounded run: new failing case")
        obl = [r for r in rep if "unclassified" not in r]
        if obl:
            kinds.append("obligation `%s`" % obl[0][:90])
        how = "; ".join(kinds)
    rows.append((m["id"], m["property"], files, what, "yes" if m.get("caught") else "**no**", how))
print("| seeded id | property | file | change | caught by `./check <property>` | how |")
print("|---|---|---|---|---|---|")
for r in rows:
    print("| %s | %s | %s | %s | %s | %s |" % r)
print()
print("caught: %d of %d" % (sum(1 for r in rows if r[4] == "yes"), len(rows)))
