"""C19: cdata.RecordMap.transform (the entry point behind `frame >> record_map`, `record_map(frame)` and convert_records) never hands the
caller's frame to anything that may modify it.

Frames are opaque values; a ghost set `possibly_modified` collects every frame that is handed to a callee that may modify its argument
(drop_indices does so by definition; the two record-conversion routines are treated pessimistically as if they might).  The obligation is that the
caller's X is not in that set at any return, which holds exactly because the body first replaces X by clean_copy(X), a frame the caller does not hold.
"""
import z3
from pyvc.api import Contract, T, VDict, VList, VNone, VOpt, VPy, VScalar, VSet, VStr, VTuple, fresh_name, veq
from contracts.vr_common import COLS

FRAME = T.opaque("Frame")
F = "data_algebra/cdata.py"


def register(reg):
    reg.add_class("DataModel", {}, file="data_algebra/data_model.py")
    reg.add_class("RecordMap", {"blocks_in": T.opt(T.opaque("RecordSpecification")), "blocks_out": T.opt(T.opaque("RecordSpecification")), "columns_needed": COLS}, file=F)
    DM = T.obj("DataModel")

    def owned(S):
        return S.func("is_fresh_frame_owned_by_the_callee", S.sort("Frame"), z3.BoolSort())

    def mutated(st, S):
        m = st.ghost.get("possibly_modified")
        if m is None:
            m = z3.K(S.sort("Frame"), z3.BoolVal(False))
        return m

    def mark(st, S, f):
        st.ghost["possibly_modified"] = z3.Store(mutated(st, S), f, z3.BoolVal(True))

    reg.opaque_attrs[("Frame", "columns")] = lambda eng, st, o: VSet(eng.S.func("frame_columns", eng.S.sort("Frame"), z3.ArraySort(eng.S.Atom, z3.BoolSort()))(o.z), T.set(T.atom))

    def lookup_apply(eng, st, argmap, node):
        r = eng.alloc(st, "DataModel")
        eng.registry.note("assumed: lookup_data_model_for_dataframe(X) returns a DataModel and does not touch X")
        return [(st, r)]

    reg.add(Contract(key="data_algebra.data_model.lookup_data_model_for_dataframe", params={"d": FRAME}, assumed=True, apply=lookup_apply, names=("lookup_data_model_for_dataframe",)))

    def is_app_apply(eng, st, argmap, node):
        f = eng.S.func("is_appropriate_data_instance", eng.S.sort("Frame"), z3.BoolSort())
        return [(st, VScalar(f(argmap["df"].z), T.bool))]

    reg.add(Contract(key="DataModel.is_appropriate_data_instance", cls="DataModel", params={"self": DM, "df": FRAME}, assumed=True, apply=is_app_apply))

    def clean_copy_apply(eng, st, argmap, node):
        S = eng.S
        r = S.func("frame_reset_index_drop", S.sort("Frame"), S.sort("Frame"))(argmap["df"].z)
        st.assume(owned(S)(r))
        eng.registry.note("contract of DataModel.clean_copy (proved for the Pandas model in this property's own group): returns a NEW index-free frame, argument untouched")
        return [(st, VScalar(r, FRAME))]

    reg.add(Contract(key="DataModel.clean_copy", cls="DataModel", params={"self": DM, "df": FRAME}, assumed=True, apply=clean_copy_apply))

    def drop_indices_apply(eng, st, argmap, node):
        mark(st, eng.S, argmap["df"].z)
        eng.registry.note("DataModel.drop_indices(df) modifies df IN PLACE (that is its documented purpose)")
        return [(st, VNone())]

    reg.add(Contract(key="DataModel.drop_indices", cls="DataModel", params={"self": DM, "df": FRAME}, assumed=True, apply=drop_indices_apply))

    def conv_apply(which):
        def ap(eng, st, argmap, node):
            S = eng.S
            src = argmap["data"].z
            mark(st, S, src)  # pessimistic: the conversion routines are not under contract and may work in place
            spec = argmap.get("blocks_in") or argmap.get("blocks_out")
            fn = S.func("frame_" + which, S.sort("Frame"), S.sort("RecordSpecification"), S.sort("Frame"))
            r = fn(src, spec.z if isinstance(spec, VScalar) else spec.val.z)
            st.assume(owned(S)(r))
            st.ghost.setdefault("conversions", [])
            st.ghost["conversions"] = st.ghost["conversions"] + [(which, src, spec)]
            eng.registry.note("assumed: %s(data, spec) returns a new frame that is a function of (data, spec); it MAY modify `data`" % which)
            return [(st, VScalar(r, FRAME))]
        return ap

    reg.add(Contract(key="DataModel.blocks_to_rowrecs", cls="DataModel", params={"self": DM, "data": FRAME}, assumed=True, apply=conv_apply("blocks_to_rowrecs")))
    reg.add(Contract(key="DataModel.rowrecs_to_blocks", cls="DataModel", params={"self": DM, "data": FRAME}, assumed=True, apply=conv_apply("rowrecs_to_blocks")))

    def ens(c):
        S = c.S
        if c.raised:
            return [("the-caller's-frame-is-untouched-also-when-the-transform-is-rejected", z3.Not(mutated(c.st, S)[c.X.z]))]
        out = [("the-caller's-frame-is-never-handed-to-anything-that-may-modify-it", z3.Not(mutated(c.st, S)[c.X.z])),
               ("returns-a-frame-the-caller-did-not-supply", z3.And(owned(S)(c.result.z), c.result.z != c.X.z))]
        # C17: what the transform computes -- blocks -> row records (incoming side, if any), then row records -> blocks (outgoing side, if any), on the index-free copy
        FR, SP = S.sort("Frame"), S.sort("RecordSpecification")
        b2r = S.func("frame_blocks_to_rowrecs", FR, SP, FR)
        r2b = S.func("frame_rowrecs_to_blocks", FR, SP, FR)
        r0 = S.func("frame_reset_index_drop", FR, FR)(c.X.z)
        bi, bo = c.field(c.self, "blocks_in"), c.field(c.self, "blocks_out")
        r1 = z3.If(bi.is_none, r0, b2r(r0, bi.val.z))
        r2 = z3.If(bo.is_none, r1, r2b(r1, bo.val.z))
        out.append(("the-result-is-the-outgoing-conversion-of-the-incoming-conversion-of-the-index-free-copy", c.result.z == r2))
        return out

    reg.add(Contract(key="RecordMap.transform", file=F, qualname="RecordMap.transform", cls="RecordMap",
                     params={"self": T.obj("RecordMap"), "X": FRAME, "local_data_model": T.opt(DM)}, returns=FRAME, ensures=ens, allow_raises=True,
                     entry_assume=lambda c: [z3.Not(owned(c.S)(c.X.z))]))


KEYS = ["RecordMap.transform"]
