"""registration shim: builders + extend_parsed_ gating (kept separate so the merge helper's call-site abstraction does not leak into other runs)"""
from contracts.c06_builders import register_all as register, EXTEND_KEYS as KEYS  # noqa: F401
