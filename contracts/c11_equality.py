"""Sidecar contracts: structural equality of pipelines (property C11).

For every node class the contract of `_equiv_nodes` is an IFF characterisation:
    result  <=>  every semantic field of the two nodes agrees
where expressions agree when Term.is_equal says so (relation E, the kernel of an uninterpreted `expr_code`), ordered
column lists agree as sequences, dicts agree as maps, record maps agree per RecordMap.__eq__'s own contract.
Reflexivity and symmetry of == then follow from reflexivity/symmetry of these field relations (paper argument, two lines);
"equal pipelines behave identically" follows because the executors and the SQL generator read nothing but these fields
(the field lists below are the reviewed semantic field sets F(C), DESIGN §5 C11).
"""
import z3
from pyvc.api import Contract, T, VDict, VList, VNone, VOpt, VPy, VScalar, VSet, VStr, VTuple, fresh_name, veq
from contracts.vr_common import F, EXPR, COLS, NODE, register_classes

FC = "data_algebra/cdata.py"


def expr_code(S):
    return S.func("expr_code", S.sort("Expr"), S.sort("ExprCode"))


def E(S, a, b):
    return expr_code(S)(a) == expr_code(S)(b)


def rz(c):
    r = c.result
    if isinstance(r, VPy):
        return z3.BoolVal(bool(r.obj))
    return r.z


def field_eq(c, name):
    return veq(c.field(c.self, name), c.field(c.other, name))


def ops_equiv(c):
    S = c.S
    a, b = c.field(c.self, "ops"), c.field(c.other, "ops")
    k = z3.Const("oe_k", S.Atom)
    return z3.And(a.dom == b.dom, z3.ForAll([k], z3.Implies(a.dom[k], E(S, a.val[k], b.val[k]))))


def register(reg):
    register_classes(reg)

    # Term.is_equal(other): assumed to decide the relation E (its own defects -- Value(1) vs Value(True), NaN -- are findings of the bounded runs)
    def is_equal_apply(eng, st, argmap, node):
        eng.registry.note("assumed contract: Term.is_equal(a, b) <=> expr_code(a) = expr_code(b)")
        return [(st, VScalar(E(eng.S, argmap["self"].z, argmap["other"].z), T.bool))]

    reg.opaque_methods[("Expr", "is_equal")] = Contract(key="Expr.is_equal", params={"other": EXPR}, assumed=True, apply=is_equal_apply)

    def mk(cls, spec, loops=None, file=F, extra_requires=None):
        def ensures(c):
            if c.raised:
                return [("no-exception", z3.BoolVal(False))]
            return [("true-exactly-when-all-semantic-fields-agree", rz(c) == spec(c))]

        def requires(c):
            out = [("other-allocated", c.eng.allocated(c.st, c.other))]
            if extra_requires:
                out += extra_requires(c)
            return out

        reg.add(Contract(key="%s._equiv_nodes" % cls, file=file, qualname="%s._equiv_nodes" % cls, cls=cls, params={"self": T.obj(cls), "other": T.obj(cls)},
                         returns=T.bool, requires=requires, ensures=ensures, loops=loops or {}))

    def ops_loop(c):
        S = c.S
        a, b = c.field(c.self, "ops"), c.field(c.other, "ops")
        keys = c.seq
        k = z3.Const("ol_k", S.Atom)
        return [("visited-assignments-agree", z3.ForAll([k], z3.Implies(z3.And(keys.mem[k], keys.idx_fn(k) < c.i), E(S, a.val[k], b.val[k]))))]

    mk("TableDescription", lambda c: z3.And(field_eq(c, "table_name"), field_eq(c, "column_names"), field_eq(c, "qualifiers"), field_eq(c, "key")))
    mk("ExtendNode", lambda c: z3.And(field_eq(c, "windowed_situation"), field_eq(c, "partition_by"), field_eq(c, "order_by"), field_eq(c, "reverse"), ops_equiv(c)), loops={0: ops_loop})
    mk("ProjectNode", lambda c: z3.And(field_eq(c, "group_by"), ops_equiv(c)), loops={0: ops_loop})
    mk("SelectRowsNode", lambda c: E(c.S, c.field(c.self, "expr").z, c.field(c.other, "expr").z),
       extra_requires=lambda c: [("one-filter-expression-each (constructor)", z3.And(c.eng.card(c.field(c.self, "ops").dom) == 1, c.eng.card(c.field(c.other, "ops").dom) == 1))])
    mk("SelectColumnsNode", lambda c: field_eq(c, "column_selection"))
    mk("DropColumnsNode", lambda c: field_eq(c, "column_deletions"))
    mk("OrderRowsNode", lambda c: z3.And(field_eq(c, "order_columns"), field_eq(c, "reverse"), field_eq(c, "limit")))
    mk("MapColumnsNode", lambda c: z3.And(field_eq(c, "column_remapping"), field_eq(c, "column_deletions")))
    mk("RenameColumnsNode", lambda c: field_eq(c, "column_remapping"))
    mk("NaturalJoinNode", lambda c: z3.And(field_eq(c, "on_a"), field_eq(c, "on_b"), field_eq(c, "jointype")))
    mk("ConcatRowsNode", lambda c: z3.And(field_eq(c, "id_column"), field_eq(c, "a_name"), field_eq(c, "b_name")))
    mk("SQLNode", lambda c: z3.And(field_eq(c, "view_name"), field_eq(c, "column_names"), field_eq(c, "sql")))

    # ---- record maps
    def spec_repr(S):
        return S.func("record_specification_repr", z3.IntSort(), S.Atom)

    def rs_repr_apply(eng, st, argmap, node):
        eng.registry.note("assumed contract: RecordSpecification.__repr__ is a function of the specification's content (it prints every field)")
        r = spec_repr(eng.S)(argmap["self"].z)
        st.assume(r != eng.S.NONE)
        return [(st, VScalar(r, T.atom))]

    reg.add(Contract(key="RecordSpecification.__repr__", cls="RecordSpecification", params={"self": T.obj("RecordSpecification")}, assumed=True, apply=rs_repr_apply))

    def rs_eq_ens(c):
        if c.raised:
            return [("no-exception", z3.BoolVal(False))]
        return [("true-exactly-when-printed-forms-agree", rz(c) == (spec_repr(c.S)(c.self.z) == spec_repr(c.S)(c.other.z)))]

    reg.add(Contract(key="RecordSpecification.__eq__", file=FC, qualname="RecordSpecification.__eq__", cls="RecordSpecification",
                     params={"self": T.obj("RecordSpecification"), "other": T.obj("RecordSpecification")}, returns=T.bool, ensures=rs_eq_ens))

    def opt_spec_eq(c, name):
        S = c.S
        a, b = c.field(c.self, name), c.field(c.other, name)
        return z3.Or(z3.And(a.is_none, b.is_none), z3.And(z3.Not(a.is_none), z3.Not(b.is_none), spec_repr(S)(a.val.z) == spec_repr(S)(b.val.z)))

    def rm_equiv(c):
        return z3.And(opt_spec_eq(c, "blocks_in"), opt_spec_eq(c, "blocks_out"))

    def rm_eq_ens(c):
        if c.raised:
            return [("no-exception", z3.BoolVal(False))]
        return [("true-exactly-when-both-record-layouts-agree", rz(c) == rm_equiv(c))]

    def rm_alloc(c):
        out = []
        for o in (c.self, c.other):
            for nm in ("blocks_in", "blocks_out"):
                f = c.field(o, nm)
                out.append(("spec-allocated", z3.Implies(z3.Not(f.is_none), c.eng.allocated(c.st, f.val))))
        return out

    reg.add(Contract(key="RecordMap.__eq__", file=FC, qualname="RecordMap.__eq__", cls="RecordMap", params={"self": T.obj("RecordMap"), "other": T.obj("RecordMap")},
                     returns=T.bool, requires=rm_alloc, ensures=rm_eq_ens))

    def convert_spec(c):
        S = c.S
        a, b = c.field(c.self, "record_map"), c.field(c.other, "record_map")

        class _C:  # evaluate rm_equiv on the two record maps
            pass
        cc = _C()
        cc.S = S
        cc.self, cc.other = a, b
        cc.field = c.field
        return rm_equiv(cc)

    mk("ConvertRecordsNode", convert_spec, extra_requires=lambda c: [("record-maps-allocated", z3.And(c.eng.allocated(c.st, c.field(c.self, "record_map")), c.eng.allocated(c.st, c.field(c.other, "record_map"))))] + [
        ("spec-allocated", z3.Implies(z3.Not(c.field(o, nm).is_none), c.eng.allocated(c.st, c.field(o, nm).val)))
        for o in (c.field(c.self, "record_map"), c.field(c.other, "record_map")) for nm in ("blocks_in", "blocks_out")])

    # ---- the recursive driver ViewRepresentation.__eq__
    def NEQ(S):
        return S.func("node_fields_agree", z3.IntSort(), z3.IntSort(), z3.BoolSort())

    def PEQ(S):
        return S.func("pipelines_equal", z3.IntSort(), z3.IntSort(), z3.BoolSort())

    def virt_equiv_apply(eng, st, argmap, node):
        eng.registry.note("virtual call self._equiv_nodes(other): replaced by the per-class contracts' common abstraction node_fields_agree(self, other)")
        return [(st, VScalar(NEQ(eng.S)(argmap["self"].z, argmap["other"].z), T.bool))]

    reg.add(Contract(key="ViewRepresentation._equiv_nodes", cls="ViewRepresentation", params={"self": NODE, "other": NODE}, assumed=True, apply=virt_equiv_apply))

    def eq_rec_apply(eng, st, argmap, node):
        return [(st, VScalar(PEQ(eng.S)(argmap["self"].z, argmap["other"].z), T.bool))]

    def eq_spec(c):
        S = c.S
        a, b = c.self, c.other
        sa, sb = c.field(a, "sources"), c.field(b, "sources")
        i = z3.Int("eq_i")
        return z3.And(c.eng.tag_of(c.st, a) == c.eng.tag_of(c.st, b), field_eq(c, "node_name"), field_eq(c, "column_names"), sa.n == sb.n,
                      NEQ(S)(a.z, b.z), z3.ForAll([i], z3.Implies(z3.And(0 <= i, i < sa.n), PEQ(S)(sa.arr[i], sb.arr[i]))))

    def eq_ens(c):
        if c.raised:
            return [("no-exception", z3.BoolVal(False))]
        return [("true-exactly-when-class-fields-and-all-sources-agree", rz(c) == eq_spec(c))]

    def eq_loop(c):
        S = c.S
        sa, sb = c.field(c.self, "sources"), c.field(c.other, "sources")
        j = z3.Int("eql_j")
        return [("visited-sources-equal", z3.ForAll([j], z3.Implies(z3.And(0 <= j, j < c.i), PEQ(S)(sa.arr[j], sb.arr[j]))))]

    eqc = Contract(key="ViewRepresentation.__eq__", file=F, qualname="ViewRepresentation.__eq__", cls="ViewRepresentation", params={"self": NODE, "other": NODE},
                   returns=T.bool, requires=lambda c: [("other-allocated", c.eng.allocated(c.st, c.other))], ensures=eq_ens, loops={0: eq_loop}, apply=None)
    reg.add(eqc)
    # recursive calls inside the body (`self.sources[i].__eq__(other.sources[i])`) use the abstraction PEQ
    eqc.apply = eq_rec_apply  # call sites (incl. the recursive ones in its own body) see the abstraction pipelines_equal

    # TableDescription.__eq__ (override): the property needs it to imply agreement on every field the back ends read
    def td_eq_ens(c):
        if c.raised:
            return [("no-exception", z3.BoolVal(False))]
        return [("equal-tables-have-equal-names", z3.Implies(rz(c), field_eq(c, "key"))),
                ("equal-tables-have-equal-columns-and-qualifiers", z3.Implies(rz(c), z3.And(field_eq(c, "column_names"), field_eq(c, "table_name"), field_eq(c, "qualifiers"))))]

    reg.add(Contract(key="TableDescription.__eq__", file=F, qualname="TableDescription.__eq__", cls="TableDescription", params={"self": T.obj("TableDescription"), "other": T.obj("TableDescription")},
                     returns=T.bool, ensures=td_eq_ens))


KEYS = ["%s._equiv_nodes" % c for c in ("TableDescription", "ExtendNode", "ProjectNode", "SelectRowsNode", "SelectColumnsNode", "DropColumnsNode", "OrderRowsNode",
                                         "MapColumnsNode", "RenameColumnsNode", "NaturalJoinNode", "ConcatRowsNode", "ConvertRecordsNode", "SQLNode")] + \
       ["RecordSpecification.__eq__", "RecordMap.__eq__", "ViewRepresentation.__eq__", "TableDescription.__eq__"]
