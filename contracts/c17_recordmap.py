"""C17: the record-map algebra of cdata.py that does not depend on the frame library.

RecordMap.__init__  (verified): the stored (blocks_in, blocks_out) are the arguments with row-record specifications (control table of <= 1 row)
                    normalised to None; at least one side remains; columns_needed / columns_produced are the block columns of the stored side or
                    the row columns of the other side.
RecordMap.inverse   (verified, through the constructor's contract): the inverse swaps the two sides, so that
                    inverse().columns_needed == columns_produced and inverse().columns_produced == columns_needed  (documented: "Return inverse transform").
RecordSpecification.map_to_rows / map_from_rows (verified): the two maps are built from the same specification on opposite sides.
"""
import z3
from pyvc.api import Contract, T, VDict, VList, VNone, VOpt, VPy, VScalar, VSet, VStr, VTuple, fresh_name, veq
from contracts.vr_common import COLS

F = "data_algebra/cdata.py"
FRAME = T.opaque("Frame")
Raised = __import__("pyvc.engine", fromlist=["Raised"]).Raised
OKEYS = T.list(T.oatom)


def register(reg):
    reg.add_class("ShiftPipeAction", {}, file="data_algebra/shift_pipe_action.py")
    reg.add_class("RecordSpecification", {"control_table": FRAME, "content_keys": OKEYS, "record_keys": COLS, "strict": T.bool, "block_columns": COLS, "row_columns": COLS}, file=F)
    reg.add_class("RecordMap", {"blocks_in": T.opt(T.obj("RecordSpecification")), "blocks_out": T.opt(T.obj("RecordSpecification")), "strict": T.bool,
                                "columns_needed": COLS, "columns_produced": COLS}, file=F, bases=["ShiftPipeAction"])
    RS = T.obj("RecordSpecification")
    RM = T.obj("RecordMap")

    def nrows(S):
        return S.func("frame_nrows", S.sort("Frame"), z3.IntSort())

    reg.opaque_attrs[("Frame", "shape")] = lambda eng, st, o: VTuple([VScalar(nrows(eng.S)(o.z), T.int), VScalar(z3.Int(fresh_name("ncols")), T.int)])
    reg.add(Contract(key="ShiftPipeAction.__init__", params={"this": T.obj("ShiftPipeAction")}, assumed=True, apply=lambda eng, st, argmap, node: [(st, VNone())],
                     note="ShiftPipeAction.__init__ does nothing"))

    def is_block(c, spec):
        """a specification with a control table of more than one row (a genuine block form)"""
        return nrows(c.S)(c.field(spec, "control_table").z) > 1

    def side(c, v):
        """what the constructor keeps for one side: None for an absent or row-record specification, otherwise the object"""
        if isinstance(v, VNone):
            return None
        return v

    def init_ens(c):
        S, eng = c.S, c.eng
        if c.raised:
            return []
        out = []
        for nm in ("blocks_in", "blocks_out"):
            arg = getattr(c, nm)
            stored = c.field(c.self, nm)
            if isinstance(arg, VNone):
                out.append(("%s-absent-stays-None" % nm, stored.is_none))
            else:
                absent = arg.is_none if isinstance(arg, VOpt) else z3.BoolVal(False)  # at call sites the argument may be an Optional value
                spec = VScalar((arg.val if isinstance(arg, VOpt) else arg).z, RS)
                out.append(("%s-is-stored-unless-it-is-a-row-record-specification-which-becomes-None" % nm,
                            z3.If(z3.And(z3.Not(absent), is_block(c, spec)), z3.And(z3.Not(stored.is_none), stored.val.z == spec.z), stored.is_none)))
        bi, bo = c.field(c.self, "blocks_in"), c.field(c.self, "blocks_out")
        out.append(("at-least-one-side-is-a-block-specification", z3.Or(z3.Not(bi.is_none), z3.Not(bo.is_none))))
        need, prod = c.field(c.self, "columns_needed"), c.field(c.self, "columns_produced")
        def same(lst, spec, fld):
            other = c.field(VScalar(spec, RS), fld)
            i = z3.Int(fresh_name("i"))
            return z3.And(lst.n == other.n, z3.ForAll([i], z3.Implies(z3.And(0 <= i, i < lst.n), lst.arr[i] == other.arr[i])))
        out.append(("columns_needed-are-the-block-columns-of-the-incoming-side-or-the-row-columns-of-the-outgoing-side",
                    z3.If(z3.Not(bi.is_none), same(need, bi.val.z, "block_columns"), same(need, bo.val.z, "row_columns"))))
        out.append(("columns_produced-are-the-block-columns-of-the-outgoing-side-or-the-row-columns-of-the-incoming-side",
                    z3.If(z3.Not(bo.is_none), same(prod, bo.val.z, "block_columns"), same(prod, bi.val.z, "row_columns"))))
        out.append(("strict-flag-stored", c.field(c.self, "strict").z == c.strict.z))
        return out

    reg.add(Contract(key="RecordMap.__init__", file=F, qualname="RecordMap.__init__", cls="RecordMap", is_init=True, init_frame=True, allow_raises=True,
                     params={"self": RM, "blocks_in": T.opt(RS), "blocks_out": T.opt(RS), "strict": T.bool}, ensures=init_ens,
                     modifies=(("RecordMap", "blocks_in"), ("RecordMap", "blocks_out"), ("RecordMap", "strict"), ("RecordMap", "columns_needed"), ("RecordMap", "columns_produced"))))

    def wf(c, m):
        """representation invariant of a RecordMap (established by the verified constructor): at least one side, stored sides are block specifications, needed/produced as documented"""
        bi, bo = c.field(m, "blocks_in"), c.field(m, "blocks_out")
        return [z3.Or(z3.Not(bi.is_none), z3.Not(bo.is_none)),
                z3.Implies(z3.Not(bi.is_none), z3.And(is_block(c, VScalar(bi.val.z, RS)), c.eng.allocated(c.st, VScalar(bi.val.z, RS)))),
                z3.Implies(z3.Not(bo.is_none), z3.And(is_block(c, VScalar(bo.val.z, RS)), c.eng.allocated(c.st, VScalar(bo.val.z, RS))))]

    def same_list(a, b):
        i = z3.Int(fresh_name("i"))
        return z3.And(a.n == b.n, z3.ForAll([i], z3.Implies(z3.And(0 <= i, i < a.n), a.arr[i] == b.arr[i])))

    def inv_ens(c):
        if c.raised:
            return []
        r = c.result
        if not (isinstance(r, VScalar) and r.ty.kind == "obj"):
            return [("returns-a-record-map", z3.BoolVal(False))]
        r = VScalar(r.z, RM)
        bi, bo = c.old_field(c.self, "blocks_in"), c.old_field(c.self, "blocks_out")
        ri, ro = c.field(r, "blocks_in"), c.field(r, "blocks_out")
        opt_eq = lambda a, b: z3.And(a.is_none == b.is_none, z3.Implies(z3.Not(a.is_none), a.val.z == b.val.z))
        return [("the-inverse-swaps-the-two-sides", z3.And(opt_eq(ri, bo), opt_eq(ro, bi))),
                ("the-inverse-needs-what-this-map-produces", same_list(c.field(r, "columns_needed"), c.old_field(c.self, "columns_produced"))),
                ("the-inverse-produces-what-this-map-needs", same_list(c.field(r, "columns_produced"), c.old_field(c.self, "columns_needed"))),
                ("this-map-is-unchanged", z3.And(opt_eq(c.field(c.self, "blocks_in"), bi), opt_eq(c.field(c.self, "blocks_out"), bo)))]

    def inv_req(c):
        need, prod = c.field(c.self, "columns_needed"), c.field(c.self, "columns_produced")
        bi, bo = c.field(c.self, "blocks_in"), c.field(c.self, "blocks_out")
        def fl(spec, fld):
            return c.field(VScalar(spec, RS), fld)
        inv = wf(c, c.self) + [
            z3.If(z3.Not(bi.is_none), same_list(need, fl(bi.val.z, "block_columns")), same_list(need, fl(bo.val.z, "row_columns"))),
            z3.If(z3.Not(bo.is_none), same_list(prod, fl(bo.val.z, "block_columns")), same_list(prod, fl(bi.val.z, "row_columns")))]
        return [("representation-invariant-of-RecordMap (every clause is a postcondition of the verified constructor)", z3.And(*inv))]

    reg.add(Contract(key="RecordMap.inverse", file=F, qualname="RecordMap.inverse", cls="RecordMap", params={"self": RM}, returns=RM, ensures=inv_ens, requires=inv_req, allow_raises=True))

    def map_ens(which):
        def ens(c):
            if c.raised:
                return []
            r = c.result
            if not (isinstance(r, VScalar) and r.ty.kind == "obj"):
                return [("returns-a-record-map", z3.BoolVal(False))]
            r = VScalar(r.z, RM)
            mine, other = (c.field(r, "blocks_in"), c.field(r, "blocks_out")) if which == "to" else (c.field(r, "blocks_out"), c.field(r, "blocks_in"))
            return [("map_%s_rows-has-this-specification-on-the-%s-side-and-row-records-on-the-other" % (which, "incoming" if which == "to" else "outgoing"),
                     z3.And(z3.Not(mine.is_none), mine.val.z == c.self.z, other.is_none))]
        return ens

    for which in ("to", "from"):
        reg.add(Contract(key="RecordSpecification.map_%s_rows" % which, file=F, qualname="RecordSpecification.map_%s_rows" % which, cls="RecordSpecification",
                         params={"self": RS}, returns=RM, ensures=map_ens(which), allow_raises=True))


KEYS = ["RecordMap.__init__", "RecordMap.inverse", "RecordSpecification.map_to_rows", "RecordSpecification.map_from_rows"]
