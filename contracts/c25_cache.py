"""Sidecar contracts: data_algebra/eval_cache.py ResultCache.get / store (property C25).

Frames are heap objects (class Frame, ghost field `val` = the table's content) so that aliasing is visible:
"a lookup returns a COPY equal to the stored result; changing the returned copy (or the caller's frame after store) never
changes the cache" becomes: the returned / stored reference is a NEW object, and no pre-existing frame's content changes.
make_cache_key is an ASSUMED function of (model name, sql, the names and CONTENTS of the data tables); its own body (sorting,
hashing) is covered by the bounded run only.
"""
import z3
from pyvc.api import Contract, T, VDict, VList, VNone, VOpt, VPy, VScalar, VSet, VStr, VTuple, fresh_name, veq

F = "data_algebra/eval_cache.py"
FR = T.obj("Frame")
KEY = T.opaque("EvalKey")
DBM = T.opaque("DBModel")
DMAP = T.dict(T.atom, FR)


def register(reg):
    reg.add_class("Frame", {"val": T.opaque("FrameVal")}, file="(pandas.DataFrame)")
    reg.add_class("ResultCache", {"dirty": T.bool, "data_cache": T.dict(T.atom, FR), "result_cache": T.dict(KEY, FR)}, file=F)
    RC = T.obj("ResultCache")

    def val_heap(c, old=False):
        return c.heap_parts("Frame", "val", old=old)[0]

    # ---- assumed pandas contracts
    def copy_ens(c):
        o = z3.Int(fresh_name("o"))
        return [("same-content", c.field(c.result, "val").z == c.old_field(c.self, "val").z),
                ("same-kind", is_app(c.S)(c.result.z) == is_app(c.S)(c.self.z)),
                ("others-unchanged", z3.ForAll([o], z3.Implies(o != c.result.z, val_heap(c)[o] == val_heap(c, True)[o])))]

    reg.add(Contract(key="Frame.copy", cls="Frame", params={"self": FR}, returns=FR, assumed=True, fresh_result=True, ensures=copy_ens, modifies=(("Frame", "val"),),
                     note="pandas: df.copy() is a new object with equal content"))

    def equals_apply(eng, st, argmap, node):
        a, b = argmap["self"], argmap["other"]
        eng.registry.note("assumed pandas contract: a.equals(b) <=> same content")
        return [(st, VScalar(eng.read_field(st, a, "val").z == eng.read_field(st, b, "val").z, T.bool))]

    reg.add(Contract(key="Frame.equals", cls="Frame", params={"self": FR, "other": FR}, assumed=True, apply=equals_apply))

    def is_app(S):
        return S.func("is_appropriate_data_instance_obj", z3.IntSort(), z3.BoolSort())

    def ddm_apply(eng, st, argmap, node):
        return [(st, VScalar(z3.Const("the_default_data_model", eng.S.sort("DataModel")), T.opaque("DataModel")))]

    reg.add(Contract(key="data_algebra.data_model.default_data_model", params={}, assumed=True, apply=ddm_apply))

    def is_app(S):
        return S.func("is_appropriate_data_instance_obj", z3.IntSort(), z3.BoolSort())

    def is_app_apply(eng, st, argmap, node):
        eng.registry.note("assumed: is_appropriate_data_instance is a pure predicate of the object")
        return [(st, VScalar(is_app(eng.S)(argmap["df"].z), T.bool))]

    reg.opaque_methods[("DataModel", "is_appropriate_data_instance")] = Contract(key="DataModel.is_appropriate_data_instance[obj]", params={"df": FR}, assumed=True, apply=is_app_apply)

    def keyfn(eng, st, dbm, sql, dm: VDict):
        S = eng.S
        hv = eng.heap_field(st, "Frame", "val").parts[0]
        cv = z3.Const(fresh_name("contents"), z3.ArraySort(S.Atom, S.sort("FrameVal")))
        k = z3.Const(fresh_name("k"), S.Atom)
        st.assume(z3.ForAll([k], cv[k] == z3.If(dm.dom[k], hv[dm.val[k]], z3.Const("no_frame_val", S.sort("FrameVal"))), patterns=[cv[k]]))
        f = S.func("make_cache_key", S.sort("DBModel"), S.Atom, dm.dom.sort(), cv.sort(), S.sort("EvalKey"))
        return f(dbm.z, eng.as_atom(sql, st), dm.dom, cv)

    def mck_apply(eng, st, argmap, node):
        eng.registry.note("assumed contract: make_cache_key = function of (db model, sql text, names and CONTENTS of the data tables); may assert on ill-typed input")
        r = st.fork()
        return [(st, VScalar(keyfn(eng, st, argmap["db_model"], argmap["sql"], argmap["data_map"]), KEY)),
                (r, __import__("pyvc.engine", fromlist=["Raised"]).Raised("AssertionError"))]

    reg.add(Contract(key="make_cache_key", params={"db_model": DBM, "sql": T.atom, "data_map": DMAP}, assumed=True, apply=mck_apply))

    def hash_apply(eng, st, argmap, node):
        S = eng.S
        h = S.func("hash_data_frame", S.sort("FrameVal"), S.Atom)
        r = h(eng.read_field(st, argmap["d"], "val").z)
        st.assume(r != S.NONE)
        return [(st, VScalar(r, T.atom))]

    reg.add(Contract(key="hash_data_frame", params={"d": FR}, assumed=True, apply=hash_apply))

    # ---- invariant: every cached object is an allocated, appropriate frame
    def inv(c):
        S = c.S
        rc = c.field(c.self, "result_cache")
        dc = c.field(c.self, "data_cache")
        k = z3.Const("inv_k", S.sort("EvalKey"))
        a = z3.Const("inv_a", S.Atom)
        al = c.st.ghost.get("alloc", z3.Const("alloc0", z3.ArraySort(z3.IntSort(), z3.BoolSort())))
        return z3.And(z3.ForAll([k], z3.Implies(rc.dom[k], z3.And(al[rc.val[k]], is_app(S)(rc.val[k]), rc.val[k] >= 0))),
                      z3.ForAll([a], z3.Implies(dc.dom[a], z3.And(al[dc.val[a]], dc.val[a] >= 0))))

    def args_alloc(c):
        S = c.S
        a = z3.Const("aa_a", S.Atom)
        al = c.st.ghost.get("alloc", z3.Const("alloc0", z3.ArraySort(z3.IntSort(), z3.BoolSort())))
        dm = c.params["data_map"]
        return z3.ForAll([a], z3.Implies(dm.dom[a], z3.And(al[dm.val[a]], dm.val[a] >= 0)))

    def old_alloc(c):
        return c.old_ghost.get("alloc", z3.Const("alloc0", z3.ArraySort(z3.IntSort(), z3.BoolSort())))

    def contents_unchanged(c):
        """no frame that existed before the call changes its content"""
        o = z3.Int("cu_o")
        return z3.ForAll([o], z3.Implies(old_alloc(c)[o], val_heap(c)[o] == val_heap(c, True)[o]))

    def same_cache(c):
        return veq(c.field(c.self, "result_cache"), c.old_field(c.self, "result_cache"))

    # ---- get
    def get_ens(c):
        S = c.S
        old = c.old_field(c.self, "result_cache")
        k = keyfn(c.eng, c.st, c.db_model, c.sql, c.data_map)
        if c.raised:
            out = [("cache-unchanged-on-failure", z3.And(same_cache(c), contents_unchanged(c)))]
            if c.raised == "KeyError":
                out.append(("KeyError-only-for-an-absent-key", z3.Not(old.dom[k])))
            return out
        r = c.result
        return [("hit-only-for-a-stored-key", old.dom[k]),
                ("returns-a-new-object (a copy, never the cached frame)", z3.And(z3.Not(old_alloc(c)[r.z]), r.z != old.val[k])),
                ("copy-equals-the-stored-result", c.field(r, "val").z == val_heap(c, True)[old.val[k]]),
                ("cache-unchanged", z3.And(same_cache(c), contents_unchanged(c)))]

    reg.add(Contract(key="ResultCache.get", file=F, qualname="ResultCache.get", cls="ResultCache", params={"self": RC, "db_model": DBM, "sql": T.atom, "data_map": DMAP},
                     returns=FR, requires=lambda c: [("invariant", inv(c)), ("argument-frames-allocated", args_alloc(c))], ensures=get_ens, modifies=(("Frame", "val"),)))

    # ---- store
    def store_loop(c):
        S = c.S
        return [("result-cache-untouched-by-the-debug-copies", veq(c.field(c.self, "result_cache"), c.pre_field(c.self, "result_cache"))),
                ("dirty-untouched", c.field(c.self, "dirty").z == c.pre_field(c.self, "dirty").z),
                ("existing-frames-keep-their-content", contents_unchanged_rel(c)),
                ("invariant", inv(c)), ("alloc-grows", alloc_grows(c))]

    def alloc_grows(c):
        o = z3.Int("ag_o")
        al = c.st.ghost.get("alloc", z3.Const("alloc0", z3.ArraySort(z3.IntSort(), z3.BoolSort())))
        al0 = c.pre.ghost.get("alloc", z3.Const("alloc0", z3.ArraySort(z3.IntSort(), z3.BoolSort())))
        return z3.ForAll([o], z3.Implies(al0[o], al[o]))

    def contents_unchanged_rel(c):
        o = z3.Int("cur_o")
        al0 = c.pre.ghost.get("alloc", z3.Const("alloc0", z3.ArraySort(z3.IntSort(), z3.BoolSort())))
        pre_val = c.pre_heap[("Frame", "val")].parts[0]
        return z3.ForAll([o], z3.Implies(al0[o], val_heap(c)[o] == pre_val[o]))

    def store_ens(c):
        S = c.S
        old, new = c.old_field(c.self, "result_cache"), c.field(c.self, "result_cache")
        k = keyfn(c.eng, c.st, c.db_model, c.sql, c.data_map)
        if c.raised:
            return [("cache-unchanged-on-failure", z3.And(same_cache(c), contents_unchanged(c)))]
        kk = z3.Const("st_k", S.sort("EvalKey"))
        unchanged = z3.And(same_cache(c), c.field(c.self, "dirty").z == c.old_field(c.self, "dirty").z)
        was_equal = z3.And(old.dom[k], val_heap(c, True)[old.val[k]] == val_heap(c, True)[c.res.z])
        stored = z3.And(new.dom == z3.Store(old.dom, k, True), z3.ForAll([kk], z3.Implies(z3.And(old.dom[kk], kk != k), new.val[kk] == old.val[kk])),
                        z3.Not(old_alloc(c)[new.val[k]]), new.val[k] != c.res.z, val_heap(c)[new.val[k]] == val_heap(c, True)[c.res.z], c.field(c.self, "dirty").z)
        return [("an-equal-stored-result-is-left-alone", z3.Implies(was_equal, unchanged)),
                ("otherwise-a-private-copy-is-stored-under-exactly-that-key", z3.Implies(z3.Not(was_equal), stored)),
                ("no-existing-frame-changes (caller's res and data tables included)", contents_unchanged(c)),
                ("invariant", inv(c))]

    reg.add(Contract(key="ResultCache.store", file=F, qualname="ResultCache.store", cls="ResultCache",
                     params={"self": RC, "db_model": DBM, "sql": T.atom, "data_map": DMAP, "res": FR}, requires=lambda c: [("invariant", inv(c)), ("argument-frames-allocated", args_alloc(c)), ("res-allocated", c.eng.allocated(c.st, c.res))],
                     ensures=store_ens, loops={0: store_loop}, modifies=(("Frame", "val"), ("ResultCache", "result_cache"), ("ResultCache", "data_cache"), ("ResultCache", "dirty"))))


KEYS = ["ResultCache.get", "ResultCache.store"]
