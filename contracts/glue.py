"""Tier-2 glue obligations on the executors / SQL generator (hybrid properties C16, C19).

The engines themselves (pandas, sqlite) are behind assumed contracts; what is PROVED here is which arguments the real glue
code hands to them and that what it returns went through the defensive copy.
"""
import z3
from pyvc.api import Contract, T, VDict, VList, VNone, VOpt, VPy, VScalar, VSet, VStr, VTuple, fresh_name, veq
from contracts.vr_common import F, COLS, NODE, register_classes

FRAME = T.opaque("Frame")


def register(reg):
    register_classes(reg)
    S_ = {}

    # ------------------------------------------------------------------ C19: PandasModelBase._table_step returns an owned copy
    reg.add_class("PandasModel", {}, file="data_algebra/pandas_base.py")
    reg.classes["TableDescription"].fields.setdefault("head", T.opt(FRAME))

    def owned(S):
        return S.func("is_fresh_frame_owned_by_the_executor", S.sort("Frame"), z3.BoolSort())

    def sel(S):
        return S.func("frame_loc_columns", S.sort("Frame"), z3.ArraySort(z3.IntSort(), S.Atom), z3.IntSort(), S.sort("Frame"))

    def reset(S):
        return S.func("frame_reset_index_drop", S.sort("Frame"), S.sort("Frame"))

    def frame_attr_loc(eng, st, o):
        return VPy(("frameloc", o))

    reg.opaque_attrs[("Frame", "loc")] = frame_attr_loc
    reg.opaque_attrs[("Frame", "columns")] = lambda eng, st, o: VSet(eng.S.func("frame_columns", eng.S.sort("Frame"), z3.ArraySort(eng.S.Atom, z3.BoolSort()))(o.z), T.set(T.atom))

    def loc_subscript(eng, st, cont, key, node):
        if isinstance(cont, VPy) and isinstance(cont.obj, tuple) and cont.obj[0] == "frameloc" and isinstance(key, VTuple) and len(key.items) == 2:
            cols = eng.list_of(key.items[1], st, node)
            eng.registry.note("assumed pandas contract: df.loc[:, cols] is a function of (df, cols) (a view or copy; NOT assumed owned)")
            return [(st, VScalar(sel(eng.S)(cont.obj[1].z, cols.arr, cols.n), FRAME))]
        return None

    reg.subscript_hooks = getattr(reg, "subscript_hooks", []) + [loc_subscript]

    def reset_index_apply(eng, st, argmap, node):
        S = eng.S
        inplace = argmap.get("inplace")
        if not (isinstance(inplace, VPy) and inplace.obj is False):
            raise __import__("pyvc.engine", fromlist=["Unsupported"]).Unsupported("reset_index without inplace=False", node)
        r = reset(S)(argmap["self"].z)
        st.assume(owned(S)(r))
        eng.registry.note("assumed pandas contract: df.reset_index(drop=True, inplace=False) returns a NEW frame (owned by the caller) with a default index")
        return [(st, VScalar(r, FRAME))]

    reg.opaque_methods[("Frame", "reset_index")] = Contract(key="Frame.reset_index", params={"drop": T.bool, "inplace": T.bool}, assumed=True, apply=reset_index_apply)

    def is_app_apply(eng, st, argmap, node):
        f = eng.S.func("pandas_is_appropriate_data_instance", eng.S.sort("Frame"), z3.BoolSort())
        return [(st, VScalar(f(argmap["df"].z), T.bool))]

    PM = T.obj("PandasModel")
    reg.add(Contract(key="PandasModel.is_appropriate_data_instance", cls="PandasModel", params={"self": PM, "df": FRAME}, assumed=True, apply=is_app_apply))

    def clean_copy_ens(c):
        if c.raised:
            return []
        return [("returns-a-new-index-free-frame", z3.And(owned(c.S)(c.result.z), c.result.z == reset(c.S)(c.df.z)))]

    reg.add(Contract(key="PandasModel.clean_copy", file="data_algebra/pandas_base.py", qualname="PandasModelBase.clean_copy", cls="PandasModel",
                     params={"self": PM, "df": FRAME}, returns=FRAME, ensures=clean_copy_ens))

    def table_step_ens(c):
        S = c.S
        if c.raised:
            return []
        cn = c.field(c.op, "column_names")
        src_ok = z3.BoolVal(False)
        cands = []
        if isinstance(c.data_map, VDict):
            cands.append(c.data_map.val[c.field(c.op, "table_name").z])
        head = c.field(c.op, "head")
        cands.append(head.val.z)
        r = c.result.z
        return [("result-is-an-owned-copy (never the caller's frame)", owned(S)(r)),
                ("result-is-the-declared-columns-of-the-named-input, index dropped", z3.Or(*[r == reset(S)(sel(S)(d, cn.arr, cn.n)) for d in cands]))]

    reg.add(Contract(key="PandasModel._table_step", file="data_algebra/pandas_base.py", qualname="PandasModelBase._table_step", cls="PandasModel",
                     params={"self": PM, "op": T.obj("TableDescription"), "data_map": T.opt(T.dict(T.atom, FRAME))}, returns=FRAME,
                     requires=lambda c: [("op-allocated", c.eng.allocated(c.st, c.op))], ensures=table_step_ens))

    # ------------------------------------------------------------------ C16: SQLite right join emitted as a left join
    reg.add_class("SQLiteModel", {}, file="data_algebra/SQLite.py")
    SM = T.obj("SQLiteModel")
    NEAR = T.opaque("NearSQL")

    def generic_join_apply(eng, st, argmap, node):
        S = eng.S
        jn = argmap["join_node"]
        f = S.func("generic_natural_join_to_near_sql", z3.IntSort(), z3.IntSort(), z3.BoolSort(), S.sort("NearSQL"))
        lif = argmap.get("left_is_first", VPy(True))
        lz = z3.BoolVal(bool(lif.obj)) if isinstance(lif, VPy) else lif.z
        st.ghost["generic_join_arg"] = jn
        st.ghost["generic_join_left_is_first"] = lz
        eng.registry.note("assumed: DBModel.natural_join_to_near_sql is a function of the node it is handed (and left_is_first)")
        return [(st, VScalar(f(argmap["model"].z, jn.z, lz), NEAR))]

    reg.add(Contract(key="data_algebra.db_model.DBModel.natural_join_to_near_sql", params={"model": SM, "join_node": T.obj("NaturalJoinNode")}, assumed=True, apply=generic_join_apply))

    def right_ens(c):
        S = c.S
        if c.raised:
            return [("no-exception-for-a-right-join-node", z3.BoolVal(False))]
        jn = c.st.ghost.get("generic_join_arg")
        if jn is None:
            return [("delegates-to-the-generic-translator", z3.BoolVal(False))]
        old_src = c.old_field(c.join_node, "sources")
        new_src = c.field(jn, "sources")
        return [
            ("emitted-as-LEFT-join", c.field(jn, "jointype").z == S.str_const("LEFT")),
            ("sources-swapped", z3.And(new_src.n == 2, new_src.arr[0] == old_src.arr[1], new_src.arr[1] == old_src.arr[0])),
            ("join-keys-swapped-with-the-sources", z3.And(veq(c.field(jn, "on_a"), c.old_field(c.join_node, "on_b")), veq(c.field(jn, "on_b"), c.old_field(c.join_node, "on_a")))),
            ("coalesce-order-follows-the-original-left-table", c.st.ghost["generic_join_left_is_first"] == z3.BoolVal(False)),
            ("produced-columns-unchanged", veq(c.field(jn, "column_names"), c.old_field(c.join_node, "column_names"))),
            ("caller's-node-not-modified", z3.And(veq(c.field(c.join_node, "sources"), old_src), c.field(c.join_node, "jointype").z == c.old_field(c.join_node, "jointype").z,
                                                   veq(c.field(c.join_node, "on_a"), c.old_field(c.join_node, "on_a")))),
        ]

    reg.add(Contract(key="SQLiteModel._emit_right_join_as_left_join", file="data_algebra/SQLite.py", qualname="SQLiteModel._emit_right_join_as_left_join", cls="SQLiteModel",
                     params={"self": SM, "join_node": T.obj("NaturalJoinNode"), "using": T.opt(T.set(T.atom)), "temp_id_source": T.opaque("TempId"), "sql_format_options": T.opaque("SQLFormat")},
                     returns=NEAR, ensures=right_ens,
                     requires=lambda c: [("is-a-right-join-node", z3.And(c.field(c.join_node, "node_name").z == c.S.str_const("NaturalJoinNode"), c.field(c.join_node, "jointype").z == c.S.str_const("RIGHT"))),
                                         ("two-sources", c.field(c.join_node, "sources").n == 2), ("node-allocated", c.eng.allocated(c.st, c.join_node))],
                     modifies=(("NaturalJoinNode", "jointype"), ("NaturalJoinNode", "on_a"), ("NaturalJoinNode", "on_b"), ("ViewRepresentation", "sources"))))


    register_order(reg)
    register_project_sql(reg)
    register_extend_sql(reg)
    register_extend_terms_sql(reg)
    register_select_rows_sql(reg)
    register_rename_sql(reg)
    register_select_columns_sql(reg)
    register_map_sql(reg)
    register_order_steps(reg)
    register_small_steps(reg)


KEYS_C19 = ["PandasModel.clean_copy", "PandasModel._table_step"]
KEYS_C16 = ["SQLiteModel._emit_right_join_as_left_join"]


# ====================================================================== C18: SQLModel.order_to_near_sql (ORDER BY / DESC / LIMIT text)
def register_order(reg):
    import z3
    from pyvc.api import Contract, T, VList, VNone, VOpt, VPy, VScalar, VSet, VStr, VTuple, fresh_name
    from contracts.vr_common import COLS, NODE, register_classes
    import contracts.c24_orderedset as c24
    register_classes(reg)
    if "OrderedSet" not in reg.classes:
        c24.register(reg)
    reg.add_class("SQLModel", {}, file="data_algebra/sql_model.py")
    SM = T.obj("SQLModel")
    NEAR = T.opaque("NearSQL")
    Raised = __import__("pyvc.engine", fromlist=["Raised"]).Raised

    def quote(S):
        return S.func("quote_identifier", S.Atom, S.Atom)

    def q_apply(eng, st, argmap, node):
        r = quote(eng.S)(eng.as_atom(argmap["identifier"], st, node))
        st.assume(r != eng.S.NONE)
        return [(st, VScalar(r, T.atom))]

    reg.add(Contract(key="SQLModel.quote_identifier", cls="SQLModel", params={"self": SM, "identifier": T.atom}, assumed=True, apply=q_apply,
                     note="quote_identifier is a function of the name (its own correctness is C14's business)"))

    def sep_apply(eng, st, argmap, node):
        S = eng.S
        terms = eng.list_of(argmap["terms"], st, node)
        st.ghost["sep_terms_arg"] = terms
        n = z3.Int(fresh_name("sep_n"))
        arr = z3.Const(fresh_name("sep_terms"), z3.ArraySort(z3.IntSort(), S.Atom))
        st.assume(n == terms.n)
        eng.registry.note("assumed: _indent_and_sep_terms returns one formatted line per term, in order (a function of the term list)")
        return [(st, VList(n, arr, T.list(T.atom)))]

    reg.add(Contract(key="SQLModel._indent_and_sep_terms", cls="SQLModel", params={"self": SM, "terms": COLS}, assumed=True, apply=sep_apply))

    def cu_apply(eng, st, argmap, node):
        r = eng.alloc(st, "OrderedSet")
        return [(st, VTuple([r], is_list=True))]

    reg.add(Contract(key="OrderRowsNode.columns_used_from_sources", cls="OrderRowsNode", params={"self": T.obj("OrderRowsNode")}, assumed=True, apply=cu_apply,
                     note="columns_used_from_sources: proved separately (C10); here only its shape (one entry) matters"))

    def tnsi_apply(eng, st, argmap, node):
        return [(st, VScalar(z3.Const(fresh_name("subsql"), eng.S.sort("NearSQL")), NEAR))]

    reg.add(Contract(key="ViewRepresentation.to_near_sql_implementation_", cls="ViewRepresentation", params={"self": NODE}, assumed=True, apply=tnsi_apply))
    reg.opaque_methods[("NearSQL", "to_bound_near_sql")] = Contract(key="NearSQL.to_bound_near_sql", params={}, assumed=True,
                                                                     apply=lambda eng, st, argmap, node: [(st, VScalar(z3.Const(fresh_name("bound"), eng.S.sort("NearSQLContainer")), T.opaque("NearSQLContainer")))])
    reg.add(Contract(key="ViewRepresentation.to_python_src_", cls="ViewRepresentation", params={"self": NODE}, assumed=True,
                     apply=lambda eng, st, argmap, node: [(st, VScalar(z3.Const(fresh_name("src_text"), eng.S.Atom), T.atom))]))

    def step_apply(eng, st, argmap, node):
        st.ghost["unary_step_suffix"] = argmap.get("suffix")
        st.ghost["unary_step_terms"] = argmap.get("terms")
        st.ghost["unary_step_ops_key"] = argmap.get("ops_key")
        return [(st, VScalar(z3.Const(fresh_name("near_sql"), eng.S.sort("NearSQL")), NEAR))]

    reg.add(Contract(key="data_algebra.near_sql.NearSQLUnaryStep", params={}, assumed=True, apply=step_apply,
                     note="NearSQLUnaryStep(...) keeps the suffix it is given (rendered verbatim after the SELECT by near_sql.py, not under contract)"))

    def ens(c):
        S = c.S
        if c.raised:
            return []
        node = c.order_node
        oc = c.field(node, "order_columns")
        rev = c.eng.list_mem(c.field(node, "reverse"), c.st)
        lim = c.field(node, "limit")
        suffix = c.st.ghost.get("unary_step_suffix")
        if suffix is None:
            return [("builds-a-unary-step", z3.BoolVal(False))]
        sl = c.eng.list_of(suffix, c.st)
        cat = S.func("str_concat", S.Atom, S.Atom, S.Atom)
        out = []
        arg = c.st.ghost.get("sep_terms_arg")
        i = z3.Int("ord_i")
        if arg is None:
            out.append(("no-ORDER-BY-only-without-order-columns", oc.n <= 0))
        else:
            desc = S.str_const(" DESC")
            want = lambda k: z3.If(rev[oc.arr[k]], cat(quote(S)(oc.arr[k]), desc), quote(S)(oc.arr[k]))
            out.append(("ORDER-BY-terms-are-the-quoted-order-columns-in-order-with-DESC-exactly-on-reversed-ones",
                        z3.And(arg.n == oc.n, oc.n > 0, z3.ForAll([i], z3.Implies(z3.And(0 <= i, i < oc.n), arg.arr[i] == want(i))))))
            out.append(("suffix-starts-with-ORDER-BY", z3.And(sl.n >= 1, sl.arr[0] == S.str_const("ORDER BY"))))
        str_of = S.func("str_of_Int", z3.IntSort(), S.Atom)
        limit_text = cat(S.str_const("LIMIT "), str_of(lim.val.z))
        n_order = (arg.n + 1) if arg is not None else z3.IntVal(0)
        out.append(("the-CTE-sharing-key-identifies-the-node (with its sources), not just the step", ops_key_identifies_node(c, node)))
        out.append(("LIMIT-clause-present-exactly-when-a-limit-is-set (also limit=0)",
                    z3.If(lim.is_none, sl.n == n_order, z3.And(sl.n == n_order + 1, sl.arr[sl.n - 1] == limit_text))))
        return out

    reg.add(Contract(key="SQLModel.order_to_near_sql", file="data_algebra/sql_model.py", qualname="SQLModel.order_to_near_sql", cls="SQLModel",
                     params={"self": SM, "order_node": T.obj("OrderRowsNode"), "using": T.opt(T.obj("OrderedSet")), "temp_id_source": Ty_py_none(), "sql_format_options": T.opaque("SQLFormat")},
                     returns=NEAR, ensures=ens, modifies=(("OrderedSet", "impl"),),
                     requires=lambda c: [("is-an-order-node", c.field(c.order_node, "node_name").z == c.S.str_const("OrderRowsNode")), ("one-source", c.field(c.order_node, "sources").n == 1),
                                         ("node-allocated", c.eng.allocated(c.st, c.order_node)), ("source-allocated", c.eng.allocated(c.st, VScalar(c.field(c.order_node, "sources").arr[0], NODE)))]))


def Ty_py_none():
    from pyvc.values import Ty
    return Ty("py", (None,))


KEYS_C18 = ["SQLModel.order_to_near_sql"]


# ====================================================================== C09: SQLModel.project_to_near_sql (GROUP BY text)
def register_project_sql(reg):
    """GROUP BY names every group key of the node, whatever the later steps still use (`using`); without group keys there is no GROUP BY (one row)."""
    import z3
    from pyvc.api import Contract, T, VList, VNone, VOpt, VPy, VScalar, VSet, VStr, VTuple, VDict, fresh_name
    from contracts.vr_common import COLS, NODE, OPS
    SM = T.obj("SQLModel")
    NEAR = T.opaque("NearSQL")

    def quote(S):
        return S.func("quote_identifier", S.Atom, S.Atom)

    def e2s(S):
        return S.func("expr_to_sql", S.sort("Expr"), S.Atom)

    def e2s_apply(eng, st, argmap, node):
        eng.registry.note("assumed: expr_to_sql is a function of the expression (its correctness is C01/C05's business)")
        return [(st, VScalar(e2s(eng.S)(argmap["expression"].z), T.atom))]

    reg.add(Contract(key="SQLModel.expr_to_sql", cls="SQLModel", params={"self": SM, "expression": T.opaque("Expr")}, assumed=True, apply=e2s_apply))

    def cu_apply(eng, st, argmap, node):
        r = eng.alloc(st, "OrderedSet")
        return [(st, VTuple([r], is_list=True))]

    reg.add(Contract(key="ProjectNode.columns_used_from_sources", cls="ProjectNode", params={"self": T.obj("ProjectNode")}, assumed=True, apply=cu_apply,
                     note="columns_used_from_sources: proved separately (C10); here only its shape (one entry) matters"))

    def ens(c):
        S = c.S
        if c.raised:
            return []
        node = c.project_node
        gb = c.field(node, "group_by")
        suffix = c.st.ghost.get("unary_step_suffix")
        if suffix is None:
            return [("builds-a-unary-step", z3.BoolVal(False))]
        sl = c.eng.list_of(suffix, c.st)
        arg = c.st.ghost.get("sep_terms_arg")
        i = z3.Int("grp_i")
        out = []
        if arg is None:
            out.append(("no-GROUP-BY-only-without-group-keys (then the query returns one row)", z3.And(gb.n <= 0, sl.n == 0)))
        else:
            out.append(("GROUP-BY-terms-are-ALL-the-quoted-group-keys-in-order-whatever-later-steps-use",
                        z3.And(arg.n == gb.n, gb.n > 0, z3.ForAll([i], z3.Implies(z3.And(0 <= i, i < gb.n), arg.arr[i] == quote(S)(gb.arr[i]))))))
            out.append(("suffix-is-GROUP-BY-followed-by-one-line-per-key", z3.And(sl.n == arg.n + 1, sl.arr[0] == S.str_const("GROUP BY"))))
        out.append(("the-CTE-sharing-key-identifies-the-node (with its sources), not just the step", ops_key_identifies_node(c, node)))
        terms = c.st.ghost.get("unary_step_terms")
        if isinstance(terms, VDict):
            g = z3.Const("grp_g", S.Atom)
            mem = c.eng.list_mem(gb, c.st)
            out.append(("every-group-key-is-a-selected-term", z3.ForAll([g], z3.Implies(mem[g], terms.dom[g]))))
        return out

    reg.add(Contract(key="SQLModel.project_to_near_sql", file="data_algebra/sql_model.py", qualname="SQLModel.project_to_near_sql", cls="SQLModel",
                     params={"self": SM, "project_node": T.obj("ProjectNode"), "using": T.opt(T.obj("OrderedSet")), "temp_id_source": Ty_py_none(), "sql_format_options": T.opaque("SQLFormat")},
                     returns=NEAR, ensures=ens, modifies=(("OrderedSet", "impl"),),
                     requires=lambda c: [("is-a-project-node", c.field(c.project_node, "node_name").z == c.S.str_const("ProjectNode")), ("one-source", c.field(c.project_node, "sources").n == 1),
                                         ("node-allocated", c.eng.allocated(c.st, c.project_node)), ("source-allocated", c.eng.allocated(c.st, VScalar(c.field(c.project_node, "sources").arr[0], NODE)))]))


KEYS_C09_SQL = ["SQLModel.project_to_near_sql"]


# ====================================================================== C27: the OVER ( PARTITION BY ... ORDER BY ... ) text of SQLModel.extend_to_near_sql
def register_extend_sql(reg):
    """REGION contract: the statements of the real extend_to_near_sql from `window_term = ""` up to (not including) `terms: ... = OrderedDict()`,
    re-extracted from the source on every run.  Dropped: everything before (argument defaults, the `using` bookkeeping, the sub-query) and after (term
    assembly, the merge into the sub-query, the NearSQL object).  The region reads only `self` and `extend_node`."""
    import ast as _ast
    import z3
    from pyvc.api import Contract, T, VList, VNone, VOpt, VPy, VScalar, VSet, VStr, VTuple, VDict, fresh_name
    from contracts.vr_common import COLS, NODE
    SM = T.obj("SQLModel")

    def quote(S):
        return S.func("quote_identifier", S.Atom, S.Atom)

    def region(fn):
        start = end = None
        for i, stmt in enumerate(fn.body):
            if start is None and isinstance(stmt, _ast.Assign) and _ast.unparse(stmt) == "window_term = ''":
                start = i
            if start is not None and isinstance(stmt, _ast.AnnAssign) and _ast.unparse(stmt.target) == "terms":
                end = i
                break
        if start is None or end is None:
            return []
        return fn.body[start:end]

    def ens(c):
        S, eng, st = c.S, c.eng, c.st
        node = c.extend_node
        pb, ob = c.field(node, "partition_by"), c.field(node, "order_by")
        rev = eng.list_mem(c.field(node, "reverse"), st)
        win = c.field(node, "windowed_situation").z
        wt = st.env.get("window_term")
        wv = st.env.get("window_vars")
        if wt is None or wv is None:
            return [("region-defines-window_term-and-window_vars", z3.BoolVal(False))]
        wtz = eng.as_atom(wt, st, None)
        cat = S.func("str_concat", S.Atom, S.Atom, S.Atom)
        join = S.func("str_join", S.Atom, z3.ArraySort(z3.IntSort(), S.Atom), z3.IntSort(), S.Atom)
        calls = st.ghost.get("join_calls", [])
        i = z3.Int("win_i")
        out = []
        has_window = z3.Or(win, pb.n > 0, ob.n > 0)
        empty = S.str_const("")
        out.append(("no-OVER-clause-exactly-for-a-row-wise-extend", (wtz == empty) == z3.Not(has_window)))
        # which join calls happened on this path is fixed by the path: 0, 1 or 2 calls, PARTITION BY first
        desc = S.str_const(" DESC")
        want_o = lambda k: z3.If(rev[ob.arr[k]], cat(quote(S)(ob.arr[k]), desc), quote(S)(ob.arr[k]))
        part_ok = lambda L: z3.And(L.n == pb.n, z3.ForAll([i], z3.Implies(z3.And(0 <= i, i < pb.n), L.arr[i] == quote(S)(pb.arr[i]))))
        ord_ok = lambda L: z3.And(L.n == ob.n, z3.ForAll([i], z3.Implies(z3.And(0 <= i, i < ob.n), L.arr[i] == want_o(i))))
        sep = S.str_const(", ")

        def text(*pieces):
            """left-to-right concatenation as Python evaluates `a + b + c`: adjacent literals fold into one literal"""
            acc = None
            for p in pieces:
                if acc is None:
                    acc = p
                elif isinstance(acc, str) and isinstance(p, str):
                    acc = acc + p
                else:
                    acc = cat(S.str_const(acc) if isinstance(acc, str) else acc, S.str_const(p) if isinstance(p, str) else p)
            return S.str_const(acc) if isinstance(acc, str) else acc

        J = lambda L: join(sep, L.arr, L.n)
        if len(calls) == 0:
            out.append(("no-PARTITION-BY/ORDER-BY-only-without-partition-and-order-columns", z3.And(pb.n <= 0, ob.n <= 0)))
            out.append(("window-text", z3.Implies(has_window, wtz == text(" OVER ( ", " ) "))))
        elif len(calls) == 2:
            out.append(("PARTITION-BY-lists-all-quoted-partition-columns-in-order", z3.And(pb.n > 0, part_ok(calls[0][1]), calls[0][0] == ", ")))
            out.append(("ORDER-BY-lists-all-quoted-order-columns-in-order-with-DESC-exactly-on-reversed-ones", z3.And(ob.n > 0, ord_ok(calls[1][1]), calls[1][0] == ", ")))
            out.append(("window-text", wtz == text(" OVER ( ", "PARTITION BY ", J(calls[0][1]), " ", "ORDER BY ", J(calls[1][1]), " ", " ) ")))
        else:
            L = calls[0][1]
            is_part = z3.And(pb.n > 0, ob.n <= 0, part_ok(L), wtz == text(" OVER ( ", "PARTITION BY ", J(L), " ", " ) "))
            is_ord = z3.And(ob.n > 0, pb.n <= 0, ord_ok(L), wtz == text(" OVER ( ", "ORDER BY ", J(L), " ", " ) "))
            out.append(("a-single-clause-is-PARTITION-BY-over-all-partition-columns-or-ORDER-BY-over-all-order-columns-with-DESC-on-reversed-ones", z3.And(calls[0][0] == ", ", z3.Or(is_part, is_ord))))
        g = z3.Const("win_g", S.Atom)
        wvs = eng.set_of(wv, st, None) if hasattr(eng, "set_of") else wv
        out.append(("window_vars-are-exactly-the-partition-and-order-columns",
                    z3.ForAll([g], wvs.arr[g] == z3.Or(eng.list_mem(pb, st)[g], eng.list_mem(ob, st)[g]))))
        return out

    reg.add(Contract(key="SQLModel.extend_to_near_sql:window-clause", file="data_algebra/sql_model.py", qualname="SQLModel.extend_to_near_sql", cls="SQLModel",
                     params={"self": SM, "extend_node": T.obj("ExtendNode"), "using": Ty_py_none(), "temp_id_source": Ty_py_none(), "sql_format_options": Ty_py_none()},
                     ensures=ens, body_select=region, names=("extend_to_near_sql:window-clause",), local_types={"window_vars": T.set(T.atom)},
                     requires=lambda c: [("node-allocated", c.eng.allocated(c.st, c.extend_node))],
                     entry_assume=lambda c: [c.field(c.extend_node, f).n >= 0 for f in ("partition_by", "order_by", "reverse")]))


KEYS_C27_SQL = ["SQLModel.extend_to_near_sql:window-clause", "SQLModel.extend_to_near_sql:term-assembly"]


def register_extend_terms_sql(reg):
    """second REGION contract on the real extend_to_near_sql: the statements from `terms: ... = OrderedDict()` up to (not including) `annotation = ...`.
    The locals computed before the region (`using`, `subops`, `window_term`, `window_vars`) enter as arbitrary values of their types.
    What is proved about every computed column ci: its SQL term is expr_to_sql(op) followed by the window clause, and its DECLARED DEPENDENCIES are the
    columns the expression reads together with every partition / order column -- the dependencies are what keeps the SQL-level extend merge from folding
    a windowed extend into a preceding extend that (re)defines one of its window columns."""
    import ast as _ast
    import z3
    from pyvc.api import Contract, T, VList, VNone, VOpt, VPy, VScalar, VSet, VStr, VTuple, VDict, fresh_name
    from contracts.vr_common import COLS, NODE, EXPR
    SM = T.obj("SQLModel")

    def e2s(S):
        return S.func("expr_to_sql", S.sort("Expr"), S.Atom)

    def colsf(S):
        return S.func("cols_of_expression", S.sort("Expr"), z3.ArraySort(S.Atom, z3.BoolSort()))

    if "SQLModel.expr_to_sql" not in reg.contracts:
        reg.add(Contract(key="SQLModel.expr_to_sql", cls="SQLModel", params={"self": SM, "expression": T.opaque("Expr")}, assumed=True,
                         apply=lambda eng, st, argmap, node: [(st, VScalar(e2s(eng.S)(argmap["expression"].z), T.atom))]))

    def gcn_apply(eng, st, argmap, node):
        """oi.get_column_names(acc): adds the columns the expression reads to the set `acc` (in place)"""
        S = eng.S
        recv = argmap["self"]
        acc_node = node.args[0]
        cur = eng.set_of(argmap["columns_seen"], st, node)
        nv = VSet(z3.SetUnion(cur.arr, colsf(S)(recv.z)), T.set(T.atom))
        eng.registry.note("assumed: expr.get_column_names(acc) adds exactly cols(expr) to acc (expr_rep, exercised in the C10 bounded run)")
        return [(s2, VNone()) for (s2, o) in eng.store_back(acc_node, nv, st, node)]

    reg.opaque_methods[("Expr", "get_column_names")] = Contract(key="Expr.get_column_names", params={"columns_seen": T.set(T.atom)}, assumed=True, apply=gcn_apply)

    def region(fn):
        start = end = None
        for i, stmt in enumerate(fn.body):
            if start is None and isinstance(stmt, _ast.AnnAssign) and _ast.unparse(stmt.target) == "terms":
                start = i
            if start is not None and isinstance(stmt, _ast.Assign) and _ast.unparse(stmt.targets[0]) == "annotation":
                end = i
                break
        if start is None or end is None:
            return []
        return fn.body[start:end]

    def spec_for(c, st, k, terms, deps):
        S = c.S
        cat = S.func("str_concat", S.Atom, S.Atom, S.Atom)
        subops = c.subops
        wt = c.eng.as_atom(c.window_term, st, None)
        wv = c.eng.set_of(c.window_vars, st, None).arr
        want_term = z3.If(wt == S.str_const(""), e2s(S)(subops.val[k]), cat(e2s(S)(subops.val[k]), wt))
        return z3.And(terms.dom[k], terms.val[k] == want_term, deps.dom[k], deps.val[k] == z3.SetUnion(colsf(S)(subops.val[k]), wv))

    def loop0(c):
        return [("(no claim about the pass-through columns)", z3.BoolVal(True))]

    def loop1(c):
        S = c.S
        terms, deps = c.var("terms"), c.var("declared_term_dependencies")
        keys = c.seq
        k = z3.Const("ta_k", S.Atom)
        return [("visited-computed-columns-have-their-term-and-dependencies", z3.ForAll([k], z3.Implies(z3.And(keys.mem[k], keys.idx_fn(k) < c.i), spec_for(c, c.st, k, terms, deps))))]

    def ens(c):
        S, st = c.S, c.st
        if c.raised:
            return []
        terms, deps = st.env.get("terms"), st.env.get("declared_term_dependencies")
        if not isinstance(terms, VDict) or not isinstance(deps, VDict):
            return [("region-defines-terms-and-declared_term_dependencies", z3.BoolVal(False))]
        k = z3.Const("ta_k2", S.Atom)
        return [("every-computed-column: term = sql(expression) + window clause, declared dependencies = columns read + ALL partition and order columns",
                 z3.ForAll([k], z3.Implies(c.subops.dom[k], spec_for(c, st, k, terms, deps))))]

    reg.add(Contract(key="SQLModel.extend_to_near_sql:term-assembly", file="data_algebra/sql_model.py", qualname="SQLModel.extend_to_near_sql", cls="SQLModel",
                     params={"self": SM, "extend_node": T.obj("ExtendNode"), "using": T.obj("OrderedSet"), "temp_id_source": Ty_py_none(), "sql_format_options": Ty_py_none()},
                     ghost_params={"subops": T.odict(T.atom, EXPR), "window_term": T.atom, "window_vars": T.set(T.atom)},
                     ensures=ens, body_select=region, names=("extend_to_near_sql:term-assembly",), loops={1: loop0, 2: loop1},  # ordinals count every for/while of the whole function
                     local_types={"terms": T.odict(T.atom, T.oatom), "declared_term_dependencies": T.odict(T.atom, T.set(T.atom)), "cols_used_in_term": T.set(T.atom)},
                     entry_assume=lambda c: [c.eng.as_atom(c.window_term, c.st, None) != c.S.NONE]))


def ops_key_identifies_node(c, node):
    """the key under which CTE elimination may share this step's query is an injective function of THE NODE ITSELF (printed with its sources):
    it is an f-string one of whose pieces is the node object (f-strings are injective in their pieces); a key built from less -- e.g. from the
    step's own annotation, which does not mention the sources -- would let two different sub-pipelines share one CTE"""
    import z3
    key = c.st.ghost.get("unary_step_ops_key")
    if key is None or not hasattr(key, "z"):
        return z3.BoolVal(False)
    alts = []
    for (res, pieces) in c.st.ghost.get("fstring_log", []):
        same_sort = [p for p in pieces if p.sort() == node.z.sort()]
        if same_sort:
            alts.append(z3.And(res == key.z, z3.Or(*[p == node.z for p in same_sort])))
    return z3.Or(*alts) if alts else z3.BoolVal(False)


# ====================================================================== C08/C01: SQLModel.select_rows_to_near_sql (selected terms and WHERE text)
def register_select_rows_sql(reg):
    import z3
    from pyvc.api import Contract, T, VList, VNone, VOpt, VPy, VScalar, VSet, VStr, VTuple, VDict, fresh_name
    from contracts.vr_common import COLS, NODE
    SM = T.obj("SQLModel")
    NEAR = T.opaque("NearSQL")
    if "SQLFormatOptions" not in reg.classes:
        reg.add_class("SQLFormatOptions", {"initial_commas": T.bool, "sql_indent": T.atom}, file="data_algebra/sql_model.py")
    reg.classes["SQLModel"].fields.setdefault("default_SQL_format_options", T.obj("SQLFormatOptions"))
    if "expr" not in reg.classes["SelectRowsNode"].fields:
        reg.classes["SelectRowsNode"].fields["expr"] = T.opaque("Expr")

    def cu_apply(eng, st, argmap, node):
        r = eng.alloc(st, "OrderedSet")
        return [(st, VTuple([r], is_list=True))]

    reg.add(Contract(key="SelectRowsNode.columns_used_from_sources", cls="SelectRowsNode", params={"self": T.obj("SelectRowsNode")}, assumed=True, apply=cu_apply,
                     note="columns_used_from_sources: proved separately (C10); here only its shape (one entry) matters"))

    def e2s(S):
        return S.func("expr_to_sql", S.sort("Expr"), S.Atom)

    def ens(c):
        S, eng, st = c.S, c.eng, c.st
        if c.raised:
            return []
        node = c.select_rows_node
        suffix = st.ghost.get("unary_step_suffix")
        terms = st.ghost.get("unary_step_terms")
        if suffix is None or not isinstance(terms, VDict):
            return [("builds-a-unary-step-with-a-term-dictionary", z3.BoolVal(False))]
        sl = eng.list_of(suffix, st)
        opts = c.sql_format_options
        if isinstance(opts, VNone):
            opts = c.field(c.self, "default_SQL_format_options")
        indent = c.field(VScalar(opts.z, T.obj("SQLFormatOptions")), "sql_indent").z
        cat = S.func("str_concat", S.Atom, S.Atom, S.Atom)
        out = [("the-filter-is-the-node's-expression: suffix == ['WHERE', indent + sql(expr)]",
                z3.And(sl.n == 2, sl.arr[0] == S.str_const("WHERE"), sl.arr[1] == cat(indent, e2s(S)(c.field(node, "expr").z))))]
        k = z3.Const("sr_k", S.Atom)
        if isinstance(c.using, VNone):
            want = eng.list_mem(c.field(node, "column_names"), st)
        else:
            want = eng.set_of(c.using, st, None).arr
        out.append(("the-CTE-sharing-key-identifies-the-node (with its sources), not just the step", ops_key_identifies_node(c, node)))
        out.append(("selected-terms-are-exactly-the-requested-columns (all of the step's columns by default), each passed through unchanged",
                    z3.ForAll([k], z3.And(terms.dom[k] == want[k], z3.Implies(terms.dom[k], terms.val[k] == S.NONE)))))
        return out

    reg.add(Contract(key="SQLModel.select_rows_to_near_sql", file="data_algebra/sql_model.py", qualname="SQLModel.select_rows_to_near_sql", cls="SQLModel",
                     params={"self": SM, "select_rows_node": T.obj("SelectRowsNode"), "using": T.opt(T.obj("OrderedSet")), "temp_id_source": Ty_py_none(), "sql_format_options": T.opt(T.obj("SQLFormatOptions"))},
                     returns=NEAR, ensures=ens, modifies=(("OrderedSet", "impl"),),
                     requires=lambda c: [("is-a-select_rows-node", c.field(c.select_rows_node, "node_name").z == c.S.str_const("SelectRowsNode")), ("one-source", c.field(c.select_rows_node, "sources").n == 1),
                                         ("node-allocated", c.eng.allocated(c.st, c.select_rows_node)), ("source-allocated", c.eng.allocated(c.st, VScalar(c.field(c.select_rows_node, "sources").arr[0], NODE)))]))


KEYS_C08_SQL = ["SQLModel.select_rows_to_near_sql", "SQLModel.rename_to_near_sql", "SQLModel.map_columns_to_near_sql", "SQLModel.select_columns_to_near_sql"]


# ====================================================================== C08: SQLModel.select_columns_to_near_sql (narrows the sub-query's own term dictionary in place)
def register_select_columns_sql(reg):
    import z3
    from pyvc.api import Contract, T, VList, VNone, VOpt, VPy, VScalar, VSet, VStr, VTuple, VDict, fresh_name
    from contracts.vr_common import COLS, NODE
    SM = T.obj("SQLModel")
    TERMS = T.dict(T.atom, T.oatom)
    reg.add_class("NearSQLObj", {"terms": T.opt(TERMS)}, file="data_algebra/near_sql.py")
    NQ = T.obj("NearSQLObj")

    def cu_apply(eng, st, argmap, node):
        S = eng.S
        arr = z3.Const(fresh_name("subusing"), z3.ArraySort(S.Atom, z3.BoolSort()))
        st.assume(z3.Not(arr[S.NONE]))
        return [(st, VTuple([VSet(arr, T.set(T.atom))], is_list=True))]

    reg.add(Contract(key="SelectColumnsNode.columns_used_from_sources", cls="SelectColumnsNode", params={"self": T.obj("SelectColumnsNode")}, assumed=True, apply=cu_apply,
                     note="columns_used_from_sources returns one set of source columns (its own obligations: C10)"))

    def tnsi_apply(eng, st, argmap, node):
        """the source's translation: a query object whose term dictionary is None ('*': all its columns) or has exactly the requested columns as keys"""
        S = eng.S
        q = eng.alloc(st, "NearSQLObj")
        terms = eng.read_field(st, q, "terms")
        u = eng.set_of(argmap["using"], st, node).arr
        st.ghost["sub_query"] = q
        st.ghost["sub_using"] = u
        st.ghost["sub_terms_before"] = terms
        k = z3.Const(fresh_name("k"), S.Atom)
        st.assume(z3.Implies(z3.Not(terms.is_none), z3.ForAll([k], terms.val.dom[k] == u[k])))
        eng.registry.note("assumed: source.to_near_sql_implementation_(using=U) returns a query whose terms are None (all columns) or keyed by exactly U")
        return [(st, q)]

    saved = reg.contracts.get("ViewRepresentation.to_near_sql_implementation_")

    def ens(c):
        S, eng, st = c.S, c.eng, c.st
        if c.raised:
            return []
        q = st.ghost.get("sub_query")
        if q is None:
            return [("translates-the-source", z3.BoolVal(False))]
        before, u = st.ghost["sub_terms_before"], st.ghost["sub_using"]
        after = c.field(q, "terms")
        sel = eng.list_mem(c.field(c.select_columns_node, "column_selection"), st)
        k = z3.Const("sc_k", S.Atom)
        return [("returns-the-source's-query-object", c.result.z == q.z),
                ("a-'*'-sub-query-stays-'*' (never a non-dictionary term collection)", z3.Implies(before.is_none, after.is_none)),
                ("otherwise-the-terms-are-narrowed-to-the-selected-columns-that-are-needed, with their SQL unchanged",
                 z3.Implies(z3.Not(before.is_none), z3.And(z3.Not(after.is_none), z3.ForAll([k], z3.And(after.val.dom[k] == z3.And(sel[k], u[k]), z3.Implies(after.val.dom[k], after.val.val[k] == before.val.val[k]))))))]

    c_sel = Contract(key="SQLModel.select_columns_to_near_sql", file="data_algebra/sql_model.py", qualname="SQLModel.select_columns_to_near_sql", cls="SQLModel",
                     params={"self": SM, "select_columns_node": T.obj("SelectColumnsNode"), "using": T.opt(T.obj("OrderedSet")), "temp_id_source": Ty_py_none(), "sql_format_options": Ty_py_none()},
                     returns=NQ, ensures=ens, modifies=(("OrderedSet", "impl"), ("NearSQLObj", "terms")),
                     requires=lambda c: [("is-a-select_columns-node", c.field(c.select_columns_node, "node_name").z == c.S.str_const("SelectColumnsNode")), ("one-source", c.field(c.select_columns_node, "sources").n == 1),
                                         ("node-allocated", c.eng.allocated(c.st, c.select_columns_node)), ("source-allocated", c.eng.allocated(c.st, VScalar(c.field(c.select_columns_node, "sources").arr[0], NODE)))])
    # this target sees the source's translation as an OBJECT with a term dictionary; the other *_to_near_sql targets only pass it on
    c_sel.call_overrides = {"ViewRepresentation.to_near_sql_implementation_": tnsi_apply}
    _ = saved
    reg.add(c_sel)


# ====================================================================== C08/C15: SQLModel.map_columns_to_near_sql
def register_map_sql(reg):
    import z3
    from pyvc.api import Contract, T, VList, VNone, VOpt, VPy, VScalar, VSet, VStr, VTuple, VDict, fresh_name
    from contracts.vr_common import COLS, NODE
    SM = T.obj("SQLModel")
    NEAR = T.opaque("NearSQL")

    def quote(S):
        return S.func("quote_identifier", S.Atom, S.Atom)

    def cu_apply(eng, st, argmap, node):
        S = eng.S
        arr = z3.Const(fresh_name("subusing"), z3.ArraySort(S.Atom, z3.BoolSort()))
        st.assume(z3.Not(arr[S.NONE]))
        st.ghost["subusing"] = arr
        return [(st, VTuple([VSet(arr, T.set(T.atom))], is_list=True))]

    reg.add(Contract(key="MapColumnsNode.columns_used_from_sources", cls="MapColumnsNode", params={"self": T.obj("MapColumnsNode")}, assumed=True, apply=cu_apply,
                     note="columns_used_from_sources returns one set of source columns (its own obligations: C10)"))

    def ens(c):
        S, eng, st = c.S, c.eng, c.st
        if c.raised:
            return []
        node = c.map_columns_node
        terms = st.ghost.get("unary_step_terms")
        sub = st.ghost.get("subusing")
        if not isinstance(terms, VDict) or sub is None:
            return [("builds-a-unary-step-with-a-term-dictionary", z3.BoolVal(False))]
        rm = c.field(node, "column_remapping")  # old -> new
        dels = eng.list_mem(c.field(node, "column_deletions"), st)
        k = z3.Const("mp_k", S.Atom)
        j = z3.Const("mp_j", S.Atom)
        is_new = lambda x: z3.Exists([j], z3.And(rm.dom[j], rm.val[j] == x))
        touched = lambda x: z3.Or(rm.dom[x], is_new(x), dels[x])
        return [("the-CTE-sharing-key-identifies-the-node (with its sources), not just the step", ops_key_identifies_node(c, node)),
                ("every-mapped-column-is-selected-as-new-name = quoted old name", z3.ForAll([k], z3.Implies(rm.dom[k], z3.And(terms.dom[rm.val[k]], terms.val[rm.val[k]] == quote(S)(k))))),
                ("every-other-term-is-a-requested-source-column-that-the-mapping-neither-renames-nor-deletes, passed through unchanged",
                 z3.ForAll([k], z3.Implies(z3.And(terms.dom[k], z3.Not(is_new(k))), z3.And(sub[k], z3.Not(touched(k)), terms.val[k] == S.NONE)))),
                ("no-requested-untouched-source-column-is-lost-and-no-deleted-column-survives", z3.ForAll([k], z3.And(z3.Implies(z3.And(sub[k], z3.Not(touched(k))), terms.dom[k]),
                                                                                                                  z3.Implies(z3.And(dels[k], z3.Not(is_new(k))), z3.Not(terms.dom[k])))))]

    reg.add(Contract(key="SQLModel.map_columns_to_near_sql", file="data_algebra/sql_model.py", qualname="SQLModel.map_columns_to_near_sql", cls="SQLModel",
                     params={"self": SM, "map_columns_node": T.obj("MapColumnsNode"), "using": T.opt(T.obj("OrderedSet")), "temp_id_source": Ty_py_none(), "sql_format_options": Ty_py_none()},
                     returns=NEAR, ensures=ens, modifies=(("OrderedSet", "impl"),),
                     requires=lambda c: [("is-a-map_columns-node", c.field(c.map_columns_node, "node_name").z == c.S.str_const("MapColumnsNode")), ("one-source", c.field(c.map_columns_node, "sources").n == 1),
                                         ("node-allocated", c.eng.allocated(c.st, c.map_columns_node)), ("source-allocated", c.eng.allocated(c.st, VScalar(c.field(c.map_columns_node, "sources").arr[0], NODE))),
                                         ("remapping-is-injective-with-no-None-entries (constructor)", z3.And(z3.Not(c.field(c.map_columns_node, "column_remapping").dom[c.S.NONE]),
                                           z3.ForAll([z3.Const("a_", c.S.Atom), z3.Const("b_", c.S.Atom)], z3.Implies(z3.And(c.field(c.map_columns_node, "column_remapping").dom[z3.Const("a_", c.S.Atom)], c.field(c.map_columns_node, "column_remapping").dom[z3.Const("b_", c.S.Atom)],
                                                      c.field(c.map_columns_node, "column_remapping").val[z3.Const("a_", c.S.Atom)] == c.field(c.map_columns_node, "column_remapping").val[z3.Const("b_", c.S.Atom)]), z3.Const("a_", c.S.Atom) == z3.Const("b_", c.S.Atom)))))]))


# ====================================================================== C08/C15: SQLModel.rename_to_near_sql (the SELECT terms of a rename step)
def register_rename_sql(reg):
    import z3
    from pyvc.api import Contract, T, VList, VNone, VOpt, VPy, VScalar, VSet, VStr, VTuple, VDict, fresh_name
    from contracts.vr_common import COLS, NODE
    SM = T.obj("SQLModel")
    NEAR = T.opaque("NearSQL")

    def quote(S):
        return S.func("quote_identifier", S.Atom, S.Atom)

    def cu_apply(eng, st, argmap, node):
        S = eng.S
        arr = z3.Const(fresh_name("subusing"), z3.ArraySort(S.Atom, z3.BoolSort()))
        st.assume(z3.Not(arr[S.NONE]))
        st.ghost["subusing"] = arr
        return [(st, VTuple([VSet(arr, T.set(T.atom))], is_list=True))]

    reg.add(Contract(key="RenameColumnsNode.columns_used_from_sources", cls="RenameColumnsNode", params={"self": T.obj("RenameColumnsNode")}, assumed=True, apply=cu_apply,
                     note="columns_used_from_sources returns one set of source columns (its own obligations: C10)"))

    def ens(c):
        S, eng, st = c.S, c.eng, c.st
        if c.raised:
            return []
        node = c.rename_node
        terms = st.ghost.get("unary_step_terms")
        sub = st.ghost.get("subusing")
        if not isinstance(terms, VDict) or sub is None:
            return [("builds-a-unary-step-with-a-term-dictionary", z3.BoolVal(False))]
        rm = c.field(node, "column_remapping")
        k = z3.Const("rn_k", S.Atom)
        old_names = z3.Const("rn_old_names", z3.ArraySort(S.Atom, z3.BoolSort()))  # the set of remapping VALUES
        j = z3.Const("rn_j", S.Atom)
        is_old = lambda x: z3.Exists([j], z3.And(rm.dom[j], rm.val[j] == x))
        return [("the-CTE-sharing-key-identifies-the-node (with its sources), not just the step", ops_key_identifies_node(c, node)),
                ("every-renamed-column-is-selected-as-new-name = quoted old name", z3.ForAll([k], z3.Implies(rm.dom[k], z3.And(terms.dom[k], terms.val[k] == quote(S)(rm.val[k]))))),
                ("every-other-term-is-a-requested-source-column-that-the-renaming-does-not-touch, passed through unchanged",
                 z3.ForAll([k], z3.Implies(z3.And(terms.dom[k], z3.Not(rm.dom[k])), z3.And(sub[k], z3.Not(is_old(k)), terms.val[k] == S.NONE)))),
                ("no-requested-untouched-source-column-is-lost", z3.ForAll([k], z3.Implies(z3.And(sub[k], z3.Not(rm.dom[k]), z3.Not(is_old(k))), terms.dom[k])))]

    reg.add(Contract(key="SQLModel.rename_to_near_sql", file="data_algebra/sql_model.py", qualname="SQLModel.rename_to_near_sql", cls="SQLModel",
                     params={"self": SM, "rename_node": T.obj("RenameColumnsNode"), "using": T.opt(T.obj("OrderedSet")), "temp_id_source": Ty_py_none(), "sql_format_options": Ty_py_none()},
                     returns=NEAR, ensures=ens, modifies=(("OrderedSet", "impl"),),
                     requires=lambda c: [("is-a-rename-node", c.field(c.rename_node, "node_name").z == c.S.str_const("RenameColumnsNode")), ("one-source", c.field(c.rename_node, "sources").n == 1),
                                         ("node-allocated", c.eng.allocated(c.st, c.rename_node)), ("source-allocated", c.eng.allocated(c.st, VScalar(c.field(c.rename_node, "sources").arr[0], NODE))),
                                         ("remapping-has-no-None-entries (constructor)", z3.Not(c.field(c.rename_node, "column_remapping").dom[c.S.NONE]))]))


# ====================================================================== C18: the executors' order_rows steps (arguments handed to sort / head)
def register_order_steps(reg):
    import z3
    from pyvc.api import Contract, T, VList, VNone, VOpt, VPy, VScalar, VSet, VStr, VTuple, fresh_name
    from contracts.vr_common import COLS, NODE, register_classes
    register_classes(reg)
    FRAME = T.opaque("Frame")
    PM = T.obj("PandasModel")
    reg.add_class("PolarsModel", {}, file="data_algebra/polars_model.py")
    PL = T.obj("PolarsModel")
    Unsupported = __import__("pyvc.engine", fromlist=["Unsupported"]).Unsupported

    def nrows(S):
        return S.func("frame_nrows", S.sort("Frame"), z3.IntSort())

    def srcf(S):
        return S.func("evaluated_source_frame", z3.IntSort(), S.sort("Frame"))

    def sortf(S):
        return S.func("frame_sorted", S.sort("Frame"), z3.ArraySort(z3.IntSort(), S.Atom), z3.IntSort(), z3.ArraySort(z3.IntSort(), z3.BoolSort()), z3.IntSort(), S.sort("Frame"))

    def headf(S):
        return S.func("frame_head", S.sort("Frame"), z3.IntSort(), S.sort("Frame"))

    def reset(S):
        return S.func("frame_reset_index_drop", S.sort("Frame"), S.sort("Frame"))

    reg.opaque_attrs[("Frame", "shape")] = lambda eng, st, o: VTuple([VScalar(nrows(eng.S)(o.z), T.int), VScalar(z3.Int(fresh_name("ncols")), T.int)])
    reg.opaque_attrs[("Frame", "iloc")] = lambda eng, st, o: VPy(("frameiloc", o))

    def iloc_subscript(eng, st, cont, key, node):
        if isinstance(cont, VPy) and isinstance(cont.obj, tuple) and cont.obj[0] == "frameiloc" and isinstance(key, VTuple) and len(key.items) == 2:
            rng = key.items[0]
            if isinstance(rng, VPy) and isinstance(rng.obj, tuple) and rng.obj[0] == "range":
                eng.registry.note("assumed pandas contract: df.iloc[range(n), :] is the first n rows (a function of (df, n))")
                return [(st, VScalar(headf(eng.S)(cont.obj[1].z, rng.obj[1].z), FRAME))]
        return None

    reg.subscript_hooks = getattr(reg, "subscript_hooks", []) + [iloc_subscript]

    def src_apply(eng, st, argmap, node):
        eng.registry.note("assumed: evaluating the source sub-pipeline yields a frame owned by the executor (a function of the source node)")
        return [(st, VScalar(srcf(eng.S)(argmap["s"].z), FRAME))]

    reg.add(Contract(key="PandasModel._eval_value_source", cls="PandasModel", params={"self": PM, "s": NODE}, assumed=True, apply=src_apply))
    reg.add(Contract(key="PolarsModel._compose_polars_ops", cls="PolarsModel", params={"self": PL, "s": NODE}, assumed=True, apply=src_apply))
    reg.add(Contract(key="PandasModel.drop_indices", cls="PandasModel", params={"self": PM}, assumed=True, apply=lambda eng, st, argmap, node: [(st, VNone())]))

    def sort_values_apply(eng, st, argmap, node):
        S = eng.S
        by = eng.list_of(argmap["by"], st, node)
        asc = eng.list_of(argmap["ascending"], st, node)
        ii, ip = argmap.get("ignore_index"), argmap.get("inplace")
        if not (isinstance(ip, VPy) and ip.obj is False):
            raise Unsupported("sort_values without inplace=False", node)
        eng.registry.note("assumed pandas contract: df.sort_values(by, ascending, inplace=False) is a function of (df, by, ascending)")
        return [(st, VScalar(sortf(S)(argmap["self"].z, by.arr, by.n, asc.arr, asc.n), FRAME))]

    reg.opaque_methods[("Frame", "sort_values")] = Contract(key="Frame.sort_values", params={"by": COLS, "ascending": T.list(T.bool)}, assumed=True, apply=sort_values_apply)

    def pl_sort_apply(eng, st, argmap, node):
        S = eng.S
        by = eng.list_of(argmap["by"], st, node)
        desc = eng.list_of(argmap["descending"], st, node)
        # polars sort(by, descending) == pandas sort(by, ascending = not descending): stated through the same spec function
        asc = z3.Const(fresh_name("asc_of_desc"), z3.ArraySort(z3.IntSort(), z3.BoolSort()))
        i = z3.Int(fresh_name("i"))
        st.assume(z3.ForAll([i], asc[i] == z3.Not(desc.arr[i]), patterns=[asc[i]]))
        eng.registry.note("assumed polars contract: frame.sort(by, descending) is a function of (frame, by, descending); head(n) is the first n rows")
        return [(st, VScalar(sortf(S)(argmap["self"].z, by.arr, by.n, asc, desc.n), FRAME))]

    reg.opaque_methods[("Frame", "sort")] = Contract(key="Frame.sort", params={"by": COLS, "descending": T.list(T.bool)}, assumed=True, apply=pl_sort_apply)
    reg.opaque_methods[("Frame", "head")] = Contract(key="Frame.head", params={"n": T.int}, assumed=True,
                                                     apply=lambda eng, st, argmap, node: [(st, VScalar(headf(eng.S)(argmap["self"].z, eng.coerce(argmap["n"], T.int, st, node).z), FRAME))])

    def spec_sorted(c, f0):
        S = c.S
        oc = c.field(c.op, "order_columns")
        rev = c.eng.list_mem(c.field(c.op, "reverse"), c.st)
        asc = z3.Const(fresh_name("spec_asc"), z3.ArraySort(z3.IntSort(), z3.BoolSort()))
        i = z3.Int(fresh_name("i"))
        c.st.assume(z3.ForAll([i], asc[i] == z3.Not(rev[oc.arr[i]]), patterns=[asc[i]]))
        return sortf(S)(f0, oc.arr, oc.n, asc, oc.n), asc

    def same_sort_call(S, term, f0, oc, want_asc):
        """term == frame_sorted(f0, by, n, asc, n') with by == order columns and asc[i] == want_asc[i] for i < n"""
        return term

    def pandas_ens(c):
        S = c.S
        if c.raised:
            return []
        f0 = srcf(S)(c.field(c.op, "sources").arr[0])
        srt, asc = spec_sorted(c, f0)
        lim = c.field(c.op, "limit")
        # ascending lists are compared extensionally below n only: restate with an explicit uninterpreted application on normalised arguments
        mid = z3.If(nrows(S)(f0) > 1, srt, f0)
        want = z3.If(z3.And(z3.Not(lim.is_none), nrows(S)(mid) > lim.val.z), reset(S)(headf(S)(mid, lim.val.z)), mid)
        return [("sorted-by-the-order-columns-ascending-except-the-reversed-ones-then-cut-to-the-limit", c.result.z == want)]

    def sort_norm_axiom(c):
        """frame_sorted only depends on the first n entries of its by/ascending arrays (they are python lists of that length)"""
        S = c.S
        f = z3.Const("sn_f", S.sort("Frame"))
        b1, b2 = z3.Const("sn_b1", z3.ArraySort(z3.IntSort(), S.Atom)), z3.Const("sn_b2", z3.ArraySort(z3.IntSort(), S.Atom))
        a1, a2 = z3.Const("sn_a1", z3.ArraySort(z3.IntSort(), z3.BoolSort())), z3.Const("sn_a2", z3.ArraySort(z3.IntSort(), z3.BoolSort()))
        n = z3.Int("sn_n")
        w = S.func("sort_args_differ_at", z3.ArraySort(z3.IntSort(), S.Atom), z3.ArraySort(z3.IntSort(), S.Atom), z3.ArraySort(z3.IntSort(), z3.BoolSort()), z3.ArraySort(z3.IntSort(), z3.BoolSort()), z3.IntSort(), z3.IntSort())
        k = w(b1, b2, a1, a2, n)
        return [z3.ForAll([f, b1, b2, a1, a2, n], z3.Implies(z3.Implies(z3.And(0 <= k, k < n), z3.And(b1[k] == b2[k], a1[k] == a2[k])), sortf(S)(f, b1, n, a1, n) == sortf(S)(f, b2, n, a2, n)),
                          patterns=[z3.MultiPattern(sortf(S)(f, b1, n, a1, n), sortf(S)(f, b2, n, a2, n))])]

    common_req = lambda c: [("is-an-order-node", c.field(c.op, "node_name").z == c.S.str_const("OrderRowsNode")), ("one-source", c.field(c.op, "sources").n == 1),
                            ("node-allocated", c.eng.allocated(c.st, c.op)), ("reverse-within-order-columns (constructor)", z3.BoolVal(True))]

    reg.add(Contract(key="PandasModel._order_rows_step", file="data_algebra/pandas_base.py", qualname="PandasModelBase._order_rows_step", cls="PandasModel",
                     params={"self": PM, "op": T.obj("OrderRowsNode"), "data_map": T.dict(T.atom, FRAME)}, returns=FRAME, requires=common_req, entry_assume=sort_norm_axiom, ensures=pandas_ens))

    def polars_ens(c):
        S = c.S
        if c.raised:
            return []
        f0 = srcf(S)(c.field(c.op, "sources").arr[0])
        srt, asc = spec_sorted(c, f0)
        lim = c.field(c.op, "limit")
        want = z3.If(lim.is_none, srt, headf(S)(srt, lim.val.z))
        return [("sorted-by-the-order-columns-descending-exactly-on-the-reversed-ones-then-head(limit)", c.result.z == want)]

    reg.add(Contract(key="PolarsModel._order_rows_step", file="data_algebra/polars_model.py", qualname="PolarsModel._order_rows_step", cls="PolarsModel",
                     params={"self": PL, "op": T.obj("OrderRowsNode"), "data_map": T.dict(T.atom, FRAME)}, returns=FRAME, requires=common_req, entry_assume=sort_norm_axiom, ensures=polars_ens))


KEYS_C18_STEPS = ["PandasModel._order_rows_step", "PolarsModel._order_rows_step"]


# ====================================================================== C08 / C09 / C19: small executor steps (what they hand to the frame library)
def register_small_steps(reg):
    import z3
    from pyvc.api import Contract, T, VDict, VList, VNone, VOpt, VPy, VScalar, VSet, VStr, VTuple, fresh_name
    from contracts.vr_common import COLS, NODE, EXPR, register_classes
    register_classes(reg)
    FRAME = T.opaque("Frame")
    PM = T.obj("PandasModel")
    PL = T.obj("PolarsModel")
    reg.classes["PolarsModel"].fields.setdefault("use_lazy_eval", T.bool)
    Unsupported = __import__("pyvc.engine", fromlist=["Unsupported"]).Unsupported
    S_ = None

    def srcf(S):
        return S.func("evaluated_source_frame", z3.IntSort(), S.sort("Frame"))

    def nrows(S):
        return S.func("frame_nrows", S.sort("Frame"), z3.IntSort())

    def owned(S):
        return S.func("is_fresh_frame_owned_by_the_executor", S.sort("Frame"), z3.BoolSort())

    def reset(S):
        return S.func("frame_reset_index_drop", S.sort("Frame"), S.sort("Frame"))

    def colsel(S):
        return S.func("frame_select_columns", S.sort("Frame"), z3.ArraySort(z3.IntSort(), S.Atom), z3.IntSort(), S.sort("Frame"))

    def rowsel(S):
        return S.func("frame_loc_rows", S.sort("Frame"), S.sort("RowMask"), S.sort("Frame"))

    def acton(S):
        return S.func("expr_act_on_frame", S.sort("Expr"), S.sort("Frame"), S.sort("RowMask"))

    def renamef(S):
        return S.func("frame_rename_columns", S.sort("Frame"), z3.ArraySort(S.Atom, z3.BoolSort()), z3.ArraySort(S.Atom, S.Atom), S.sort("Frame"))

    # frame[list of columns]
    def getitem_hook(eng, st, cont, key, node):
        if isinstance(cont, VScalar) and cont.ty.kind == "opaque" and cont.ty.name == "Frame" and isinstance(key, (VList, VTuple)):
            l = eng.list_of(key, st, node)
            eng.registry.note("assumed pandas contract: df[list of columns] is a function of (df, that list) -- the listed columns in the listed order")
            return [(st, VScalar(colsel(eng.S)(cont.z, l.arr, l.n), FRAME))]
        if isinstance(cont, VPy) and isinstance(cont.obj, tuple) and cont.obj[0] == "frameloc" and isinstance(key, VTuple) and len(key.items) == 2 \
                and isinstance(key.items[0], VScalar) and key.items[0].ty.kind == "opaque" and key.items[0].ty.name == "RowMask":
            return [(st, VScalar(rowsel(eng.S)(cont.obj[1].z, key.items[0].z), FRAME))]
        return None

    reg.subscript_hooks = [getitem_hook] + getattr(reg, "subscript_hooks", [])

    def act_on_apply(eng, st, argmap, node):
        eng.registry.note("assumed: expr.act_on(frame) is a function of (expression, frame) giving a row mask")
        return [(st, VScalar(acton(eng.S)(argmap["self"].z, argmap["arg"].z), T.opaque("RowMask")))]

    reg.opaque_methods[("Expr", "act_on")] = Contract(key="Expr.act_on", params={"arg": FRAME}, assumed=True, apply=act_on_apply)

    def rename_apply(eng, st, argmap, node):
        m = argmap["columns"]
        return [(st, VScalar(renamef(eng.S)(argmap["self"].z, m.dom, m.val), FRAME))]

    reg.opaque_methods[("Frame", "rename")] = Contract(key="Frame.rename", params={"columns": T.dict(T.atom, T.atom)}, assumed=True, apply=rename_apply)
    reg.opaque_methods[("Frame", "lazy")] = Contract(key="Frame.lazy", params={}, assumed=True,
                                                     apply=lambda eng, st, argmap, node: [(st, VScalar(eng.S.func("frame_lazy", eng.S.sort("Frame"), eng.S.sort("Frame"))(argmap["self"].z), FRAME))])
    reg.opaque_methods[("Frame", "select")] = Contract(key="Frame.select", params={"cols": COLS}, assumed=True,
                                                       apply=lambda eng, st, argmap, node: [(st, VScalar(colsel(eng.S)(argmap["self"].z, eng.list_of(argmap["cols"], st, node).arr, eng.list_of(argmap["cols"], st, node).n), FRAME))])
    reg.globals[("isinstance", "Frame", "LazyFrame")] = lambda eng, st, v: eng.S.func("frame_is_lazy", eng.S.sort("Frame"), z3.BoolSort())(v.z)

    req = lambda name: (lambda c: [("node-kind", c.field(c.op, "node_name").z == c.S.str_const(name)), ("one-source", c.field(c.op, "sources").n == 1), ("node-allocated", c.eng.allocated(c.st, c.op))])

    def src0(c):
        return srcf(c.S)(c.field(c.op, "sources").arr[0])

    def sel_rows_ens(c):
        S = c.S
        if c.raised:
            return []
        f0 = src0(c)
        want = z3.If(nrows(S)(f0) < 1, f0, reset(S)(rowsel(S)(f0, acton(S)(c.field(c.op, "expr").z, f0))))
        return [("rows-selected-by-the-node's-expression-on-the-evaluated-source, returned as a fresh index-free copy", c.result.z == want)]

    reg.add(Contract(key="PandasModel._select_rows_step", file="data_algebra/pandas_base.py", qualname="PandasModelBase._select_rows_step", cls="PandasModel",
                     params={"self": PM, "op": T.obj("SelectRowsNode"), "data_map": T.dict(T.atom, FRAME)}, returns=FRAME, requires=req("SelectRowsNode"), ensures=sel_rows_ens))

    def sel_cols_ens(c):
        if c.raised:
            return []
        l = c.field(c.op, "column_selection")
        return [("exactly-the-selected-columns-in-the-selected-order", c.result.z == colsel(c.S)(src0(c), l.arr, l.n))]

    reg.add(Contract(key="PandasModel._select_columns_step", file="data_algebra/pandas_base.py", qualname="PandasModelBase._select_columns_step", cls="PandasModel",
                     params={"self": PM, "op": T.obj("SelectColumnsNode"), "data_map": T.dict(T.atom, FRAME)}, returns=FRAME, requires=req("SelectColumnsNode"), ensures=sel_cols_ens))

    def rename_ens(c):
        if c.raised:
            return []
        m = c.field(c.op, "reverse_mapping")
        return [("renamed-with-the-old->new-mapping-of-the-node", c.result.z == renamef(c.S)(src0(c), m.dom, m.val))]

    reg.add(Contract(key="PandasModel._rename_columns_step", file="data_algebra/pandas_base.py", qualname="PandasModelBase._rename_columns_step", cls="PandasModel",
                     params={"self": PM, "op": T.obj("RenameColumnsNode"), "data_map": T.dict(T.atom, FRAME)}, returns=FRAME, requires=req("RenameColumnsNode"), ensures=rename_ens))

    # polars _table_step: ALWAYS narrows / orders to the declared columns, lazily when asked
    reg.add(Contract(key="PolarsModel.is_appropriate_data_instance", cls="PolarsModel", params={"self": PL, "df": FRAME}, assumed=True,
                     apply=lambda eng, st, argmap, node: [(st, VScalar(eng.S.func("polars_is_appropriate_data_instance", eng.S.sort("Frame"), z3.BoolSort())(argmap["df"].z), T.bool))]))

    def cols_produced_apply(eng, st, argmap, node):
        cn = eng.read_field(st, argmap["self"], "column_names")
        return [(st, VList(cn.n, cn.arr, COLS))]

    reg.add(Contract(key="ViewRepresentation.columns_produced", cls="ViewRepresentation", params={"self": NODE}, assumed=True, apply=cols_produced_apply,
                     note="columns_produced() = list(column_names) (one line)"))

    def pl_table_ens(c):
        S = c.S
        if c.raised:
            return []
        d = c.data_map.val[c.field(c.op, "table_name").z]
        lazy = S.func("frame_lazy", S.sort("Frame"), S.sort("Frame"))
        is_lazy = S.func("frame_is_lazy", S.sort("Frame"), z3.BoolSort())
        cn = c.field(c.op, "column_names")
        base = z3.If(z3.And(c.field(c.self, "use_lazy_eval").z, z3.Not(is_lazy(d))), lazy(d), d)
        return [("always-narrowed-and-ordered-to-the-declared-columns (eager or lazy input)", c.result.z == colsel(S)(base, cn.arr, cn.n))]

    reg.add(Contract(key="PolarsModel._table_step", file="data_algebra/polars_model.py", qualname="PolarsModel._table_step", cls="PolarsModel",
                     params={"self": PL, "op": T.obj("TableDescription"), "data_map": T.dict(T.atom, FRAME)}, returns=FRAME,
                     requires=lambda c: [("node-kind", c.field(c.op, "node_name").z == c.S.str_const("TableDescription")), ("node-allocated", c.eng.allocated(c.st, c.op))], ensures=pl_table_ens))


KEYS_SMALL_STEPS = ["PandasModel._select_rows_step", "PandasModel._select_columns_step", "PandasModel._rename_columns_step", "PolarsModel._table_step"]
