"""Sidecar contracts: data_algebra/data_model_space.py and data_algebra/db_space.py (property C20).

Abstraction: view(space) : Key -> Table (a finite map).
  DataModelSpace: view = data_map.
  DBSpace:        dom(view) = keys of description_map, view[k] = the database table named k; the database handle is an
                  object with a ghost field `tables` (name -> table) and ASSUMED keyed-store contracts.
Every public operation gets a postcondition over the WHOLE view (all other keys unchanged), also on raising paths.
"""
import z3
from pyvc.api import Contract, T, VDict, VList, VNone, VScalar, VSet, VStr, VTuple, forall, fresh_name

FM = "data_algebra/data_model_space.py"
FD = "data_algebra/db_space.py"
FRAME = T.opaque("Frame")
TD = T.opaque("TableDescr")
OPS = T.opaque("Pipeline")
DM = T.opaque("DataModel")
KEY = T.atom
MAP = T.dict(KEY, FRAME)


def same_map(a: VDict, b: VDict, S):
    k = z3.Const("sm_k", S.Atom)
    return z3.And(a.dom == b.dom, z3.ForAll([k], z3.Implies(a.dom[k], a.val[k] == b.val[k])))


def map_with(new: VDict, old: VDict, key, value, S):
    k = z3.Const("mw_k", S.Atom)
    return z3.And(new.dom == z3.Store(old.dom, key, True), new.val[key] == value,
                  z3.ForAll([k], z3.Implies(z3.And(old.dom[k], k != key), new.val[k] == old.val[k])))


def map_without(new: VDict, old: VDict, key, S):
    k = z3.Const("mo_k", S.Atom)
    return z3.And(new.dom == z3.Store(old.dom, key, False), z3.ForAll([k], z3.Implies(z3.And(old.dom[k], k != key), new.val[k] == old.val[k])))


def register(reg):
    S_funcs = {}

    def fn(c, name, *sig):
        return c.S.func(name, *[c.S.sort(s) if isinstance(s, str) else s for s in sig])

    # ---------------------------------------------------------------- assumed externals
    def descr_apply(eng, st, argmap, node):
        S = eng.S
        d = argmap["d"]
        name = argmap.get("table_name")
        nz = eng.as_atom(name, st, node) if name is not None else S.NONE
        f = S.func("describe_table", S.sort("Frame"), S.Atom, S.sort("TableDescr"))
        eng.registry.note("assumed contract: data_ops.describe_table(d, table_name) is a function of (d, table_name)")
        return [(st, VScalar(f(d.z, nz), TD))]

    reg.add(Contract(key="data_algebra.data_ops.describe_table", params={"d": FRAME, "table_name": T.oatom}, assumed=True, apply=descr_apply,
                     names=("describe_table",)))

    def is_frame_apply(eng, st, argmap, node):
        S = eng.S
        f = S.func("is_appropriate_data_instance", S.sort("DataModel"), S.sort("Frame"), z3.BoolSort())
        eng.registry.note("assumed contract: DataModel.is_appropriate_data_instance is a pure predicate")
        return [(st, VScalar(f(argmap["self"].z, argmap["df"].z), T.bool))]

    reg.opaque_methods[("DataModel", "is_appropriate_data_instance")] = Contract(key="DataModel.is_appropriate_data_instance", params={"df": FRAME}, assumed=True, apply=is_frame_apply)

    def eval_apply(eng, st, argmap, node):
        """ops.eval(data_map=..., data_model=...): a function of the pipeline and the map's contents; may raise."""
        S = eng.S
        dm = argmap["data_map"]
        f = S.func("pipeline_eval", S.sort("Pipeline"), dm.dom.sort(), dm.val.sort(), S.sort("Frame"))
        eng.registry.note("assumed contract: ops.eval(data_map) is a function of (ops, data_map contents) or raises")
        r = st.fork()
        return [(st, VScalar(f(argmap["self"].z, dm.dom, dm.val), FRAME)), (r, __import__("pyvc.engine", fromlist=["Raised"]).Raised("EvalError"))]

    reg.opaque_methods[("Pipeline", "eval")] = Contract(key="Pipeline.eval", params={"data_map": MAP, "data_model": DM}, assumed=True, apply=eval_apply)

    # ================================================================ DataModelSpace
    reg.add_class("DataModelSpace", {"data_model": DM, "data_map": MAP, "n_tmp": T.int}, file=FM)
    DMS = T.obj("DataModelSpace")

    def view(c, old=False):
        return c.old_field(c.self, "data_map") if old else c.field(c.self, "data_map")

    def unchanged(c):
        return same_map(view(c), view(c, old=True), c.S)

    def chosen_key(c):
        k = c.st.env.get("key")
        return None if k is None or isinstance(k, VNone) else c.eng.as_atom(k, c.st)

    def auto_key_loop(c):
        return [("map-untouched", same_map(c.field(c.self, "data_map"), c.old_field(c.self, "data_map"), c.S))]

    def insert_ens(c):
        S = c.S
        old, new = view(c, True), view(c)
        if c.raised:
            return [("view-unchanged-on-failure", unchanged(c))]
        k = chosen_key(c)
        out = [("view-updated-at-key-only", map_with(new, old, k, c.value.z, S)),
               ("returns-description-of-new-entry", c.result.z == S.func("describe_table", S.sort("Frame"), S.Atom, S.sort("TableDescr"))(c.value.z, k))]
        if isinstance(c.key, VNone):
            out.append(("automatic-key-never-replaces-an-entry", z3.Not(old.dom[k])))
        else:
            out.append(("key-is-the-given-key", k == c.key.z))
        if isinstance(c.allow_overwrite, VScalar):
            out.append(("no-overwrite-unless-allowed", z3.Implies(z3.Not(c.allow_overwrite.z), z3.Not(old.dom[k]))))
        return out

    reg.add(Contract(key="DataModelSpace.insert", file=FM, qualname="DataModelSpace.insert", cls="DataModelSpace",
                     params={"self": DMS, "key": T.opt(KEY), "value": FRAME, "allow_overwrite": T.bool}, returns=TD, ensures=insert_ens,
                     loops={0: auto_key_loop}, modifies=(("DataModelSpace", "data_map"), ("DataModelSpace", "n_tmp"))))

    def execute_ens(c):
        S = c.S
        old, new = view(c, True), view(c)
        if c.raised:
            return [("view-unchanged-on-failure", unchanged(c))]
        k = chosen_key(c)
        ev = S.func("pipeline_eval", S.sort("Pipeline"), old.dom.sort(), old.val.sort(), S.sort("Frame"))
        val = ev(c.ops.z, old.dom, old.val)
        out = [("stores-result-computed-on-current-contents", map_with(new, old, k, val, S)),
               ("returns-description-of-new-entry", c.result.z == S.func("describe_table", S.sort("Frame"), S.Atom, S.sort("TableDescr"))(val, k))]
        if isinstance(c.key, VNone):
            out.append(("automatic-key-never-replaces-an-entry", z3.Not(old.dom[k])))
        else:
            out.append(("key-is-the-given-key", k == c.key.z))
        out.append(("no-overwrite-unless-allowed", z3.Implies(z3.Not(c.allow_overwrite.z), z3.Not(old.dom[k]))))
        return out

    reg.add(Contract(key="DataModelSpace.execute", file=FM, qualname="DataModelSpace.execute", cls="DataModelSpace",
                     params={"self": DMS, "ops": OPS, "key": T.opt(KEY), "allow_overwrite": T.bool}, returns=TD, ensures=execute_ens,
                     loops={0: auto_key_loop}, modifies=(("DataModelSpace", "data_map"), ("DataModelSpace", "n_tmp"))))

    def remove_ens(c):
        old, new = view(c, True), view(c)
        if c.raised:
            return [("view-unchanged-on-failure", unchanged(c)), ("raises-only-for-a-missing-key", z3.Not(old.dom[c.key.z]))]
        return [("entry-removed-others-kept", map_without(new, old, c.key.z, c.S)), ("key-was-present", old.dom[c.key.z])]

    reg.add(Contract(key="DataModelSpace.remove", file=FM, qualname="DataModelSpace.remove", cls="DataModelSpace", params={"self": DMS, "key": KEY},
                     ensures=remove_ens, modifies=(("DataModelSpace", "data_map"),)))

    def keys_ens(c):
        if c.raised:
            return [("no-exception", z3.BoolVal(False))]
        return [("is-the-key-set", c.result.arr == view(c, True).dom), ("view-unchanged", unchanged(c))]

    reg.add(Contract(key="DataModelSpace.keys", file=FM, qualname="DataModelSpace.keys", cls="DataModelSpace", params={"self": DMS}, returns=T.set(KEY), ensures=keys_ens))

    def retrieve_ens(c):
        old = view(c, True)
        if c.raised:
            return [("view-unchanged-on-failure", unchanged(c)), ("raises-only-for-a-missing-key", z3.Not(old.dom[c.key.z]))]
        return [("returns-the-stored-table", z3.And(old.dom[c.key.z], c.result.z == old.val[c.key.z])), ("view-unchanged", unchanged(c))]

    reg.add(Contract(key="DataModelSpace.retrieve", file=FM, qualname="DataModelSpace.retrieve", cls="DataModelSpace", params={"self": DMS, "key": KEY}, returns=FRAME, ensures=retrieve_ens))

    def describe_ens(c):
        S = c.S
        old = view(c, True)
        if c.raised:
            return [("view-unchanged-on-failure", unchanged(c)), ("raises-only-for-a-missing-key", z3.Not(old.dom[c.key.z]))]
        d = S.func("describe_table", S.sort("Frame"), S.Atom, S.sort("TableDescr"))
        return [("describes-the-stored-table", z3.And(old.dom[c.key.z], c.result.z == d(old.val[c.key.z], c.key.z))), ("view-unchanged", unchanged(c))]

    reg.add(Contract(key="DataModelSpace.describe", file=FM, qualname="DataModelSpace.describe", cls="DataModelSpace", params={"self": DMS, "key": KEY}, returns=TD,
                     ensures=describe_ens, raises=lambda c: {"KeyError": z3.Not(c.field(c.self, "data_map").dom[c.key.z])}))

    # ================================================================ DBSpace with an assumed keyed-store handle
    reg.add_class("DBHandle", {"tables": MAP}, file="data_algebra/db_model.py")
    reg.add_class("DBSpace", {"db_handle": T.obj("DBHandle"), "n_tmp": T.int, "description_map": T.dict(KEY, TD),
                              "eligable_for_auto_drop_list": T.set(KEY), "drop_tables_on_close": T.bool, "close_handle": T.bool}, file=FD)
    DBS = T.obj("DBSpace")
    H = T.obj("DBHandle")

    def dbdescr(c):
        return c.S.func("db_describe_table", c.S.sort("Frame"), c.S.Atom, c.S.sort("TableDescr"))

    def others_untouched(c):
        """handle contracts: only `tables` of this handle changes"""
        o = z3.Int(fresh_name("o"))
        return z3.And(*[z3.ForAll([o], z3.Implies(o != c.self.z, n[o] == p[o])) for n, p in zip(c.heap_parts("DBHandle", "tables"), c.heap_parts("DBHandle", "tables", old=True))])

    def h_insert_ens(c):
        old, new = c.old_field(c.self, "tables"), c.field(c.self, "tables")
        return [("tables", map_with(new, old, c.table_name.z, c.d.z, c.S)), ("ret", c.result.z == dbdescr(c)(c.d.z, c.table_name.z)), ("frame", others_untouched(c))]

    reg.add(Contract(key="DBHandle.insert_table", cls="DBHandle", params={"self": H, "d": FRAME, "table_name": KEY, "allow_overwrite": T.bool}, returns=TD, assumed=True,
                     raises=lambda c: {"ValueError": z3.And(c.field(c.self, "tables").dom[c.table_name.z], z3.Not(c.allow_overwrite.z))},
                     ensures=h_insert_ens, modifies=(("DBHandle", "tables"),), note="keyed store: insert_table writes exactly one table, refuses to overwrite unless allowed"))

    def h_drop_ens(c):
        old, new = c.old_field(c.self, "tables"), c.field(c.self, "tables")
        return [("tables", map_without(new, old, c.table_name.z, c.S)), ("frame", others_untouched(c))]

    reg.add(Contract(key="DBHandle.drop_table", cls="DBHandle", params={"self": H, "table_name": KEY}, assumed=True, ensures=h_drop_ens,
                     modifies=(("DBHandle", "tables"),), note="drop_table removes exactly that table (no error if absent)"))

    def h_read_ens(c):
        old = c.old_field(c.self, "tables")
        return [("ret", c.result.z == old.val[c.table_name.z])]

    reg.add(Contract(key="DBHandle.read_table", cls="DBHandle", params={"self": H, "table_name": KEY}, returns=FRAME, assumed=True, ensures=h_read_ens,
                     raises=lambda c: {"DatabaseError": z3.Not(c.field(c.self, "tables").dom[c.table_name.z])}, note="read_table returns the stored table, raises if it does not exist"))

    def h_describe_ens(c):
        old = c.old_field(c.self, "tables")
        return [("ret", c.result.z == dbdescr(c)(old.val[c.table_name.z], c.table_name.z))]

    reg.add(Contract(key="DBHandle.describe_table", cls="DBHandle", params={"self": H, "table_name": KEY}, returns=TD, assumed=True, ensures=h_describe_ens,
                     raises=lambda c: {"DatabaseError": z3.Not(c.field(c.self, "tables").dom[c.table_name.z])}))

    def dbeval(c, tables: VDict):
        return c.S.func("db_query_eval", c.S.sort("Pipeline"), tables.dom.sort(), tables.val.sort(), c.S.sort("Frame"))

    def h_create_ens(c):
        old, new = c.old_field(c.self, "tables"), c.field(c.self, "tables")
        val = dbeval(c, old)(c.q.z, old.dom, old.val)
        return [("tables", map_with(new, old, c.table_name.z, val, c.S)), ("ret", c.result.z == dbdescr(c)(val, c.table_name.z)), ("frame", others_untouched(c))]

    reg.add(Contract(key="DBHandle.create_table", cls="DBHandle", params={"self": H, "table_name": KEY, "q": OPS}, returns=TD, assumed=True, ensures=h_create_ens,
                     raises=lambda c: {"DatabaseError": c.field(c.self, "tables").dom[c.table_name.z]}, may_raise=("QueryError",), modifies=(("DBHandle", "tables"),),
                     note="CREATE TABLE AS: fails if the table exists or the query fails (tables unchanged), else stores the query result computed on the tables at the call"))

    def dview(c, old=False):
        """(description map, tables of the handle) in the old or the current state"""
        f = c.old_field if old else c.field
        h = f(c.self, "db_handle")
        if old:
            tabs = __import__("pyvc.values", fromlist=["rebuild"]).rebuild(c.old_heap[("DBHandle", "tables")].template, [z3.simplify(z3.Select(p, h.z)) for p in c.old_heap[("DBHandle", "tables")].parts])
        else:
            tabs = c.field(h, "tables")
        return f(c.self, "description_map"), tabs

    def db_inv(c):
        dm, tabs = dview(c)
        return [("described-tables-exist", z3.IsSubset(dm.dom, tabs.dom)),
                ("handle-allocated", c.eng.allocated(c.st, c.field(c.self, "db_handle"))),
                ("auto-drop-candidates-are-entries", z3.IsSubset(c.field(c.self, "eligable_for_auto_drop_list").arr, dm.dom))]

    def db_view_same(c):
        S = c.S
        dm0, t0 = dview(c, True)
        dm1, t1 = dview(c)
        k = z3.Const("dv_k", S.Atom)
        return z3.And(dm1.dom == dm0.dom, z3.ForAll([k], z3.Implies(dm0.dom[k], z3.And(t1.dom[k], t1.val[k] == t0.val[k]))))

    def db_view_with(c, key, value):
        S = c.S
        dm0, t0 = dview(c, True)
        dm1, t1 = dview(c)
        k = z3.Const("dv_k", S.Atom)
        return z3.And(dm1.dom == z3.Store(dm0.dom, key, True), t1.dom[key], t1.val[key] == value,
                      z3.ForAll([k], z3.Implies(z3.And(dm0.dom[k], k != key), z3.And(t1.dom[k], t1.val[k] == t0.val[k]))))

    def db_invariant_kept(c):
        dm, tabs = dview(c)
        return z3.And(z3.IsSubset(dm.dom, tabs.dom), z3.IsSubset(c.field(c.self, "eligable_for_auto_drop_list").arr, dm.dom))

    def db_auto_key_loop(c):
        return [("view-untouched", db_view_same(c)), ("invariant", db_invariant_kept(c)),
                ("handle-same", c.field(c.self, "db_handle").z == c.old_field(c.self, "db_handle").z)]

    def dbs_insert_ens(c):
        dm0, t0 = dview(c, True)
        if c.raised:
            return [("view-unchanged-on-failure", db_view_same(c)), ("invariant", db_invariant_kept(c))]
        k = chosen_key(c)
        out = [("view-updated-at-key-only", db_view_with(c, k, c.value.z)), ("invariant", db_invariant_kept(c))]
        if isinstance(c.key, VNone):
            out.append(("automatic-key-never-replaces-an-entry", z3.Not(dm0.dom[k])))
        else:
            out.append(("key-is-the-given-key", k == c.key.z))
        out.append(("no-overwrite-unless-allowed", z3.Implies(z3.Not(c.allow_overwrite.z), z3.Not(dm0.dom[k]))))
        return out

    MODS = (("DBSpace", "description_map"), ("DBSpace", "eligable_for_auto_drop_list"), ("DBSpace", "n_tmp"), ("DBHandle", "tables"))
    reg.add(Contract(key="DBSpace.insert", file=FD, qualname="DBSpace.insert", cls="DBSpace", params={"self": DBS, "key": T.opt(KEY), "value": FRAME, "allow_overwrite": T.bool},
                     returns=TD, requires=db_inv, ensures=dbs_insert_ens, loops={0: db_auto_key_loop}, modifies=MODS))

    def model_table_ens(c):
        S = c.S
        dm0, t0 = dview(c, True)
        dm1, t1 = dview(c)
        if c.raised:
            return [("view-unchanged-on-failure", db_view_same(c))]
        return [("entry-added", z3.And(dm1.dom == z3.Store(dm0.dom, c.key.z, True), same_map(t1, t0, S))), ("invariant", db_invariant_kept(c))]

    reg.add(Contract(key="DBSpace.model_table", file=FD, qualname="DBSpace.model_table", cls="DBSpace", params={"self": DBS, "key": KEY, "eligible_for_auto_drop": T.bool},
                     returns=TD, requires=db_inv, ensures=model_table_ens, raises=lambda c: {"DatabaseError": z3.Not(dview(c)[1].dom[c.key.z])}, modifies=MODS[:2]))

    def dbs_remove_ens(c):
        S = c.S
        dm0, t0 = dview(c, True)
        dm1, t1 = dview(c)
        k = z3.Const("dv_k", S.Atom)
        if c.raised:
            return [("view-unchanged-on-failure", db_view_same(c)), ("raises-only-for-a-missing-key", z3.Not(dm0.dom[c.key.z]))]
        return [("entry-removed-others-kept", z3.And(dm1.dom == z3.Store(dm0.dom, c.key.z, False),
                                                    z3.ForAll([k], z3.Implies(z3.And(dm0.dom[k], k != c.key.z), z3.And(t1.dom[k], t1.val[k] == t0.val[k]))))),
                ("table-dropped", z3.Not(t1.dom[c.key.z])), ("invariant", db_invariant_kept(c)), ("key-was-present", dm0.dom[c.key.z])]

    reg.add(Contract(key="DBSpace.remove", file=FD, qualname="DBSpace.remove", cls="DBSpace", params={"self": DBS, "key": KEY}, requires=db_inv, ensures=dbs_remove_ens,
                     raises=lambda c: {"KeyError": z3.Not(c.field(c.self, "description_map").dom[c.key.z])}, modifies=MODS))

    def dbs_keys_ens(c):
        if c.raised:
            return [("no-exception", z3.BoolVal(False))]
        return [("is-the-key-set", c.result.arr == dview(c, True)[0].dom), ("view-unchanged", db_view_same(c))]

    reg.add(Contract(key="DBSpace.keys", file=FD, qualname="DBSpace.keys", cls="DBSpace", params={"self": DBS}, returns=T.set(KEY), requires=db_inv, ensures=dbs_keys_ens))

    def dbs_retrieve_ens(c):
        dm0, t0 = dview(c, True)
        if c.raised:
            return [("view-unchanged-on-failure", db_view_same(c)), ("raises-only-for-a-missing-key", z3.Not(dm0.dom[c.key.z]))]
        return [("returns-the-stored-table", z3.And(dm0.dom[c.key.z], c.result.z == t0.val[c.key.z])), ("view-unchanged", db_view_same(c))]

    reg.add(Contract(key="DBSpace.retrieve", file=FD, qualname="DBSpace.retrieve", cls="DBSpace", params={"self": DBS, "key": KEY}, returns=FRAME, requires=db_inv, ensures=dbs_retrieve_ens))

    def dbs_describe_ens(c):
        dm0, t0 = dview(c, True)
        if c.raised:
            return [("view-unchanged-on-failure", db_view_same(c)), ("raises-only-for-a-missing-key", z3.Not(dm0.dom[c.key.z]))]
        return [("returns-the-recorded-description", z3.And(dm0.dom[c.key.z], c.result.z == dm0.val[c.key.z])), ("view-unchanged", db_view_same(c))]

    reg.add(Contract(key="DBSpace.describe", file=FD, qualname="DBSpace.describe", cls="DBSpace", params={"self": DBS, "key": KEY}, returns=TD, requires=db_inv, ensures=dbs_describe_ens))

    def dbs_execute_ens(c):
        dm0, t0 = dview(c, True)
        k = chosen_key(c)
        # split by region: overwriting an existing entry is a recorded finding (the old table is dropped BEFORE the
        # query runs); the residual obligation (key not present) must always be discharged.
        if c.raised:
            if k is None:
                return [("view-unchanged-on-failure[key-not-present]", db_view_same(c)), ("invariant-on-failure", z3.BoolVal(True))]
            return [("view-unchanged-on-failure[key-not-present]", z3.Implies(z3.Not(dm0.dom[k]), db_view_same(c))),
                    ("view-unchanged-on-failure[overwriting-an-entry]", z3.Implies(dm0.dom[k], db_view_same(c))),
                    ("invariant", db_invariant_kept(c))]
        val = dbeval(c, t0)(c.ops.z, t0.dom, t0.val)
        out = [("stores-result-computed-on-current-contents[key-not-present]", z3.Implies(z3.Not(dm0.dom[k]), db_view_with(c, k, val))),
               ("stores-result-computed-on-current-contents[overwriting-an-entry]", z3.Implies(dm0.dom[k], db_view_with(c, k, val))),
               ("invariant", db_invariant_kept(c))]
        if isinstance(c.key, VNone):
            out.append(("automatic-key-never-replaces-an-entry", z3.Not(dm0.dom[k])))
        else:
            out.append(("key-is-the-given-key", k == c.key.z))
        out.append(("no-overwrite-unless-allowed", z3.Implies(z3.Not(c.allow_overwrite.z), z3.Not(dm0.dom[k]))))
        return out

    reg.add(Contract(key="DBSpace.execute", file=FD, qualname="DBSpace.execute", cls="DBSpace", params={"self": DBS, "ops": OPS, "key": T.opt(KEY), "allow_overwrite": T.bool},
                     returns=TD, requires=db_inv, ensures=dbs_execute_ens, loops={0: db_auto_key_loop}, modifies=MODS))


KEYS = ["DataModelSpace.insert", "DataModelSpace.execute", "DataModelSpace.remove", "DataModelSpace.keys", "DataModelSpace.retrieve", "DataModelSpace.describe",
        "DBSpace.insert", "DBSpace.model_table", "DBSpace.remove", "DBSpace.keys", "DBSpace.retrieve", "DBSpace.describe", "DBSpace.execute"]
