"""Shared declarations for the targets in data_algebra/view_representations.py (C06 C07 C10 C11 C26).

Node objects live on the pyvc heap; the fields below are the ones the targets read or write.  Column collections are
lists of atoms (python tuples/lists of str); expressions are an opaque sort `Expr` described by spec functions:
  cols(e) : set of column names the expression reads   (Term.get_column_names adds exactly these)
"""
import z3
from pyvc.api import Contract, T, VDict, VList, VNone, VScalar, VSet, VStr, VTuple, fresh_name

F = "data_algebra/view_representations.py"
EXPR = T.opaque("Expr")
COLS = T.list(T.atom)
OPS = T.dict(T.atom, EXPR)
NODE = T.obj("ViewRepresentation")

NODE_CLASSES = {
    "TableDescription": {"table_name": T.atom, "table_name_was_set_by_user": T.bool, "qualifiers": T.dict(T.atom, T.atom)},
    "ExtendNode": {"ops": OPS, "partition_by": COLS, "order_by": COLS, "reverse": COLS, "windowed_situation": T.bool, "ordered_windowed_situation": T.bool},
    "ProjectNode": {"ops": OPS, "group_by": COLS},
    "SelectRowsNode": {"ops": OPS, "expr": EXPR, "decision_columns": T.set(T.atom)},
    "SelectColumnsNode": {"column_selection": COLS},
    "DropColumnsNode": {"column_deletions": COLS},
    "OrderRowsNode": {"order_columns": COLS, "reverse": COLS, "limit": T.opt(T.int)},
    "MapColumnsNode": {"column_remapping": T.dict(T.atom, T.atom), "column_deletions": COLS, "new_columns": T.set(T.atom)},
    "RenameColumnsNode": {"column_remapping": T.dict(T.atom, T.atom), "reverse_mapping": T.dict(T.atom, T.atom), "new_columns": T.set(T.atom)},
    "NaturalJoinNode": {"on_a": COLS, "on_b": COLS, "jointype": T.atom},
    "ConcatRowsNode": {"id_column": T.oatom, "a_name": T.atom, "b_name": T.atom},
    "ConvertRecordsNode": {"record_map": T.obj("RecordMap")},
    "SQLNode": {"sql": COLS, "view_name": T.atom},
}


def cols_fn(S):
    return S.func("cols", S.sort("Expr"), z3.ArraySort(S.Atom, z3.BoolSort()))


def register_classes(reg):
    if "ViewRepresentation" in reg.classes:
        return
    reg.add_class("ViewRepresentation", {"column_names": COLS, "sources": T.list(NODE), "key": T.oatom, "node_name": T.atom}, file=F)
    for name, fields in NODE_CLASSES.items():
        reg.add_class(name, dict(fields), bases=("ViewRepresentation",), file=F)
    reg.add_class("RecordMap", {"columns_needed": COLS, "columns_produced": COLS, "blocks_in": T.opt(T.obj("RecordSpecification")), "blocks_out": T.opt(T.obj("RecordSpecification")), "strict": T.bool},
                  file="data_algebra/cdata.py")
    reg.add_class("RecordSpecification", {"record_keys": COLS, "control_table_keys": COLS, "strict": T.bool, "control_table": T.opaque("Frame")}, file="data_algebra/cdata.py")

    # Term.get_column_names(columns_seen): adds cols(e) to the set passed in (assumed; read from expr_rep.py: ColumnReference adds its
    # name, Expression/ListTerm recurse into their arguments, Value adds nothing)
    def gcn_apply(eng, st, argmap, node):
        eng.registry.note("assumed contract: Term.get_column_names(s) adds exactly cols(e) to s")
        return [(st, VNone())]

    def gcn_out(eng, st, argmap):
        s = argmap["columns_seen"]
        e = argmap["self"]
        cf = cols_fn(eng.S)
        if isinstance(s, VSet):
            return VSet(z3.SetUnion(s.arr, cf(e.z)), s.ty)
        raise Exception("get_column_names on a non-set")

    c = Contract(key="Expr.get_column_names", params={"columns_seen": T.set(T.atom)}, assumed=True, apply=gcn_apply)
    c.out_params = {"columns_seen": gcn_out}
    reg.opaque_methods[("Expr", "get_column_names")] = c


def wf_node(c, node: VScalar):
    """well-formedness every constructor establishes: column_names is a duplicate-free tuple of strings, sources are allocated nodes."""
    S = c.S
    cn = c.field(node, "column_names")
    i, j = z3.Ints("wf_i wf_j")
    return z3.And(cn.n > 0, z3.ForAll([i, j], z3.Implies(z3.And(0 <= i, i < j, j < cn.n), cn.arr[i] != cn.arr[j])),
                  z3.ForAll([i], z3.Implies(z3.And(0 <= i, i < cn.n), cn.arr[i] != S.NONE)))


def colset(c, node: VScalar):
    return c.eng.list_mem(c.field(node, "column_names"), c.st)


def colset_old(c, node: VScalar):
    """columns of a node in the ENTRY state (for nodes the target does not modify, e.g. the source handed to a constructor)"""
    return c.eng.list_mem(c.old_field(node, "column_names"), c.st)


def source(c, node: VScalar, i: int) -> VScalar:
    src = c.field(node, "sources")
    return VScalar(src.arr[i], NODE)
