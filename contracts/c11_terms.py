"""Sidecar contracts: the is_equal methods of the expression classes in data_algebra/expr_rep.py (property C11, expression level).

Spec (IFF): two terms are equal exactly when they are of the same class and every stored component agrees --
  ColumnReference: column_name;  Value / DictTerm: the stored python value;  ListTerm: same length and element-wise agreement;
  Expression: op, inline, params (both None or equal maps) and argument lists of equal length that agree element-wise.
Element agreement: two terms agree per is_equal (relation E), two raw python values agree per ==, a term never agrees with a raw value.
"""
import z3
from pyvc.api import Contract, T, VDict, VList, VNone, VOpt, VPy, VScalar, VSet, VStr, VTuple, fresh_name, veq

F = "data_algebra/expr_rep.py"
ELEM = T.opaque("ListElem")   # a Term or a raw python value held in a ListTerm
PYV = T.opaque("PyValue")
EXPR = T.opaque("Expr")


def rz(c):
    r = c.result
    return z3.BoolVal(bool(r.obj)) if isinstance(r, VPy) else r.z


def register(reg):
    reg.add_class("PreTerm", {}, file=F)
    reg.add_class("ListTerm", {"value": T.list(ELEM)}, bases=("PreTerm",), file=F)
    reg.add_class("DictTerm", {"value": PYV}, bases=("PreTerm",), file=F)
    reg.add_class("Value", {"value": PYV}, bases=("PreTerm",), file=F)
    reg.add_class("ColumnReference", {"column_name": T.atom}, bases=("PreTerm",), file=F)
    reg.add_class("Expression", {"op": T.atom, "inline": T.bool, "method": T.bool, "params": T.opt(T.dict(T.atom, PYV)), "args": T.list(EXPR)}, bases=("PreTerm",), file=F)

    def is_term(S):
        return S.func("list_element_is_a_term", S.sort("ListElem"), z3.BoolSort())

    def elem_code(S):
        return S.func("list_element_term_code", S.sort("ListElem"), S.sort("ExprCode"))

    def expr_code(S):
        return S.func("expr_code", S.sort("Expr"), S.sort("ExprCode"))

    reg.globals[("isinstance", "ListElem", "PreTerm")] = lambda eng, st, v: is_term(eng.S)(v.z)

    def elem_is_equal(eng, st, argmap, node):
        eng.registry.note("assumed: Term.is_equal decides an equivalence E (kernel of expr_code); recursion through the elements' own is_equal")
        return [(st, VScalar(elem_code(eng.S)(argmap["self"].z) == elem_code(eng.S)(argmap["other"].z), T.bool))]

    reg.opaque_methods[("ListElem", "is_equal")] = Contract(key="ListElem.is_equal", params={"other": ELEM}, assumed=True, apply=elem_is_equal)

    def expr_is_equal(eng, st, argmap, node):
        return [(st, VScalar(expr_code(eng.S)(argmap["self"].z) == expr_code(eng.S)(argmap["other"].z), T.bool))]

    reg.opaque_methods[("Expr", "is_equal")] = Contract(key="Expr.is_equal", params={"other": EXPR}, assumed=True, apply=expr_is_equal)

    def alloc_other(c):
        return [("other-allocated", c.eng.allocated(c.st, c.other))]

    # ---- ListTerm
    def elems_agree(S, a, b):
        t = is_term(S)
        return z3.Or(z3.And(t(a), t(b), elem_code(S)(a) == elem_code(S)(b)), z3.And(z3.Not(t(a)), z3.Not(t(b)), a == b))

    def list_spec(c):
        S = c.S
        a, b = c.field(c.self, "value"), c.field(c.other, "value")
        i = z3.Int("ls_i")
        return z3.And(a.n == b.n, z3.ForAll([i], z3.Implies(z3.And(0 <= i, i < a.n), elems_agree(S, a.arr[i], b.arr[i]))))

    def list_loop(c):
        S = c.S
        a, b = c.field(c.self, "value"), c.field(c.other, "value")
        j = z3.Int("ll_j")
        return [("visited-elements-agree", z3.ForAll([j], z3.Implies(z3.And(0 <= j, j < c.i), elems_agree(S, a.arr[j], b.arr[j]))))]

    def iff(spec):
        def ens(c):
            if c.raised:
                return [("no-exception", z3.BoolVal(False))]
            return [("true-exactly-when-every-component-agrees", rz(c) == spec(c))]
        return ens

    reg.add(Contract(key="ListTerm.is_equal", file=F, qualname="ListTerm.is_equal", cls="ListTerm", params={"self": T.obj("ListTerm"), "other": T.obj("ListTerm")},
                     returns=T.bool, requires=alloc_other, ensures=iff(list_spec), loops={0: list_loop}))
    reg.add(Contract(key="ColumnReference.is_equal", file=F, qualname="ColumnReference.is_equal", cls="ColumnReference",
                     params={"self": T.obj("ColumnReference"), "other": T.obj("ColumnReference")}, returns=T.bool, requires=alloc_other,
                     ensures=iff(lambda c: c.field(c.self, "column_name").z == c.field(c.other, "column_name").z)))
    for cls in ("Value", "DictTerm"):
        reg.add(Contract(key="%s.is_equal" % cls, file=F, qualname="%s.is_equal" % cls, cls=cls, params={"self": T.obj(cls), "other": T.obj(cls)}, returns=T.bool,
                         requires=alloc_other, ensures=iff(lambda c: c.field(c.self, "value").z == c.field(c.other, "value").z)))

    # ---- Expression
    def expr_spec(c):
        S = c.S
        pa, pb = c.field(c.self, "params"), c.field(c.other, "params")
        aa, ab = c.field(c.self, "args"), c.field(c.other, "args")
        i = z3.Int("es_i")
        params_ok = z3.Or(z3.And(pa.is_none, pb.is_none), z3.And(z3.Not(pa.is_none), z3.Not(pb.is_none), veq(pa.val, pb.val)))
        return z3.And(c.field(c.self, "op").z == c.field(c.other, "op").z, c.field(c.self, "inline").z == c.field(c.other, "inline").z, params_ok,
                      aa.n == ab.n, z3.ForAll([i], z3.Implies(z3.And(0 <= i, i < aa.n), expr_code(S)(aa.arr[i]) == expr_code(S)(ab.arr[i]))))

    def params_loop(c):
        S = c.S
        pa, pb = c.field(c.self, "params").val, c.field(c.other, "params").val
        keys = c.seq
        k = z3.Const("pl_k", S.Atom)
        return [("visited-parameters-agree", z3.ForAll([k], z3.Implies(z3.And(keys.mem[k], keys.idx_fn(k) < c.i), pa.val[k] == pb.val[k])))]

    def args_loop(c):
        S = c.S
        aa, ab = c.field(c.self, "args"), c.field(c.other, "args")
        j = z3.Int("al_j")
        return [("visited-arguments-agree", z3.ForAll([j], z3.Implies(z3.And(0 <= j, j < c.i), expr_code(S)(aa.arr[j]) == expr_code(S)(ab.arr[j]))))]

    reg.add(Contract(key="Expression.is_equal", file=F, qualname="Expression.is_equal", cls="Expression", params={"self": T.obj("Expression"), "other": T.obj("Expression")},
                     returns=T.bool, requires=alloc_other, ensures=iff(expr_spec), loops={0: params_loop, 1: args_loop}))


KEYS = ["ListTerm.is_equal", "ColumnReference.is_equal", "Value.is_equal", "DictTerm.is_equal", "Expression.is_equal"]
